#!/usr/bin/env python3
"""Sensitivity harness (DESIGN.md 2.9).

  tools/mutate.py make                 regenerate mutants/*.diff from tools/mutants_def.py against /repo/src
  tools/mutate.py run [glob] [--suite] apply each mutant to a scratch copy of /repo (outside /repo and /verif), run the
                                       property's quick check with VF_REPO_SRC pointing there, record killed / survived in
                                       evidence/sensitivity.json; --suite also runs the repo's test-suite on the mutant
  tools/mutate.py seeded [glob]        the same for /verif/seeded/<id>/patch.diff (meta.json names the property)

The scratch copy is removed after every mutant.  Nothing is ever applied to /repo itself.
"""

import fnmatch
import glob
import json
import os
import shutil
import subprocess
import sys
import tempfile
import time

ROOT = os.path.dirname(os.path.dirname(os.path.abspath(__file__)))
REPO = "/repo"
PY = "/venv/bin/python"


def scratch_copy() -> str:
    d = tempfile.mkdtemp(prefix="vfmut_")
    subprocess.run(f"git -C {REPO} archive HEAD | tar -x -C {d}", shell=True, check=True)
    return d


def run_check(prop: str, src: str, seed: str = "", extra=None):
    seed = seed or os.environ.get("VERIF_SEED", "1")
    env = dict(os.environ, VF_REPO_SRC=src, VERIF_SEED=seed)
    t0 = time.time()
    p = subprocess.run([PY, "-m", "vf.run", prop, "--no-evidence", *(extra or [])], cwd=ROOT, env=env,
                       capture_output=True, text=True)
    out = p.stdout + p.stderr
    kinds = sorted({line.split("]")[0].split("[")[-1] for line in out.splitlines() if "cell=" in line and "[" in line})
    cells = sorted({line.split("cell=")[1].split(":")[0] for line in out.splitlines() if line.strip().startswith("cell=")})
    return p.returncode, kinds, cells, time.time() - t0, out


def run_suite(d: str) -> str:
    env = dict(os.environ, PYTHONPATH=os.path.join(d, "src"), OPENBLAS_NUM_THREADS="1")
    p = subprocess.run([PY, "-m", "pytest", "-o", "addopts=", "-q", "-p", "no:cacheprovider", "-W", "ignore", "-x",
                        "--deselect", "tests/test_construct/test_curves/test_interpolated.py::SplineInterpolatedCurveTests::test_length"],
                       cwd=d, env=env, capture_output=True, text=True)
    tail = [line for line in p.stdout.splitlines() if " passed" in line or " failed" in line]
    return tail[-1] if tail else "no summary (exit %d)" % p.returncode


def cmd_make() -> None:
    sys.path.insert(0, os.path.join(ROOT, "tools"))
    import mutants_def

    os.makedirs(os.path.join(ROOT, "mutants"), exist_ok=True)
    for name, prop, path, old, new, why in mutants_def.MUTANTS:
        full = os.path.join(REPO, path)
        text = open(full).read()
        if text.count(old) != 1:
            print(f"!! {name}: pattern found {text.count(old)}x in {path}")
            continue
        d = tempfile.mkdtemp(prefix="vfmk_")
        try:
            a = os.path.join(d, "a", path)
            b = os.path.join(d, "b", path)
            os.makedirs(os.path.dirname(a))
            os.makedirs(os.path.dirname(b))
            open(a, "w").write(text)
            open(b, "w").write(text.replace(old, new))
            p = subprocess.run(["diff", "-u", "--label", "a/" + path, "--label", "b/" + path, a, b], capture_output=True, text=True)
            with open(os.path.join(ROOT, "mutants", f"{prop}-{name}.diff"), "w") as f:
                f.write(f"# property: {prop}\n# what: {why}\n" + p.stdout)
        finally:
            shutil.rmtree(d, ignore_errors=True)
    print("written", len(glob.glob(os.path.join(ROOT, "mutants", "*.diff"))), "mutants")


def apply_patch(d: str, patch: str) -> bool:
    p = subprocess.run(["git", "apply", "--unsafe-paths", "--directory", d, patch], capture_output=True, text=True, cwd="/")
    if p.returncode != 0:
        p = subprocess.run(["patch", "-p1", "-i", patch], cwd=d, capture_output=True, text=True)
    return p.returncode == 0


def cmd_run(pattern: str, suite: bool, seeded: bool) -> None:
    results = {}
    seed = os.environ.get("VERIF_SEED", "1")
    suffix = "" if seed == "1" else f"_seed{seed}"
    out_file = os.path.join(ROOT, "evidence", ("sensitivity_seeded" if seeded else "sensitivity") + suffix + ".json")
    if os.path.exists(out_file):
        results = json.load(open(out_file))
    if seeded:
        items = []
        for meta in sorted(glob.glob(os.path.join(ROOT, "seeded", "*", "meta.json"))):
            name = os.path.basename(os.path.dirname(meta))
            items.append((name, json.load(open(meta))["property"], os.path.join(os.path.dirname(meta), "patch.diff")))
    else:
        items = []
        for path in sorted(glob.glob(os.path.join(ROOT, "mutants", "*.diff"))):
            name = os.path.basename(path)[:-5]
            items.append((name, name.split("-")[0], path))
    for name, prop, patch in items:
        if not fnmatch.fnmatchcase(name, pattern):
            continue
        d = scratch_copy()
        try:
            clean = os.path.join(d, "clean.diff")
            with open(clean, "w") as f:
                f.write("".join(line for line in open(patch) if not line.startswith("# ")))
            if not apply_patch(d, clean):
                results[name] = {"property": prop, "status": "patch-does-not-apply"}
                print(name, "PATCH DOES NOT APPLY")
                continue
            rc, kinds, cells, wall, out = run_check(prop, os.path.join(d, "src"))
            status = {0: "survived", 1: "killed", 2: "harness-error"}.get(rc, f"exit-{rc}")
            rec = {"property": prop, "status": status, "violation_kinds": kinds, "cells": cells, "wall_s": round(wall, 1)}
            if suite:
                rec["suite"] = run_suite(d)
            results[name] = rec
            print(f"{name:55s} {status:14s} {wall:6.1f}s {kinds} {rec.get('suite', '')}")
            if status == "harness-error":
                print(out[-1500:])
        finally:
            shutil.rmtree(d, ignore_errors=True)
        os.makedirs(os.path.dirname(out_file), exist_ok=True)
        with open(out_file, "w") as f:
            json.dump(results, f, indent=1, sort_keys=True)


if __name__ == "__main__":
    args = sys.argv[1:]
    if not args or args[0] == "make":
        cmd_make()
    else:
        pat = next((a for a in args[1:] if not a.startswith("--")), "*")
        cmd_run(pat, "--suite" in args, args[0] == "seeded")
