#!/usr/bin/env python3
"""Regenerates /verif/MANIFEST.json from the table below (only properties whose module exists are claimed)."""

import json
import os

ROOT = os.path.dirname(os.path.dirname(os.path.abspath(__file__)))

# id: (technique, level text, level note)
TABLE = {
    "C01": (
        "Hypothesis PBT over lattice assemblies; differential oracle = independent blockMeshDict parser + union-find over shared vertex-id pairs; expected-exception oracle for conflicting chops",
        "Generated search (exploration): random assemblies of <= 8 hexahedra (dedicated conflict arrangements <= 12: a dissenting block in a crowd, two camps along a row) in all 24 numberings and insertion orders with consistent, redundant and conflicting chops, written once, twice or after an explicit grade(), with drawn mesh settings and cellZones; every written file is re-read by an independent parser and cell counts are compared on every shared edge and with the live wires; conflicting models must raise InconsistentGradingsError and leave no file, also at a second write. Finds counter-examples, cannot prove absence.",
        "Trusts vf/foamdict.py (reader) and vf/refmodel.py (hex edge table from the OpenFOAM user guide). Bounded to <= 12 blocks cut from a 3x3x3-or-smaller node lattice; conflicts are count-vs-count.",
    ),
    "C02": (
        "Hypothesis PBT with harness-owned schedules (set iteration orders injected), call-count fuel for termination, metamorphic relation over insertion order / numbering / schedule",
        "Generated search (exploration) over models x insertion orders x 24 numberings x iteration orders of every address-hashed set reachable from blocks/axes/wires; termination is decided by a deterministic fuel bound, completeness against families computed by an independent union-find (also across merged master/slave interfaces with drawn patch names, and over histories of clear / backport / edited chops judged against a {family: count} model), order independence also for counts derived from a cell size on shared circular arcs, determinism by byte-comparison of files across schedules and allocator shifts; plus an enumerated regression model (all 6 orders of the decisive neighbour set).",
        "Every permutation of an address-hashed set is assumed feasible. Fuel limit 20k + 40k library calls per block (>= 40x the measured cost). <= 12 blocks. Vertex identity across merged pairs = (lattice node, set of slave patches on the block's faces at that corner).",
    ),
    "C03": (
        "Hypothesis PBT, differential against an independent geometric-progression model; round-trip (inversion) relation; thorough tier adds atheris/libFuzzer coverage-guided campaigns through the same strategies and oracle",
        "Generated search (exploration) over six decades of length, all 10 parameter pairs, counts 1..200, ratios in [0.5, 2] with a dedicated neighbourhood-of-1 and exact-integer generator; results are compared with an independent model of blockMesh's progression; realisable sets in a stated core domain must be accepted; also Chop.invert, Chop.copy_preserving (reversed against straight copy), multi-section Grading incl. .inverted and reused Chop objects, and the text Grading.description prints.",
        "Trusts vf/refmodel.gp_* as the blockMesh semantics. Tolerance 1e-9 + n*1.5e-7 relative on realised sizes. One known finding (count = 1 with start size) is matched narrowly.",
    ),
    "C04": (
        "Hypothesis PBT on jittered lattices; differential: per-edge cell-size sequences from the parsed file (independent GP model) compared across blocks; invariant on preserved first/last sizes",
        "Generated search (exploration): assemblies with unequal edge lengths (jitter, vertices moved after assembly, circular arcs incl. arcs on shared edges declared by either block, models down to 5e-4 in size), all numberings (anti-aligned neighbours in ~65 % of cases), all preserve modes, 1-3 section chops incl. wall sections that preserve the first / last cell; each hex entry is expanded to 12 edge gradings and the physical size sequence compared on every shared edge, with the live wires, and preserved sizes compared over the whole family at the geometrically same end; one case in three judges the file of a second write.",
        "Edge lengths from the parsed file (vertex distance, or R*theta of the circle through the three points of an arc entry); relative tolerance 1e-6 plus the 8-decimal rounding of vertices. Trusts vf/foamdict.py and vf/refmodel.multi_sizes.",
    ),
    "C05": (
        "Hypothesis PBT; differential against a reference partition of (operation, corner) computed from lattice bookkeeping; metamorphic over insertion order",
        "Generated search (exploration): lattice assemblies with random patch names, 0-2 master/slave pairs (also two pairs at one node; three pairs with a slave named like two others joined, placed across a merged interface), sub-tolerance jitter that must merge and near-misses (3-8 x TOL) that must not; the vertex partition read from Block.indexes and from the parsed file is compared with the reference partition by (position class, slave-patch set); indices dense and in list order; same partition for a second insertion order.",
        "Combinations the statement leaves open (two different non-empty slave sets at one point) are counted, not judged. Positions are either identical/sub-TOL or >= 3 TOL apart (no chains).",
    ),
    "C06": (
        "Hypothesis PBT over generated user scripts; differential: script-level model kept by the generator vs. the file re-read by an independent blockMeshDict/VTK parser",
        "Generated search (exploration): programs of 1-3 entities (Box, Loft clusters in 24 numberings, Extrude, Revolve, Wedge, Cylinder, ExtrudedRing, Hemisphere, Grid stack, stacked boxes with a real merged interface) and 0-10 statements (patches, zones, side/edge/corner projections, geometry, merges, default patch, modify_patch, settings, delete) in shuffled order; every section of the written file and the debug VTK is compared with the model.",
        "Trusts vf/foamdict.py and vf/x_script.py (model). Edge entries are only validity-checked here (C07 decides them). F15 (copied sphere) was repaired; its witness cell stays as a regression cell.",
    ),
    "C07": (
        "Hypothesis PBT + enumerated grid (kind x 12 positions x face histories); invariant/differential oracle on the parsed edges section with geometric ground truth",
        "Generated search (exploration): every edge kind on every one of the 12 edge positions, declared on faces before invert/shift/reorient histories, on the opposite face or as side edge, alone or shared with a second operation (declared once, twice, conflicting, degenerate); from the parsed file: exactly one entry per non-degenerate curved edge, on a real hex edge, payload directed from first to second vertex, degenerate ones omitted, Edge.length equals the user's curve.",
        "Ground truth is geometric (end points + curve in the user's sense). Known finding F7 (Face.invert keeps direction-dependent payload) is matched in a witness cell only.",
    ),
    "C08": (
        "Hypothesis PBT; differential against the analytic circle (own cos/sin construction, circle through 3 points); thorough tier adds atheris/libFuzzer campaigns on the numeric cells",
        "Generated search (exploration): centre/axis in general position, radii over three decades, sector angles in (0.1, 2pi-0.05) of either sign; mid point of angle/origin arcs within 1e-7 R of the analytic mid point, lengths R*theta within 1e-7, the arc line of the written file, three-point arc length, chord bound for every edge kind.",
        "Known findings F10 (OpenFOAM's interior/exterior convention) and C08-N2 (absolute collinearity tolerance on tiny arcs) are confined to witness cells with narrow predicates.",
    ),
    "C10": (
        "Hypothesis PBT + enumerated index grids; invariant (permutation of the same points, edges attached) and differential against the blockMesh hexahedron convention from the OpenFOAM user guide",
        "Generated search (exploration): general-position quadrilaterals with 4 distinguishable edges under sequences of shift/invert/reorient; operations in 24 numberings with set_patch / project_side / project_edge / project_corner / add_side_edge / Face.add_edge / get_face over all 6 sides x 12 edges x 8 corners (full index grid enumerated); the written file must address exactly the modelled side, edge or corner.",
        "Direction of edge entries is left to C07; reorient asserted only when the nearest corner is nearer by >= 10 %.",
    ),
    "C11": (
        "Hypothesis PBT over all shape classes in random placement; invariants (corner Jacobians, vertex/block counts, face connectivity, arcs on circle) + write succeeds + parsed-file count agreement",
        "Generated search (exploration): 37 cells - round shapes, rings, hemisphere, joints, operations, shell, 13 sketches under 5 sweeps, 4 stack kinds, chains of up to 3 steps (chain/expand/contract/fill): independent Jacobians > 0, expected vertex and block counts, no face used by three blocks, outer arcs on the intended circle, documented chops make write succeed with consistent counts, chained shapes share exactly the interface vertices.",
        "Jacobians are evaluated on the straight-edged block. Joints and big shapes have small case counts in the quick tier. One known finding (C11-N3: chaining onto a mirrored shape extrudes back into it) is confined to a witness cell with the source mirrored.",
    ),
    "C12": (
        "Model-based testing over generated API histories (JSON programs interpreted against the real Mesh and a script-level model); differential against a fresh build",
        "Generated search (exploration) over histories of <= 12 steps on <= 4 operations (add, delete, assemble, move vertices, backport, clear, modify_patch, set_default_patch, merge_patches, write, write twice): every written text is compared section by section with a fresh Mesh built once from the model; backport updates exactly the owning operations also after deletes; second write is byte-identical.",
        "Count-only chops; Lofts (bare or in a user Shape) with arcs/projections; face-less patches and patch order are not judged.",
    ),
    "C13": (
        "Hypothesis PBT with injected faults (degenerate-cell exception at the k-th quality evaluation); invariants on quality, immobility, manifold membership, bounds, links, backport",
        "Generated search (exploration): small hex lattices and mapped sketches with jittered points, random clamps of every type, optional links, all four minimisers, 1-3 iterations; quality not worse (rel 1e-9), unclamped vertices bit-identical, clamped vertices on their analytic manifold and inside bounds, followers keep their relation, mesh/sketch equals the optimizer grid, injected faults are rolled back or leave the mesh untouched.",
        "Optimizer runs are slow: 105 cases in the quick tier. Manifolds are analytic and invertible (line, circle, plane, parabola, saddle).",
    ),
    "C14": (
        "Hypothesis PBT; metamorphic relations (renumbering, rigid motion, uniform scale, stretch) on the quality value",
        "Generated search (exploration): convex hexahedra/quads near and far from a cube, 24/4 renumberings, rigid motions, scales 0.1-100, 0-2 neighbours; quality equal within a tolerance derived from the library's VSMALL guard for the case's own geometry; cube stretched along each direction never lowers the value and raises it equally.",
        "A wrong formula that still depends only on shape cannot be seen by this property. Scale invariance asserted when shortest edge x scale >= 1.",
    ),
    "C15": (
        "Hypothesis PBT; invariants with an independent topology (boundary = edge/face in exactly one cell), one-sweep oracle independent of sweep order, fix-point residual and direct linear solve",
        "Generated search (exploration): structured/unstructured quad maps (3/5/6-valent points, dropped cells), library disks, hex assemblies up to 3x3x3, fixed sets by index/position, 1-200 iterations; boundary and fixed points bit-identical, each free point the mean of its edge neighbours (any mix of old/new neighbour states), converged result equals the harness's own linear solve, regular boundary gives the regular lattice, copy-back consistent for every face/vertex.",
        "Fix point asserted only past a computed iteration threshold (spectral radius of the harness's own graph).",
    ),
    "C17": (
        "Hypothesis PBT; differential against analytic manifolds and independent link relations (Rodrigues rotation, 4x4 mirror)",
        "Generated search (exploration): clamps of every type created on and off their manifold in general position (non-unit, non-zero), parameters within bounds; links with leader moves of any size; creation position / closest point, manifold membership and declared parametrisation, follower relation, leader bit-identical after update.",
        "Creation tolerance 1e-3 + 1e-2 x scale (derived from the library's ftol). The two findings on polyline curve clamps were repaired in /repo (closest-parameter search).",
    ),
    "C19": (
        "Hypothesis PBT; differential: position of each addressed entity in the stack's / shape's own frame (harness's layer maps), parsed file after delete",
        "Generated search (exploration): Grid n1 x n2 in 1..5, 1-4 tiers, extruded/revolved/transformed stacks, 8 round shapes and 12 sketches in general placement; grid[k][j][i] and get_slice checked by position, core/shell partition by contact with the outer curve (also for user subclasses with their own sketch_class, named like a built-in class or not), delete/chop of an addressed entity hits exactly that hex in the written file.",
        "WrappedDisk (three tiers) partition is not required to be exhaustive. The HalfSplineDisk grid finding was repaired in /repo.",
    ),
    "C20": (
        "Hypothesis PBT + enumerated boundary grids; expected accept/reject class from the documented condition; metamorphic symmetry (+delta / -delta); thorough tier adds atheris/libFuzzer campaigns on the index/count cells",
        "Generated search (exploration): 34 call sites with a documented precondition, arguments on both sides of each boundary (counts, indices -1/0/max/max+1, 1-3 projection labels, length ratios, radii, perpendicularity deviations of either sign, chain lengths, sketch face counts, clamps/links, life-cycle order); invalid must raise, valid must not; symmetric conditions judged on both sides.",
        "Only conditions the statement lists are asserted; nothing within 10-100x of a tolerance boundary is asserted.",
    ),
    "C09": (
        "Hypothesis PBT; metamorphic relation: geometry after Mesh.assemble() of the transformed entity vs. an independent affine map (Rodrigues / 4x4) applied to the geometry of the untransformed entity; copy independence",
        "Generated search (exploration): 63 entity classes (points, arrays, curves, every edge kind alone / on faces / on lofts, operations, 15 sketches, round shapes, rings, hemisphere, shell, stacks, joints) x {translate, rotate, scale, mirror, compositions of 2-3, copy}, by method call and by transform([...]) lists, origins != 0 and default, non-unit axes/normals; vertex positions, realised edge shapes (arc circle and side, control points in entry direction, labels) and Edge.length (x |ratio|) must equal the mapped originals; helpers must not mutate arguments.",
        "After mirrors the corner numbering may legitimately be kept or swapped (both accepted). Known findings F16b (transform() called directly on edge data / curves) and F10 are matched by narrow causes (F15 was repaired); a listed cause is raised only if nothing else is wrong in the case.",
    ),
    "C16": (
        "Hypothesis PBT; round-trip / additivity invariants and differential against dense adaptive sampling and closed forms",
        "Generated search (exploration): discrete, linear- and spline-interpolated, analytic, line and circle curves over 3-12 unevenly spaced points (ratio up to 20), parameter pairs in either order, near and far queries; discretize end points, interpolation through defining points, length additivity/symmetry/polyline equality, closest parameter within 1e-3 L of the dense minimum, OnCurve edges written on the curve between the vertex parameters in entry order with Edge.length = curve length.",
        "Closest-parameter accuracy below 1e-3 of the curve length is not judged; far queries are counted only.",
    ),
    "C18": (
        "Hypothesis PBT; differential against brute force over mesh.vertices; metamorphic over all 48 numberings for the viewpoint re-orienter",
        "Generated search (exploration): meshes of boxes/cylinders/frusta/elbows in general placement, query spheres and planes with a margin rule around the decision boundary (offsets 0 / 0.3 / 3 / 30 TOL, radii just inside/outside a vertex distance); returned sets equal the brute-force sets exactly; round-shape finder equals the core / rim of the end face; re-orientation keeps the 8 points, is right-handed, front/top face the observer/ceiling, identical result for all 48 input numberings.",
        "Cases within the margin (0.9-1.1 TOL, 1e-6 relative radius) are out of scope by construction; hexahedra limited to moderate distortion (jitter <= 0.15 edge).",
    ),
}

GENERIC = (
    "Hypothesis property-based testing with an independent reference / metamorphic oracle",
    "Generated search (exploration) with an explicit oracle; finds counter-examples within the stated bounds, cannot prove absence.",
    "See DESIGN.md section 4 for the oracle and its tolerances; evidence lists per-cell counts and assumptions.",
)


def main() -> None:
    props = [json.loads(line) for line in open(os.path.join(ROOT, "properties.jsonl"))]
    checks = []
    na = []
    for p in props:
        pid = p["id"]
        mod = os.path.join(ROOT, "vf", "props", pid.lower() + ".py")
        claimed_file = os.path.join(ROOT, "tools", "claimed.txt")
        claimed = set(open(claimed_file).read().split()) if os.path.exists(claimed_file) else set()
        if not os.path.exists(mod) or pid not in claimed:
            na.append({"property_id": pid, "reason": "check not yet registered (module under construction or under review)"})
            continue
        tech, text, note = TABLE.get(pid, GENERIC)
        checks.append(
            {
                "property_id": pid,
                "quick_cmd": f"/venv/bin/python -m vf.run {pid} --tier quick",
                "thorough_cmd": f"/venv/bin/python -m vf.run {pid} --tier thorough",
                "evidence_file": f"/verif/evidence/{pid}.json",
                "replay_cmd_template": f"/venv/bin/python -m vf.run {pid} --replay {{path}}",
                "engine": "vf",
                "level_claimed": {"category": "exploration", "text": text, "design_ref": f"DESIGN.md section 4, {pid}"},
                "level_note": note,
                "technique": tech,
            }
        )
    manifest = {
        "version": 1,
        "setup_cmd": "(/venv/bin/python -c 'import hypothesis, numpy, scipy' 2>/dev/null || /venv/bin/pip install --no-index --find-links /opt/veriftools/wheels hypothesis) && (/venv/bin/pip install -q --no-index --find-links /opt/veriftools/wheels --target /verif/.deps atheris >/dev/null 2>&1 || true)",
        "hooks": {
            "guard": "CLASSY_BLOCKS_VERIF",
            "enable": "no hooks are compiled in: the harness puts /repo/src first on sys.path (pure Python, nothing to build) and observes public objects; schedule, fuel and fault control happen inside the harness process",
            "baseline_off_cmd": "cd /repo && /venv/bin/python -m pytest -ra -q -p no:cacheprovider --timeout=900 --continue-on-collection-errors",
            "source_commits": [],
            "add_only": True,
        },
        "engines": [
            {
                "name": "vf",
                "path": "/verif/vf",
                "serves_properties": [c["property_id"] for c in checks],
                "kind_free_text": "Hypothesis-driven property-based testing harness: cells = (generator, independent oracle), sharded over 16 processes, shrunk failures saved as JSON replays, known findings matched by predicate",
            }
        ],
        "checks": checks,
        "not_applicable": na,
        "notes": "All checks: `python -m vf.run <id>`; VERIF_SEED selects the seed; exit 0 / 1 (VIOLATION line) / 2 (harness error). See DESIGN.md.",
    }
    with open(os.path.join(ROOT, "MANIFEST.json"), "w") as f:
        json.dump(manifest, f, indent=1)
    print("claimed:", [c["property_id"] for c in checks])


if __name__ == "__main__":
    main()
