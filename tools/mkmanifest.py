#!/usr/bin/env python3
"""Regenerates /verif/MANIFEST.json from the table below (only properties whose module exists are claimed)."""

import json
import os

ROOT = os.path.dirname(os.path.dirname(os.path.abspath(__file__)))

# id: (technique, level text, level note)
TABLE = {
    "C01": (
        "Hypothesis PBT over lattice assemblies; differential oracle = independent blockMeshDict parser + union-find over shared vertex-id pairs; expected-exception oracle for conflicting chops",
        "Generated search (exploration): random assemblies of <= 8 hexahedra in all 24 numberings and insertion orders with consistent, redundant and conflicting chops; every written file is re-read by an independent parser and cell counts are compared on every shared edge and with the live wires; conflicting models must raise InconsistentGradingsError and leave no file. Finds counter-examples, cannot prove absence.",
        "Trusts vf/foamdict.py (reader) and vf/refmodel.py (hex edge table from the OpenFOAM user guide). Bounded to <= 8 blocks cut from a 3x3x3-or-smaller node lattice; conflicts are count-vs-count.",
    ),
    "C02": (
        "Hypothesis PBT with harness-owned schedules (set iteration orders injected), call-count fuel for termination, metamorphic relation over insertion order / numbering / schedule",
        "Generated search (exploration) over models x insertion orders x 24 numberings x iteration orders of every address-hashed set reachable from blocks/axes/wires; termination is decided by a deterministic fuel bound, completeness against families computed by an independent union-find, determinism by byte-comparison of files across schedules; plus an enumerated regression model (all 6 orders of the decisive neighbour set).",
        "Every permutation of an address-hashed set is assumed feasible. Fuel limit 20k + 40k library calls per block (>= 40x the measured cost). <= 8 blocks.",
    ),
    "C03": (
        "Hypothesis PBT, differential against an independent geometric-progression model; round-trip (inversion) relation",
        "Generated search (exploration) over six decades of length, all 10 parameter pairs, counts 1..200, ratios in [0.5, 2] with a dedicated neighbourhood-of-1 and exact-integer generator; results are compared with an independent model of blockMesh's progression; realisable sets in a stated core domain must be accepted.",
        "Trusts vf/refmodel.gp_* as the blockMesh semantics. Tolerance 1e-9 + n*1.5e-7 relative on realised sizes. One known finding (count = 1 with start size) is matched narrowly.",
    ),
    "C04": (
        "Hypothesis PBT on jittered lattices; differential: per-edge cell-size sequences from the parsed file (independent GP model) compared across blocks; invariant on preserved first/last sizes",
        "Generated search (exploration): assemblies with unequal edge lengths, all numberings (anti-aligned neighbours in ~65 % of cases), all preserve modes, 1-3 section chops; each hex entry is expanded to 12 edge gradings and the physical size sequence compared on every shared edge, with the live wires, and preserved sizes compared over the whole family at the geometrically same end.",
        "Straight edges only (lengths from parsed vertices, 8 decimals); relative tolerance 1e-6. Trusts vf/foamdict.py and vf/refmodel.multi_sizes.",
    ),
}

GENERIC = (
    "Hypothesis property-based testing with an independent reference / metamorphic oracle",
    "Generated search (exploration) with an explicit oracle; finds counter-examples within the stated bounds, cannot prove absence.",
    "See DESIGN.md section 4 for the oracle and its tolerances; evidence lists per-cell counts and assumptions.",
)


def main() -> None:
    props = [json.loads(line) for line in open(os.path.join(ROOT, "properties.jsonl"))]
    checks = []
    na = []
    for p in props:
        pid = p["id"]
        mod = os.path.join(ROOT, "vf", "props", pid.lower() + ".py")
        claimed_file = os.path.join(ROOT, "tools", "claimed.txt")
        claimed = set(open(claimed_file).read().split()) if os.path.exists(claimed_file) else set()
        if not os.path.exists(mod) or pid not in claimed:
            na.append({"property_id": pid, "reason": "check not yet registered (module under construction or under review)"})
            continue
        tech, text, note = TABLE.get(pid, GENERIC)
        checks.append(
            {
                "property_id": pid,
                "quick_cmd": f"/venv/bin/python -m vf.run {pid} --tier quick",
                "thorough_cmd": f"/venv/bin/python -m vf.run {pid} --tier thorough",
                "evidence_file": f"/verif/evidence/{pid}.json",
                "replay_cmd_template": f"/venv/bin/python -m vf.run {pid} --replay {{path}}",
                "engine": "vf",
                "level_claimed": {"category": "exploration", "text": text, "design_ref": f"DESIGN.md section 4, {pid}"},
                "level_note": note,
                "technique": tech,
            }
        )
    manifest = {
        "version": 1,
        "setup_cmd": "/venv/bin/python -c 'import hypothesis, numpy, scipy' 2>/dev/null || /venv/bin/pip install --no-index --find-links /opt/veriftools/wheels hypothesis",
        "hooks": {
            "guard": "CLASSY_BLOCKS_VERIF",
            "enable": "no hooks are compiled in: the harness puts /repo/src first on sys.path (pure Python, nothing to build) and observes public objects; schedule, fuel and fault control happen inside the harness process",
            "baseline_off_cmd": "cd /repo && /venv/bin/python -m pytest -ra -q -p no:cacheprovider --timeout=900 --continue-on-collection-errors",
            "source_commits": [],
            "add_only": True,
        },
        "engines": [
            {
                "name": "vf",
                "path": "/verif/vf",
                "serves_properties": [c["property_id"] for c in checks],
                "kind_free_text": "Hypothesis-driven property-based testing harness: cells = (generator, independent oracle), sharded over 16 processes, shrunk failures saved as JSON replays, known findings matched by predicate",
            }
        ],
        "checks": checks,
        "not_applicable": na,
        "notes": "All checks: `python -m vf.run <id>`; VERIF_SEED selects the seed; exit 0 / 1 (VIOLATION line) / 2 (harness error). See DESIGN.md.",
    }
    with open(os.path.join(ROOT, "MANIFEST.json"), "w") as f:
        json.dump(manifest, f, indent=1)
    print("claimed:", [c["property_id"] for c in checks])


if __name__ == "__main__":
    main()
