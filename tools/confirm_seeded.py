#!/usr/bin/env python3
"""Confirms seeded defects delivered by independent sub-agents and files them under /verif/seeded/<id>/.

  tools/confirm_seeded.py <worktree>          for every <worktree>/seeded/<id>/{patch.diff,demo.py,meta.json}:
      1. scratch copy of /repo HEAD (git archive, outside /repo and /verif), demo.py must exit 0
      2. apply patch.diff, full test-suite must give the baseline (1010 passed + the 1 always-failing test)
      3. demo.py must exit 1
  A confirmed change is copied to /verif/seeded/<id>/ with the confirmation recorded in meta.json ("confirmed": {...}).
"""

import json
import os
import shutil
import subprocess
import sys
import tempfile

ROOT = os.path.dirname(os.path.dirname(os.path.abspath(__file__)))
PY = "/venv/bin/python"
KNOWN_FAIL = "tests/test_construct/test_curves/test_interpolated.py::SplineInterpolatedCurveTests::test_length"


def sh(cmd, cwd, env=None, timeout=3600):
    e = dict(os.environ, OPENBLAS_NUM_THREADS="1", OMP_NUM_THREADS="1")
    e.update(env or {})
    p = subprocess.run(cmd, cwd=cwd, env=e, capture_output=True, text=True, timeout=timeout)
    return p.returncode, p.stdout + p.stderr


def suite(d):
    rc, out = sh([PY, "-m", "pytest", "-o", "addopts=", "-q", "-rf", "-p", "no:cacheprovider", "-W", "ignore"], d,
                 {"PYTHONPATH": os.path.join(d, "src")})
    summary = [line for line in out.splitlines() if " passed" in line]
    failed = sorted(line.split()[1] for line in out.splitlines() if line.startswith("FAILED "))
    return (summary[-1] if summary else f"exit {rc}"), failed


def main():
    wt = sys.argv[1]
    head = subprocess.run(["git", "-C", "/repo", "rev-parse", "--short", "HEAD"], capture_output=True, text=True).stdout.strip()
    for sid in sorted(os.listdir(os.path.join(wt, "seeded"))):
        src = os.path.join(wt, "seeded", sid)
        if not os.path.exists(os.path.join(src, "patch.diff")):
            continue
        d = tempfile.mkdtemp(prefix="vfseed_")
        try:
            subprocess.run(f"git -C /repo archive HEAD | tar -x -C {d}", shell=True, check=True)
            env = {"PYTHONPATH": os.path.join(d, "src")}
            demo = os.path.join(src, "demo.py")
            rc0, out0 = sh([PY, demo], d, env, 1800)
            ap = subprocess.run(["git", "apply", "--unsafe-paths", "--directory", d, os.path.join(src, "patch.diff")],
                                cwd="/", capture_output=True, text=True)
            if ap.returncode != 0:
                ap = subprocess.run(["patch", "-p1", "-i", os.path.join(src, "patch.diff")], cwd=d, capture_output=True, text=True)
            if ap.returncode != 0:
                print(sid, "PATCH DOES NOT APPLY", ap.stderr[-300:])
                continue
            summary, failed = suite(d)
            if failed == [KNOWN_FAIL] or not failed:
                pass
            else:  # one retry for the flaky optimizer test
                summary, failed = suite(d)
            rc1, out1 = sh([PY, demo], d, env, 1800)
            ok = rc0 == 0 and rc1 == 1 and (failed == [KNOWN_FAIL] or failed == [])
            print(f"{sid}: demo clean={rc0} patched={rc1} suite='{summary}' failed={failed} -> {'CONFIRMED' if ok else 'REJECTED'}")
            if not ok:
                print(out0[-400:], out1[-400:])
                continue
            dst = os.path.join(ROOT, "seeded", sid)
            os.makedirs(dst, exist_ok=True)
            for name in ("patch.diff", "demo.py"):
                shutil.copy(os.path.join(src, name), os.path.join(dst, name))
            meta = json.load(open(os.path.join(src, "meta.json")))
            meta["confirmed"] = {
                "repo_head": head,
                "demo_exit_clean": rc0,
                "demo_exit_patched": rc1,
                "suite_with_patch": summary,
                "suite_failures_with_patch": failed,
                "how": "tools/confirm_seeded.py: scratch copy of /repo HEAD via git archive; demo; git apply; full pytest suite; demo",
                "demo_output_patched_tail": out1[-600:],
            }
            with open(os.path.join(dst, "meta.json"), "w") as f:
                json.dump(meta, f, indent=1)
        finally:
            shutil.rmtree(d, ignore_errors=True)


if __name__ == "__main__":
    main()
