#!/usr/bin/env python3
"""One-off audit (not a registered check): run every script under /repo/examples against two source trees (the pinned
original and the repaired HEAD) and compare the written blockMeshDicts as geometry.  Every difference must be explained
by one of the `fix:` commits (the original was wrong there); anything else would be a regression caused by a repair.

  tools/examples_diff.py <original src dir> <head src dir> [glob]
  (the pinned tree: `git -C /repo worktree add --detach /tmp/base 6d7149d`, then /tmp/base/src; remove the worktree afterwards)
"""
import fnmatch
import glob
import os
import shutil
import subprocess
import sys
import tempfile

import numpy as np

ROOT = os.path.dirname(os.path.dirname(os.path.abspath(__file__)))
sys.path.insert(0, ROOT)
from vf import foamdict  # noqa: E402
from vf.refmodel import arc_angle_through  # noqa: E402

PY = "/venv/bin/python"


def run_all(src: str, work: str, pattern: str):
    shutil.copytree("/repo/examples", os.path.join(work, "examples"))
    os.makedirs(os.path.join(work, "examples", "case", "system"), exist_ok=True)
    out = {}
    scripts = sorted(glob.glob(os.path.join(work, "examples", "**", "*.py"), recursive=True))
    for path in scripts:
        rel = os.path.relpath(path, os.path.join(work, "examples"))
        if not fnmatch.fnmatch(rel, pattern) or "mesh.write" not in open(path).read():
            continue
        target = os.path.join(work, "examples", "case", "system", "blockMeshDict")
        if os.path.exists(target):
            os.remove(target)
        env = dict(os.environ, PYTHONPATH=src + os.pathsep + os.path.join(work, "examples"), OPENBLAS_NUM_THREADS="1", PYTHONHASHSEED="0")
        try:
            p = subprocess.run([PY, os.path.basename(path)], cwd=os.path.dirname(path), env=env, capture_output=True, text=True, timeout=600)
        except subprocess.TimeoutExpired:
            out[rel] = ("timeout", None)
            continue
        if os.path.exists(target):
            out[rel] = ("ok", open(target).read())
        else:
            out[rel] = ("failed", (p.stderr or p.stdout)[-300:])
    return out


def curve_points(bmd, e, pos):
    """sample points of an edge entry in a -> b order"""
    a, b = pos[e.a], pos[e.b]
    if e.kind == "arc" and not isinstance(e.payload[0], tuple):
        return [a, np.array(e.payload), b]
    if e.kind in ("spline", "polyLine", "BSpline"):
        return [a, *[np.array(p) for p in e.payload], b]
    return [a, b]


def compare(t1: str, t2: str):
    b1, b2 = foamdict.parse_blockmeshdict(t1), foamdict.parse_blockmeshdict(t2)
    diffs = []
    if len(b1.vertices) != len(b2.vertices):
        return [f"vertex count {len(b1.vertices)} -> {len(b2.vertices)}"]
    p1 = [np.array(v.pos) for v in b1.vertices]
    p2 = [np.array(v.pos) for v in b2.vertices]
    moved = [i for i in range(len(p1)) if np.linalg.norm(p1[i] - p2[i]) > 1e-6]
    if moved:
        diffs.append(f"{len(moved)} vertices moved (first: {moved[0]} {p1[moved[0]]} -> {p2[moved[0]]})")
    if len(b1.blocks) != len(b2.blocks):
        return diffs + [f"block count {len(b1.blocks)} -> {len(b2.blocks)}"]
    for i, (h1, h2) in enumerate(zip(b1.blocks, b2.blocks)):
        if list(h1.ids) != list(h2.ids):
            diffs.append(f"block {i} ids {h1.ids} -> {h2.ids}")
        if list(h1.counts) != list(h2.counts):
            diffs.append(f"block {i} counts {h1.counts} -> {h2.counts}")
        else:
            g1, g2 = foamdict.hex_edge_gradings(h1), foamdict.hex_edge_gradings(h2)
            if repr(g1) != repr(g2):
                f1 = np.array([x if not isinstance(x, list) else np.nan for x in g1], dtype=float)
                f2 = np.array([x if not isinstance(x, list) else np.nan for x in g2], dtype=float)
                if f1.shape != f2.shape or not np.allclose(f1, f2, rtol=1e-6, equal_nan=True):
                    diffs.append(f"block {i} gradings differ")
    e1 = {frozenset((e.a, e.b)): e for e in b1.edges}
    e2 = {frozenset((e.a, e.b)): e for e in b2.edges}
    for k in sorted(set(e1) | set(e2), key=sorted):
        if k not in e1 or k not in e2:
            diffs.append(f"edge {sorted(k)}: {'missing in head' if k in e1 else 'new in head'} ({(e1.get(k) or e2.get(k)).kind})")
            continue
        x, y = e1[k], e2[k]
        if x.kind != y.kind:
            diffs.append(f"edge {sorted(k)}: kind {x.kind} -> {y.kind}")
            continue
        c1, c2 = curve_points(b1, x, p1), curve_points(b2, y, p2)
        if (x.a, x.b) != (y.a, y.b):
            c2 = c2[::-1]
        if x.kind == "arc" and len(c1) == 3 and len(c2) == 3:
            # same circle and same side?
            try:
                th1, ce1, r1, _ = arc_angle_through(*c1)
                th2, ce2, r2, _ = arc_angle_through(*c2)
                if abs(r1 - r2) > 1e-6 * max(r1, 1) or np.linalg.norm(ce1 - ce2) > 1e-6 * max(r1, 1) or abs(th1 - th2) > 1e-6:
                    diffs.append(f"edge {sorted(k)}: arc differs (r {r1:.6g}->{r2:.6g}, theta {th1:.6g}->{th2:.6g})")
            except Exception as ex:  # noqa: BLE001
                diffs.append(f"edge {sorted(k)}: arc not comparable ({ex})")
        elif len(c1) != len(c2) or any(np.linalg.norm(u - v) > 1e-6 for u, v in zip(c1, c2)):
            rev = len(c1) == len(c2) and all(np.linalg.norm(u - v) <= 1e-6 for u, v in zip(c1[1:-1], c2[-2:0:-1]))
            diffs.append(f"edge {sorted(k)}: {x.kind} points differ" + (" (same points, listed the other way round relative to the vertices)" if rev else ""))
    if [(p.name, p.type, sorted(map(tuple, p.faces))) for p in b1.patches] != [(p.name, p.type, sorted(map(tuple, p.faces))) for p in b2.patches]:
        diffs.append("patches differ")
    return diffs


def main():
    orig, head = sys.argv[1], sys.argv[2]
    pattern = sys.argv[3] if len(sys.argv) > 3 else "*"
    results = []
    for src in (orig, head):
        work = tempfile.mkdtemp(prefix="vfex_")
        try:
            results.append(run_all(src, work, pattern))
        finally:
            shutil.rmtree(work, ignore_errors=True)
    a, b = results
    for rel in sorted(a):
        s1, t1 = a[rel]
        s2, t2 = b.get(rel, ("missing", None))
        if s1 != "ok" or s2 != "ok":
            print(f"{rel}: original {s1}, head {s2}" + (f"  [{(t2 or t1 or '').strip().splitlines()[-1][:150]}]" if (t1 if s1 != 'ok' else t2) else ""))
            continue
        try:
            diffs = compare(t1, t2)
        except Exception as ex:  # noqa: BLE001
            print(f"{rel}: compare failed: {type(ex).__name__}: {ex}")
            continue
        print(f"{rel}: " + ("identical geometry" if not diffs else f"{len(diffs)} differences"))
        for d in diffs[:400]:
            print("    " + d)


if __name__ == "__main__":
    main()
