"""Call-count fuel: a deterministic verdict for non-termination (DESIGN.md 2.7).

fuel.run(fn, limit) counts Python `call` events whose code lives under classy_blocks/ and raises
OutOfFuel (a BaseException, so no `except Exception` in the library can swallow it) beyond `limit`.
"""

from __future__ import annotations

import sys
from typing import Any, Callable, Tuple


class OutOfFuel(BaseException):
    pass


def run(fn: Callable[[], Any], limit: int) -> Tuple[Any, int]:
    count = 0

    def prof(frame, event, arg):
        nonlocal count
        if event == "call" and "classy_blocks" in frame.f_code.co_filename:
            count += 1
            if count > limit:
                sys.setprofile(None)
                raise OutOfFuel(f"more than {limit} library calls")

    old = sys.getprofile()
    sys.setprofile(prof)
    try:
        out = fn()
    finally:
        sys.setprofile(old)
    return out, count
