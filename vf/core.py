"""Cell registry, Hypothesis driver, sharding, evidence writer, known-finding matcher.

A property is decided by a list of *cells*.  A cell = (id, strategy producing a plain-JSON case,
check(case, ctx)).  ``check`` raises :class:`Violation` when the property is broken on that case; any
other exception that escapes is a harness error (exit 2), never a violation.
"""

from __future__ import annotations

import fnmatch
import hashlib
import importlib
import json
import math
import multiprocessing as mp
import os
import sys
import time
import traceback
from typing import Any, Callable, Dict, List, Optional

ROOT = os.path.dirname(os.path.dirname(os.path.abspath(__file__)))
REPO_SRC = os.environ.get("VF_REPO_SRC", "/repo/src")
EVIDENCE_DIR = os.path.join(ROOT, "evidence")
REPLAY_DIR = os.path.join(ROOT, "replays")
REGRESS_DIR = os.path.join(ROOT, "regress")
KNOWN_FILE = os.path.join(ROOT, "known_findings.json")

SHRINK_BUDGET_S = {"quick": 25.0, "thorough": 120.0}
TASK_TIMEOUT_S = {"quick": 900.0, "thorough": 6 * 3600.0}


class Violation(Exception):
    """The property under test is broken on this case.

    kind  : short root-cause tag chosen by the oracle that failed (used by known-finding matching)
    facts : JSON-able facts about the failing case (used by known-finding matching and in the replay)
    """

    def __init__(self, kind: str, msg: str, **facts: Any):
        super().__init__(f"[{kind}] {msg}")
        self.kind = kind
        self.msg = msg
        self.facts = facts


class HarnessError(Exception):
    pass


class Ctx:
    """Per-case recorder handed to a cell's check function."""

    __slots__ = ("nontrivial", "labels", "key", "info")

    def __init__(self) -> None:
        self.nontrivial = False
        self.labels: List[str] = []
        self.key: Any = None
        self.info: Any = None

    def nt(self, flag: bool = True) -> None:
        self.nontrivial = bool(flag)

    def label(self, *names: str) -> None:
        self.labels.extend(names)


class Cell:
    def __init__(
        self,
        cid: str,
        strategy: Any,
        check: Callable[[Any, Ctx], None],
        quick: int,
        thorough: int,
        rule: str,
        fixed_cases: Optional[List[Any]] = None,
    ):
        self.id = cid
        self.strategy = strategy
        self.check = check
        self.quick = quick
        self.thorough = thorough
        self.rule = rule
        # cases that are always executed first (enumerated grids, regression inputs)
        self.fixed_cases = fixed_cases or []


# --------------------------------------------------------------------------------------------------
# helpers


def canon(obj: Any) -> str:
    return json.dumps(obj, sort_keys=True, separators=(",", ":"), default=_json_default)


def _json_default(o: Any) -> Any:
    try:
        import numpy as np

        if isinstance(o, np.ndarray):
            return o.tolist()
        if isinstance(o, (np.floating,)):
            return float(o)
        if isinstance(o, (np.integer,)):
            return int(o)
        if isinstance(o, (np.bool_,)):
            return bool(o)
    except Exception:  # pragma: no cover
        pass
    if isinstance(o, (set, frozenset)):
        return sorted(o)
    if isinstance(o, tuple):
        return list(o)
    return repr(o)


def h64(text: str) -> str:
    return hashlib.blake2b(text.encode(), digest_size=8).hexdigest()


def derive_seed(base: int, *parts: Any) -> int:
    t = canon([base, *parts])
    return int.from_bytes(hashlib.blake2b(t.encode(), digest_size=8).digest(), "big") % (2**63)


def load_known() -> List[dict]:
    import glob

    out: List[dict] = []
    for path in [KNOWN_FILE, *sorted(glob.glob(os.path.join(ROOT, "known", "*.json")))]:
        if not os.path.exists(path):
            continue
        with open(path) as f:
            data = json.load(f)
        out.extend(e for e in data.get("findings", []) if e.get("kind") == "known")
    return out


def _match_value(spec: Any, value: Any) -> bool:
    if isinstance(spec, dict):
        if "in" in spec:
            return value in spec["in"]
        ok = True
        if "min" in spec:
            ok = ok and value is not None and value >= spec["min"]
        if "max" in spec:
            ok = ok and value is not None and value <= spec["max"]
        if "ne" in spec:
            ok = ok and value != spec["ne"]
        return ok
    if isinstance(spec, list):
        return value in spec
    return value == spec


def match_known(known: List[dict], prop: str, cell_id: str, v: Violation) -> Optional[dict]:
    for e in known:
        if e.get("property") != prop:
            continue
        if not fnmatch.fnmatchcase(cell_id, e.get("cell", "*")):
            continue
        if e.get("violation_kind") not in (None, v.kind):
            continue
        where = e.get("where", {})
        if all(k in v.facts and _match_value(spec, v.facts[k]) for k, spec in where.items()):
            return e
    return None


def load_prop(prop: str):
    if REPO_SRC not in sys.path:
        sys.path.insert(0, REPO_SRC)
    mod = importlib.import_module(f"vf.props.{prop.lower()}")
    cells = {c.id: c for c in mod.CELLS}
    if len(cells) != len(mod.CELLS):
        raise HarnessError(f"duplicate cell ids in {prop}")
    return mod, cells


# --------------------------------------------------------------------------------------------------
# one cell, one shard, in its own process


class _State:
    def __init__(self) -> None:
        self.evaluations = 0
        self.nt_keys: set = set()
        self.all_keys: set = set()
        self.samples: List[Any] = []
        self.labels: Dict[str, int] = {}
        self.known_hits: Dict[str, int] = {}
        self.known_samples: Dict[str, Any] = {}
        self.failed: Dict[str, BaseException] = {}
        self.last_fail: Optional[tuple] = None
        self.first_fail_t: Optional[float] = None


def _exec_case(prop: str, cell: Cell, case: Any, st: _State, known: List[dict], budget: float) -> None:
    import numpy as np

    cj = canon(case)
    hk = h64(cj)
    if st.first_fail_t is not None and time.monotonic() - st.first_fail_t > budget:
        # shrink budget used up: only already-known failing cases keep failing (deterministic => not flaky)
        if hk in st.failed:
            raise st.failed[hk]
        return
    st.evaluations += 1
    ctx = Ctx()
    np.random.seed(int(hk[:8], 16))
    try:
        cell.check(case, ctx)
    except Violation as v:
        e = match_known(known, prop, cell.id, v)
        if e is not None:
            st.known_hits[e["id"]] = st.known_hits.get(e["id"], 0) + 1
            st.known_samples.setdefault(e["id"], {"case": case, "message": str(v), "facts": v.facts})
            return
        st.failed[hk] = v
        st.last_fail = (case, v)
        if st.first_fail_t is None:
            st.first_fail_t = time.monotonic()
        raise
    except Exception as ex:
        st.failed[hk] = ex
        st.last_fail = (case, ex)
        if st.first_fail_t is None:
            st.first_fail_t = time.monotonic()
        raise
    key = hk if ctx.key is None else h64(canon(ctx.key))
    st.all_keys.add(key)
    if ctx.nontrivial:
        if key not in st.nt_keys and len(st.samples) < 3:
            st.samples.append(case if ctx.info is None else {"case": case, "info": ctx.info})
        st.nt_keys.add(key)
    for lb in ctx.labels:
        st.labels[lb] = st.labels.get(lb, 0) + 1


def run_cell_shard(prop: str, cell_id: str, tier: str, base_seed: int, shard: int, n: int) -> dict:
    """Runs in a child process.  Returns a JSON-able result dict."""
    t0 = time.monotonic()
    import warnings

    warnings.simplefilter("ignore")
    import hypothesis
    from hypothesis import HealthCheck, Phase, given, settings

    _mod, cells = load_prop(prop)
    cell = cells[cell_id]
    known = load_known()
    st = _State()
    budget = SHRINK_BUDGET_S[tier]
    res: dict = {"cell": cell_id, "shard": shard, "violation": None, "error": None}
    seed = derive_seed(base_seed, prop, cell_id, shard)

    def finish() -> dict:
        res.update(
            evaluations=st.evaluations,
            nt_keys=sorted(st.nt_keys),
            distinct=len(st.all_keys),
            samples=st.samples,
            labels=st.labels,
            known_hits=st.known_hits,
            known_samples=st.known_samples,
            wall_s=time.monotonic() - t0,
            seed=seed,
        )
        return res

    def record_failure(case: Any, ex: BaseException) -> None:
        if isinstance(ex, Violation):
            res["violation"] = {"case": case, "kind": ex.kind, "message": ex.msg, "facts": ex.facts}
        else:
            res["error"] = {
                "case": case,
                "message": "".join(traceback.format_exception(type(ex), ex, ex.__traceback__))[-6000:],
            }

    # fixed cases first (shard 0 only), outside Hypothesis
    if shard == 0 and not os.environ.get("VF_NO_FIXED"):
        for case in cell.fixed_cases:
            try:
                _exec_case(prop, cell, case, st, known, budget)
            except BaseException as ex:  # noqa: BLE001
                if isinstance(ex, (KeyboardInterrupt, SystemExit)):
                    raise
                record_failure(case, ex)
                return finish()

    if n > 0 and cell.strategy is not None:

        @hypothesis.seed(seed)
        @settings(
            max_examples=n,
            database=None,
            deadline=None,
            derandomize=False,
            report_multiple_bugs=False,
            print_blob=False,
            suppress_health_check=[HealthCheck.too_slow, HealthCheck.data_too_large, HealthCheck.large_base_example],
            phases=[Phase.generate, Phase.shrink],
            verbosity=hypothesis.Verbosity.quiet,
        )
        @given(cell.strategy)
        def test(case: Any) -> None:
            _exec_case(prop, cell, case, st, known, budget)

        try:
            test()
        except BaseException as ex:  # noqa: BLE001
            if isinstance(ex, (KeyboardInterrupt, SystemExit)):
                raise
            if st.last_fail is not None and (st.last_fail[1] is ex or isinstance(ex, type(st.last_fail[1]))):
                record_failure(st.last_fail[0], st.last_fail[1])
            else:
                res["error"] = {
                    "case": None if st.last_fail is None else st.last_fail[0],
                    "message": "".join(traceback.format_exception(type(ex), ex, ex.__traceback__))[-6000:],
                }
    return finish()


_SCRATCH: Optional[str] = None


def scratch_dir() -> str:
    """Per-process scratch directory (removed when the worker finishes; atexit for the main process)."""
    global _SCRATCH
    if _SCRATCH is None or not os.path.isdir(_SCRATCH) or _SCRATCH_PID[0] != os.getpid():
        import atexit
        import tempfile

        _SCRATCH = tempfile.mkdtemp(prefix="vf_")
        _SCRATCH_PID[0] = os.getpid()
        atexit.register(cleanup_scratch)
    return _SCRATCH


_SCRATCH_PID = [0]


def cleanup_scratch() -> None:
    global _SCRATCH
    import shutil

    if _SCRATCH is not None and _SCRATCH_PID[0] == os.getpid():
        shutil.rmtree(_SCRATCH, ignore_errors=True)
        _SCRATCH = None


def _child(conn, args) -> None:
    try:
        out = run_cell_shard(*args)
    except BaseException as ex:  # noqa: BLE001
        out = {
            "cell": args[1],
            "shard": args[4],
            "violation": None,
            "error": {"case": None, "message": "".join(traceback.format_exception(type(ex), ex, ex.__traceback__))[-6000:]},
            "evaluations": 0,
            "nt_keys": [],
            "distinct": 0,
            "samples": [],
            "labels": {},
            "known_hits": {},
            "known_samples": {},
            "wall_s": 0.0,
            "seed": 0,
        }
    try:
        conn.send(out)
    finally:
        conn.close()
        cleanup_scratch()


def run_tasks(tasks: List[tuple], tier: str, jobs: int) -> List[dict]:
    """Simple scheduler: one fresh process per task, at most ``jobs`` at a time, hard timeout per task."""
    ctx = mp.get_context("fork")
    pending = list(tasks)
    running: List[tuple] = []
    results: List[dict] = []
    limit = TASK_TIMEOUT_S[tier]
    while pending or running:
        while pending and len(running) < jobs:
            args = pending.pop(0)
            parent, child = ctx.Pipe(duplex=False)
            p = ctx.Process(target=_child, args=(child, args), daemon=True)
            p.start()
            child.close()
            running.append((p, parent, args, time.monotonic()))
        still = []
        for p, conn, args, t0 in running:
            if conn.poll(0.02):
                try:
                    results.append(conn.recv())
                except EOFError:
                    results.append(_dead(args, "worker died without a result (exit code %s)" % p.exitcode))
                p.join(5)
                conn.close()
            elif not p.is_alive():
                if conn.poll(0.5):
                    results.append(conn.recv())
                else:
                    results.append(_dead(args, "worker died without a result (exit code %s)" % p.exitcode))
                conn.close()
            elif time.monotonic() - t0 > limit:
                p.kill()
                p.join(5)
                conn.close()
                results.append(_dead(args, f"task exceeded the {limit:.0f}s wall limit (inconclusive, not a verdict)"))
            else:
                still.append((p, conn, args, t0))
        running = still
    return results


def _dead(args: tuple, why: str) -> dict:
    return {
        "cell": args[1],
        "shard": args[4],
        "violation": None,
        "error": {"case": None, "message": why},
        "evaluations": 0,
        "nt_keys": [],
        "distinct": 0,
        "samples": [],
        "labels": {},
        "known_hits": {},
        "known_samples": {},
        "wall_s": 0.0,
        "seed": 0,
    }


def plan_shards(n: int, ncells: int, tier: str, jobs: int) -> int:
    if n <= 0:
        return 1
    per = 40 if tier == "quick" else 150
    want = max(1, math.ceil(jobs * (1 if tier == "quick" else 2) / max(1, ncells)))
    return max(1, min(want, n // per if n >= per else 1))


def write_replay(prop: str, cell_id: str, payload: dict) -> str:
    os.makedirs(REPLAY_DIR, exist_ok=True)
    body = {"property": prop, "cell": cell_id, **payload}
    name = "%s-%s.json" % (cell_id.replace("/", "_"), h64(canon(body["case"])))
    path = os.path.join(REPLAY_DIR, name)
    with open(path, "w") as f:
        json.dump(body, f, indent=1, sort_keys=True, default=_json_default)
    return path


def replay_file(prop: str, path: str) -> int:
    with open(path) as f:
        body = json.load(f)
    _mod, cells = load_prop(prop)
    cell = cells[body["cell"]]
    known = load_known()
    import numpy as np

    np.random.seed(int(h64(canon(body["case"]))[:8], 16))
    ctx = Ctx()
    try:
        cell.check(body["case"], ctx)
    except Violation as v:
        e = match_known(known, prop, cell.id, v)
        if e is not None:
            print(f"KNOWN-FINDING: property={prop} {e['id']} {e['what']}")
            return 0
        print(f"replay: {v}")
        print(f"VIOLATION property={prop} replay={os.path.abspath(path)}")
        return 1
    print(f"replay: case passes ({body['cell']})")
    return 0
