"""G-LATTICE / G-CHOPS: assemblies of hexahedra cut from a jittered node lattice, with ground-truth bookkeeping.

A case is plain JSON:
  dims    [nx, ny, nz]
  widths  [[...nx], [...ny], [...nz]]
  jitter  list of 3*(nodes) floats in [-1, 1] (scaled by 0.2 * smallest width of that axis) or []
  cells   list of selected cell indices (flattened i + nx*(j + ny*k)), in insertion order
  orient  {cell: rotation index 0..23}  (as list aligned with `cells`)
  chops   list of {"cell": c, "gdir": d, "args": {...}}: chop of lattice cell c along global direction d,
          sizes/ratios given in the global +d sense (the builder converts to the block's local sense)
"""

from __future__ import annotations

import os
import shutil
import tempfile
import warnings
from typing import Any, Dict, List, Optional, Tuple

import numpy as np
from hypothesis import strategies as st

from vf import foamdict
from vf.refmodel import HEX_EDGES_BY_AXIS, families, hex_rotations

warnings.simplefilter("ignore")

CANON = [(0, 0, 0), (1, 0, 0), (1, 1, 0), (0, 1, 0), (0, 0, 1), (1, 0, 1), (1, 1, 1), (0, 1, 1)]
ROT = hex_rotations()
LOCAL_AXIS_END = {0: 1, 1: 3, 2: 4}  # local axis a runs from corner 0 to this corner

DIMS = [(a, b, c) for a in range(1, 7) for b in range(1, 7) for c in range(1, 7) if a * b * c <= 8]


def cell_index(dims, i, j, k) -> int:
    return i + dims[0] * (j + dims[1] * k)


def cell_ijk(dims, c) -> Tuple[int, int, int]:
    return c % dims[0], (c // dims[0]) % dims[1], c // (dims[0] * dims[1])


def node_index(dims, i, j, k) -> int:
    return i + (dims[0] + 1) * (j + (dims[1] + 1) * k)


def node_positions(case, with_jitter: bool = True) -> np.ndarray:
    dims = case["dims"]
    axes = [np.concatenate([[0.0], np.cumsum(case["widths"][a])]) for a in range(3)]
    n = (dims[0] + 1) * (dims[1] + 1) * (dims[2] + 1)
    pos = np.zeros((n, 3))
    jit = (case.get("jitter") or []) if with_jitter else []
    amp = [0.2 * min(case["widths"][a]) for a in range(3)]
    for k in range(dims[2] + 1):
        for j in range(dims[1] + 1):
            for i in range(dims[0] + 1):
                idx = node_index(dims, i, j, k)
                p = np.array([axes[0][i], axes[1][j], axes[2][k]])
                if jit:
                    p = p + np.array([jit[3 * idx + a] * amp[a] for a in range(3)])
                pos[idx] = p
    scale = case.get("scale")
    if scale:
        pos = pos * float(scale)
    off = case.get("offset")
    if off:
        pos = pos + np.asarray(off)
    return pos


def cell_nodes(dims, c) -> List[int]:
    """node ids of lattice cell c in canonical blockMesh order (x1 = +x, x2 = +y, x3 = +z)"""
    i, j, k = cell_ijk(dims, c)
    return [node_index(dims, i + dx, j + dy, k + dz) for dx, dy, dz in CANON]


def local_axes(rot: int) -> List[Tuple[int, int]]:
    """for each local axis of a block numbered with rotation `rot`: (global direction, sign)"""
    perm = ROT[rot]
    out = []
    for a in range(3):
        q0 = CANON[perm[0]]
        q1 = CANON[perm[LOCAL_AXIS_END[a]]]
        d = [q1[x] - q0[x] for x in range(3)]
        g = [x for x in range(3) if d[x] != 0]
        assert len(g) == 1
        out.append((g[0], d[g[0]]))
    return out


SIDE_CORNERS = {"bottom": (0, 1, 2, 3), "top": (4, 5, 6, 7), "left": (4, 0, 3, 7), "right": (5, 1, 2, 6),
                "front": (4, 5, 1, 0), "back": (7, 6, 2, 3)}
PATCH_NAMES = ["inlet", "outlet", "walls", "roof", "floor", "a", "b", "zeta", "Alpha", "m1", "s_2", "interface", "cyc_half0",
               "cyc_half1", "Z", "left", "right", "x9", "top", "bottomWall"]


def merge_faces(case, c) -> List[Tuple[int, int, str, bool]]:
    """faces of lattice cell c that lie on a merged interface: [(axis, canonical value 0/1 of that axis, patch name,
    is the slave side)].  case["merges"] = [{"axis": a, "at": node-plane index, "master": "low"|"high",
    "names": [master patch, slave patch]}]"""
    out = []
    ijk = cell_ijk(case["dims"], c)
    for mg in case.get("merges") or []:
        a, at = mg["axis"], mg["at"]
        if ijk[a] == at - 1:
            side = "low"
        elif ijk[a] == at:
            side = "high"
        else:
            continue
        is_master = mg["master"] == side
        out.append((a, 1 if side == "low" else 0, mg["names"][0 if is_master else 1], not is_master))
    return out


def cell_vertex_ids(case, c) -> List[Any]:
    """ground-truth identity of the 8 corners of cell c (canonical order): the lattice node, and - for corners on a
    face that carries the slave patch of a merged pair - the set of those slave patches (such corners get their own
    copies, shared only among corners with the same set)"""
    nodes = cell_nodes(case["dims"], c)
    faces = merge_faces(case, c)
    if not faces:
        return nodes
    ids = []
    for k, n in enumerate(nodes):
        slaves = tuple(sorted(name for a, val, name, is_slave in faces if is_slave and CANON[k][a] == val))
        ids.append((n, slaves) if slaves else n)
    return ids


def lattice_families(case):
    """union-find over (cell, global dir) from shared lattice edges (ground truth, independent of the library)"""
    hexes = [cell_vertex_ids(case, c) for c in case["cells"]]
    uf, edge_map = families(hexes)
    fam: Dict[Any, List[Tuple[int, int]]] = {}
    for (b, ax) in list(uf.parent):
        fam.setdefault(uf.find((b, ax)), []).append((case["cells"][b], ax))
    return [sorted(v) for v in fam.values()], edge_map


def contact_labels(case) -> List[str]:
    dims = case["dims"]
    cells = case["cells"]
    labels = set()
    sets = {c: set(cell_nodes(dims, c)) for c in cells}
    for x in range(len(cells)):
        for y in range(x + 1, len(cells)):
            n = len(sets[cells[x]] & sets[cells[y]])
            labels.add({4: "face-contact", 2: "edge-only-contact", 1: "vertex-only-contact", 0: "no-contact"}[n])
    return sorted(labels)


# --------------------------------------------------------------------------------------------------
# strategies


@st.composite
def lattice(draw, min_cells: int = 2, max_cells: int = 8, jitter: str = "maybe", widths_decades: float = 1.0,
            merge: str = "no"):
    dims = draw(st.sampled_from([d for d in DIMS if d[0] * d[1] * d[2] >= min_cells]))
    ncell = dims[0] * dims[1] * dims[2]
    widths = [
        [10.0 ** draw(st.floats(-widths_decades, widths_decades)) for _ in range(dims[a])] for a in range(3)
    ]
    nn = (dims[0] + 1) * (dims[1] + 1) * (dims[2] + 1)
    mode = jitter if jitter in ("no", "yes", "sparse") else draw(st.sampled_from(["no", "yes", "sparse"]))
    if jitter == "yes" and draw(st.integers(0, 2)) == 0:
        mode = "sparse"
    if mode == "no":
        jit = []
    elif mode == "yes":
        jit = [draw(st.floats(-1.0, 1.0)) for _ in range(3 * nn)]
    else:
        # only a few nodes are displaced: parallel edges of one block differ in just one or two places
        moved = draw(st.lists(st.integers(0, nn - 1), min_size=1, max_size=3, unique=True))
        jit = [0.0] * (3 * nn)
        for node in moved:
            for a in range(3):
                jit[3 * node + a] = draw(st.floats(-1.0, 1.0))
    k = draw(st.integers(min_cells, min(max_cells, ncell)))
    cells = draw(st.permutations(list(range(ncell))))[:k]
    orient = [draw(st.integers(0, 23)) for _ in cells]
    case = {"dims": list(dims), "widths": widths, "jitter": jit, "cells": list(cells), "orient": orient, "chops": []}
    if draw(st.integers(0, 3)) == 0:
        # the assembly sits far from the origin (geo-referenced coordinates): nothing may depend on that
        mag = draw(st.sampled_from([1e3, 1e5, 2e6]))
        case["offset"] = [mag * draw(st.sampled_from([1.0, -1.0, 0.0, 2.1])) for _ in range(3)]
    if merge != "no" and (merge == "yes" or draw(st.booleans())):
        case["merges"] = draw_merges(draw, case)
    decorate(draw, case)
    return case


def decorate(draw, case) -> None:
    """features that have nothing to do with grading and must not influence it: blockMeshDict settings of the Mesh
    (one case in three) and cellZone names of the operations (one case in three)"""
    if draw(st.integers(0, 2)) == 0:
        case["settings"] = {
            "scale": draw(st.sampled_from([1, 0.001, 2.5])),
            "mergeType": draw(st.sampled_from([None, "points"])),
            "checkFaceCorrespondence": draw(st.sampled_from([None, "true", "false", "off"])),
            "verbose": draw(st.sampled_from([None, "true", "false"])),
        }
    if draw(st.integers(0, 2)) == 0:
        case["zones"] = [draw(st.sampled_from(["", "fluid", "solid", "porous"])) for _ in case["cells"]]


def draw_merges(draw, case) -> List[Dict[str, Any]]:
    """1-2 merged (master / slave) patch pairs on lattice planes that have cells on both sides; patch names are drawn
    (they are labels: nothing may depend on them - e.g. through the iteration order of a set of names)"""
    dims = case["dims"]
    planes = []
    for a in range(3):
        for at in range(1, dims[a]):
            low = [c for c in case["cells"] if cell_ijk(dims, c)[a] == at - 1]
            high = [c for c in case["cells"] if cell_ijk(dims, c)[a] == at]
            if low and high:
                planes.append((a, at))
    if not planes:
        return []
    chosen = draw(st.lists(st.sampled_from(planes), min_size=1, max_size=2, unique_by=lambda p: p[0]))
    names = draw(st.lists(st.sampled_from(PATCH_NAMES), min_size=2 * len(chosen), max_size=2 * len(chosen), unique=True))
    return [{"axis": a, "at": at, "master": draw(st.sampled_from(["low", "high"])), "names": names[2 * i:2 * i + 2]}
            for i, (a, at) in enumerate(chosen)]


def count_chop(draw, lo: int = 1, hi: int = 12) -> Dict[str, Any]:
    return {"count": draw(st.integers(lo, hi))}


def graded_chop(draw, preserve: Optional[str] = None) -> Dict[str, Any]:
    kind = draw(st.sampled_from(["count", "count+c2c", "count+total", "start+c2c", "end+c2c", "count+start", "count+end", "start+end"]))
    args: Dict[str, Any] = {}
    n = draw(st.integers(2, 12))
    r = draw(st.floats(0.8, 1.25))
    frac = draw(st.floats(0.02, 0.3))
    if kind == "count":
        args["count"] = n
    elif kind == "count+c2c":
        args.update(count=n, c2c_expansion=r)
    elif kind == "count+total":
        args.update(count=n, total_expansion=r ** (n - 1))
    elif kind == "start+c2c":
        args.update(start_size_frac=frac, c2c_expansion=r)
    elif kind == "end+c2c":
        args.update(end_size_frac=frac, c2c_expansion=r)
    elif kind == "count+start":
        args.update(count=n, start_size_frac=min(0.9 / n * draw(st.floats(0.5, 1.5)), 0.45))
    elif kind == "count+end":
        args.update(count=n, end_size_frac=min(0.9 / n * draw(st.floats(0.5, 1.5)), 0.45))
    else:
        args.update(start_size_frac=frac, end_size_frac=frac * draw(st.floats(0.5, 2.0)))
    if preserve is None:
        preserve = draw(st.sampled_from(["c2c_expansion", "start_size", "end_size"]))
    args["preserve"] = preserve
    return args


def shared_edges(case, gdir: Optional[int] = None) -> List[Tuple[int, int, List[int]]]:
    """lattice edges (node pair) that belong to >= 2 selected cells: [(n1, n2, [cells])], optionally of one direction"""
    dims = case["dims"]
    users: Dict[Tuple[int, int], List[int]] = {}
    for c in case["cells"]:
        nodes = cell_nodes(dims, c)
        for ax in (0, 1, 2):
            if gdir is not None and ax != gdir:
                continue
            for i, j in HEX_EDGES_BY_AXIS[ax]:
                users.setdefault((nodes[i], nodes[j]), []).append(c)
    return [(k[0], k[1], v) for k, v in sorted(users.items()) if len(v) >= 2]


def draw_arcs(draw, case, max_arcs: int = 2, min_arcs: int = 0, prefer_shared: bool = False) -> List[Dict[str, Any]]:
    """0-2 circular-arc edges on lattice edges of selected cells; the arc point is the edge's midpoint displaced
    perpendicular to the edge by 5-30 % of its length (far from a half circle), declared on one of the blocks that
    contain the edge (prefer_shared: mostly on edges that belong to several blocks, declared by a drawn one of them)."""
    dims = case["dims"]
    pos = node_positions(case)
    out = []
    seen = set()
    shared = shared_edges(case) if prefer_shared else []
    for _ in range(draw(st.integers(min_arcs, max_arcs))):
        owner_cell = None
        if shared and draw(st.integers(0, 3)) > 0:
            n1, n2, cells = draw(st.sampled_from(shared))
            owner_cell = draw(st.sampled_from(cells))
            if draw(st.booleans()):
                n1, n2 = n2, n1
        else:
            c = draw(st.sampled_from(case["cells"]))
            nodes = cell_nodes(dims, c)
            i, j = draw(st.sampled_from([e for ax in (0, 1, 2) for e in HEX_EDGES_BY_AXIS[ax]]))
            n1, n2 = nodes[i], nodes[j]
        if frozenset((n1, n2)) in seen:
            continue
        seen.add(frozenset((n1, n2)))
        chord = pos[n2] - pos[n1]
        helper = np.array(draw(st.sampled_from([[1.0, 0.3, 0.2], [0.2, 1.0, 0.3], [0.3, 0.2, 1.0]])))
        perp = np.cross(chord, helper)
        if np.linalg.norm(perp) < 0.1 * np.linalg.norm(chord):
            perp = np.cross(chord, helper[::-1])
        perp = perp / np.linalg.norm(perp)
        frac = draw(st.floats(0.05, 0.3)) * draw(st.sampled_from([1, -1]))
        out.append({"nodes": [n1, n2], "bulge": (perp * frac * np.linalg.norm(chord)).tolist(), "owner": draw(st.integers(0, 3))})
        if owner_cell is not None:
            out[-1]["owner_cell"] = owner_cell
    return out


def multi_count_chop(draw) -> List[Dict[str, Any]]:
    k = draw(st.integers(2, 3))
    ratios = {2: [[0.5, 0.5], [0.25, 0.75], [0.6, 0.4]], 3: [[0.25, 0.5, 0.25], [0.2, 0.3, 0.5]]}[k]
    lr = draw(st.sampled_from(ratios))
    return [{"length_ratio": x, "count": draw(st.integers(1, 6))} for x in lr]


def chop_total_count(args) -> Optional[int]:
    secs = args if isinstance(args, list) else [args]
    if all("count" in s for s in secs):
        return sum(max(int(s["count"]), 1) for s in secs)
    return None


@st.composite
def chopped_lattice(draw, mode: str, graded: bool = False, **kw):
    """mode: wellposed | redundant | conflict | under"""
    case = draw(lattice(**kw))
    fams, _ = lattice_families(case)
    chops = []
    fam_count = {}
    for fi, fam in enumerate(fams):
        c, d = draw(st.sampled_from(fam))
        if graded:
            args: Any = graded_chop(draw)
        else:
            args = multi_count_chop(draw) if draw(st.integers(0, 4)) == 0 else count_chop(draw)
        chops.append({"cell": c, "gdir": d, "args": args})
        fam_count[fi] = chop_total_count(args)
    big = [fi for fi, fam in enumerate(fams) if len(fam) >= 2]
    if mode == "redundant" and big:
        for fi in big:
            if draw(st.booleans()) and fam_count[fi] is not None:
                rest = [m for m in fams[fi] if m != (chops[fi]["cell"], chops[fi]["gdir"])]
                # an identical specification on one or several other members of the family
                extra = draw(st.lists(st.sampled_from(rest), min_size=1, max_size=min(3, len(rest)), unique=True))
                for c, d in extra:
                    chops.append({"cell": c, "gdir": d, "args": chops[fi]["args"]})
    if mode == "conflict":
        if not big:
            return None
        fi = draw(st.sampled_from(big))
        rest = [m for m in fams[fi] if m != (chops[fi]["cell"], chops[fi]["gdir"])]
        # half of the time prefer a second block that does not share a face with the first one, so that the two
        # demands meet on a single edge or inside an un-chopped block between them
        first_nodes = set(cell_nodes(case["dims"], chops[fi]["cell"]))
        far = [m for m in rest if len(first_nodes & set(cell_nodes(case["dims"], m[0]))) < 4]
        if far and draw(st.booleans()):
            rest = far
        c, d = draw(st.sampled_from(rest))
        base = fam_count[fi]
        if base is None:
            return None
        # sometimes the first demand is repeated on further members, so that the conflicting block can be surrounded
        # by blocks that agree among themselves
        others = [m for m in fams[fi] if m not in ((chops[fi]["cell"], chops[fi]["gdir"]), (c, d))]
        if others and draw(st.booleans()):
            for m in draw(st.lists(st.sampled_from(others), min_size=1, max_size=min(3, len(others)), unique=True)):
                chops.append({"cell": m[0], "gdir": m[1], "args": "same-as-first"})
        same_as_first = fi
        if not isinstance(chops[fi]["args"], list) and draw(st.integers(0, 2)) == 0:
            # large counts that differ by one cell only
            base = draw(st.integers(60, 1200))
            chops[fi]["args"] = {"count": base}
        other = base + draw(st.sampled_from([-3, -2, -1, 1, 2, 3, 7]))
        if other < 1:
            other = base + 1
        chops.append({"cell": c, "gdir": d, "args": {"count": other}})
        for ch in chops:
            if ch["args"] == "same-as-first":
                ch["args"] = chops[same_as_first]["args"]
        case["conflict"] = {"family": fi, "first": [chops[fi]["cell"], chops[fi]["gdir"]], "second": [c, d]}
        if draw(st.booleans()):
            # the dissenting block is added last: everything around it is already graded when its turn comes
            pairs = list(zip(case["cells"], case["orient"]))
            pairs = [p for p in pairs if p[0] != c] + [p for p in pairs if p[0] == c]
            case["cells"] = [p[0] for p in pairs]
            case["orient"] = [p[1] for p in pairs]
    if mode == "under":
        drop = draw(st.sampled_from(range(len(fams))))
        chops = [ch for i, ch in enumerate(chops) if i != drop]
        case["dropped_family"] = drop
    case["chops"] = draw(st.permutations(chops)) if len(chops) > 1 else chops
    case["mode"] = mode
    return case


# --------------------------------------------------------------------------------------------------
# building


class Built:
    def __init__(self) -> None:
        self.mesh = None
        self.ops: List[Any] = []
        self.cells: List[int] = []  # lattice cell of each op (insertion order)
        self.axes: List[List[Tuple[int, int]]] = []  # per op: local axis -> (gdir, sign)
        self.points: List[np.ndarray] = []  # per op: 8 corner positions in the op's own order
        self.applied: List[Dict[str, Any]] = []  # chops as applied: op index, local axis, kwargs, gdir, sign
        self.arcs: List[Dict[str, Any]] = []  # arc edges as declared: op index, local corners, arc point


def localize_args(args: Dict[str, Any], sign: int, length: float) -> Dict[str, Any]:
    """global-sense chop arguments -> keyword arguments for op.chop in the block's local sense"""
    out: Dict[str, Any] = {}
    a = dict(args)
    for key in ("start_size", "end_size"):
        if key + "_frac" in a:
            a[key] = a.pop(key + "_frac") * length
    if sign < 0:
        if "start_size" in a or "end_size" in a:
            s, e = a.pop("start_size", None), a.pop("end_size", None)
            if s is not None:
                a["end_size"] = s
            if e is not None:
                a["start_size"] = e
        for key in ("c2c_expansion", "total_expansion"):
            if key in a:
                a[key] = 1.0 / a[key]
        if a.get("preserve") in ("start_size", "end_size"):
            a["preserve"] = "end_size" if a["preserve"] == "start_size" else "start_size"
    out.update(a)
    return out


def move_after_assembly(case, built: "Built") -> int:
    """case["jitter_after_assembly"]: the operations were built on the regular lattice; now the mesh is assembled and
    its vertices are moved to the jittered node positions (as an optimiser / smoother would).  Returns # moved."""
    mesh = built.mesh
    if not mesh.is_assembled:
        mesh.assemble()
    regular = node_positions(case, with_jitter=False)
    target = node_positions(case, with_jitter=True)
    moved = 0
    for vertex in mesh.vertices:
        d = np.linalg.norm(regular - vertex.position, axis=1)
        k = int(np.argmin(d))
        assert d[k] < 1e-9
        if np.linalg.norm(target[k] - regular[k]) > 0:
            vertex.move_to(target[k])
            moved += 1
    return moved


def build(case, with_chops: bool = True) -> Built:
    import classy_blocks as cb

    dims = case["dims"]
    pos = node_positions(case, with_jitter=not case.get("jitter_after_assembly"))
    b = Built()
    b.mesh = cb.Mesh()
    for c, rot in zip(case["cells"], case["orient"]):
        nodes = cell_nodes(dims, c)
        perm = ROT[rot]
        pts = np.array([pos[nodes[perm[i]]] for i in range(8)])
        op = cb.Loft(cb.Face(pts[:4]), cb.Face(pts[4:]))
        b.ops.append(op)
        b.cells.append(c)
        b.axes.append(local_axes(rot))
        b.points.append(pts)
    if with_chops:
        for ch in case["chops"]:
            oi = b.cells.index(ch["cell"])
            la = [a for a in range(3) if b.axes[oi][a][0] == ch["gdir"]][0]
            sign = b.axes[oi][la][1]
            pts = b.points[oi]
            length = float(np.mean([np.linalg.norm(pts[j] - pts[i]) for i, j in HEX_EDGES_BY_AXIS[la]]))
            sections = ch["args"] if isinstance(ch["args"], list) else [ch["args"]]
            if sign < 0:
                sections = sections[::-1]
            kws = []
            for sec in sections:
                kw = localize_args(sec, sign, length * sec.get("length_ratio", 1.0))
                b.ops[oi].chop(la, **kw)
                kws.append(kw)
            b.applied.append({"op": oi, "axis": la, "kwargs": kws, "gdir": ch["gdir"], "sign": sign, "cell": ch["cell"]})
    for arc in case.get("arcs") or []:
        n1, n2 = arc["nodes"]
        owners = [oi for oi, c in enumerate(b.cells) if n1 in cell_nodes(dims, c) and n2 in cell_nodes(dims, c)]
        if not owners:
            continue
        oi = owners[arc.get("owner", 0) % len(owners)]
        if arc.get("owner_cell") in [b.cells[o] for o in owners]:
            # the declaring operation is named by lattice cell (stays the same when the insertion order is permuted)
            oi = b.cells.index(arc["owner_cell"])
        nodes = cell_nodes(dims, b.cells[oi])
        perm = ROT[case["orient"][oi]]
        local = {nodes[perm[i]]: i for i in range(8)}
        c1, c2 = local[n1], local[n2]
        point = (pos[n1] + pos[n2]) / 2 + np.asarray(arc["bulge"])
        op = b.ops[oi]
        if c1 < 4 and c2 < 4:
            op.bottom_face.add_edge(c1 if (c1 + 1) % 4 == c2 else c2, cb.Arc(point))
        elif c1 >= 4 and c2 >= 4:
            k1, k2 = c1 - 4, c2 - 4
            op.top_face.add_edge(k1 if (k1 + 1) % 4 == k2 else k2, cb.Arc(point))
        else:
            op.add_side_edge(min(c1, c2), cb.Arc(point))
        b.arcs.append({"op": oi, "corners": [c1, c2], "point": point.tolist()})
    for oi, (c, rot) in enumerate(zip(case["cells"], case["orient"])):
        perm = ROT[rot]
        for a, val, name, _is_slave in merge_faces(case, c):
            side = [sd for sd, corners in SIDE_CORNERS.items() if all(CANON[perm[i]][a] == val for i in corners)]
            assert len(side) == 1
            b.ops[oi].set_patch(side[0], name)
    for oi, zone in enumerate(case.get("zones") or []):
        if zone and oi < len(b.ops):
            b.ops[oi].set_cell_zone(zone)
    for key, value in (case.get("settings") or {}).items():
        b.mesh.settings[key] = value
    for op in b.ops:
        b.mesh.add(op)
    for mg in case.get("merges") or []:
        b.mesh.merge_patches(mg["names"][0], mg["names"][1])
    return b


def tmpdir() -> str:
    from vf import core

    return core.scratch_dir()


def write_text(mesh, debug: bool = False, name: str = "blockMeshDict", canonical_schedule: bool = True) -> Tuple[str, Optional[str]]:
    """mesh.write to a scratch file; returns (dict text, vtk text or None).  The file is removed first so a
    failed write can be recognised by the caller (path returned via write_path)."""
    d = tmpdir()
    if canonical_schedule:
        # make the run a pure function of the script: address-hashed sets are walked in a canonical order
        from vf import schedule

        if not mesh.is_assembled:
            mesh.assemble()
        schedule.inject(mesh, [0])
    path = os.path.join(d, name)
    vpath = os.path.join(d, name + ".vtk") if debug else None
    for p in (path, vpath):
        if p and os.path.exists(p):
            os.remove(p)
    mesh.write(path, vpath)
    with open(path) as f:
        text = f.read()
    vtk = None
    if vpath:
        with open(vpath) as f:
            vtk = f.read()
    return text, vtk


def write_path(name: str = "blockMeshDict") -> str:
    return os.path.join(tmpdir(), name)


def parse(text: str) -> foamdict.BMD:
    return foamdict.parse_blockmeshdict(text)
