"""R-FOAM: an independent reader for the blockMeshDict subset of the OpenFOAM dictionary format,
and for legacy-ASCII VTK unstructured grids.  Written from the format description, not from the writer.

parse_blockmeshdict(text) -> BMD with
  settings   {keyword: [tokens]}            (top-level `keyword value;` entries, e.g. scale)
  geometry   {name: [[tokens], ...]}        (one token list per `...;` statement)
  vertices   [Vertex(pos, projected_to or None)]
  blocks     [Hex(ids, zone, counts, grading_kind, grading)]   grading = list of 3 or 12 entries, each either a
                                            float (expansion) or a list of [length_ratio, count, expansion]
  edges      [Edge(kind, a, b, payload)]    payload: arc -> point; spline/polyLine -> list of points;
                                            project -> list of labels; arc with angle -> (angle, axis)
  faces      [(ids, label)]
  patches    [Patch(name, type, settings, faces)]   (ordered)
  default_patch {name, type} or None
  merge_pairs [(master, slave)]
"""

from __future__ import annotations

import dataclasses
import re
from typing import Any, Dict, List, Optional, Tuple


class FoamParseError(Exception):
    pass


_TOKEN = re.compile(r'\s*(?:("(?:[^"\\]|\\.)*")|([(){};])|([^\s(){};"]+))')


def strip_comments(text: str) -> str:
    text = re.sub(r"/\*.*?\*/", " ", text, flags=re.S)
    text = re.sub(r"//[^\n]*", " ", text)
    return text


def tokenize(text: str) -> List[str]:
    text = strip_comments(text)
    out: List[str] = []
    pos = 0
    n = len(text)
    while pos < n:
        m = _TOKEN.match(text, pos)
        if not m:
            if text[pos:].strip() == "":
                break
            raise FoamParseError(f"cannot tokenize at {pos}: {text[pos:pos + 40]!r}")
        pos = m.end()
        out.append(m.group(1) or m.group(2) or m.group(3))
    return out


class _P:
    def __init__(self, toks: List[str]):
        self.t = toks
        self.i = 0

    def peek(self) -> Optional[str]:
        return self.t[self.i] if self.i < len(self.t) else None

    def next(self) -> str:
        if self.i >= len(self.t):
            raise FoamParseError("unexpected end of file")
        tok = self.t[self.i]
        self.i += 1
        return tok

    def expect(self, tok: str) -> None:
        got = self.next()
        if got != tok:
            raise FoamParseError(f"expected {tok!r}, got {got!r} (token {self.i})")

    # a list: '(' items ')' ; items are words, nested lists, or `word { dict }`
    def parse_list(self) -> list:
        self.expect("(")
        items: list = []
        while True:
            tok = self.peek()
            if tok is None:
                raise FoamParseError("unterminated list")
            if tok == ")":
                self.next()
                return items
            if tok == "(":
                items.append(self.parse_list())
            elif tok == "{":
                if not items or not isinstance(items[-1], str):
                    raise FoamParseError("dictionary without a name inside a list")
                name = items.pop()
                items.append({"__name__": name, **self.parse_dict_body()})
            elif tok in ("}", ";"):
                raise FoamParseError(f"unexpected {tok!r} inside a list")
            else:
                items.append(self.next())

    # '{' entries '}'
    def parse_dict_body(self) -> Dict[str, Any]:
        self.expect("{")
        d = self.parse_entries(closing="}")
        self.expect("}")
        return d

    def parse_entries(self, closing: Optional[str]) -> Dict[str, Any]:
        entries: Dict[str, Any] = {}
        order: List[str] = []
        while True:
            tok = self.peek()
            if tok is None:
                if closing is None:
                    break
                raise FoamParseError("unterminated dictionary")
            if tok == closing:
                break
            if tok == ";":  # stray terminator (e.g. `};`)
                self.next()
                continue
            if tok in ("(", ")", "{", "}"):
                raise FoamParseError(f"unexpected {tok!r} where a keyword was expected (token {self.i})")
            key = self.next()
            nxt = self.peek()
            if nxt == "{":
                value: Any = self.parse_dict_body()
                if self.peek() == ";":
                    self.next()
            else:
                vals: list = []
                while True:
                    nxt = self.peek()
                    if nxt is None:
                        raise FoamParseError(f"entry {key!r} not terminated by ';'")
                    if nxt == ";":
                        self.next()
                        break
                    if nxt == "(":
                        vals.append(self.parse_list())
                    elif nxt in (")", "{", "}"):
                        raise FoamParseError(f"unexpected {nxt!r} in entry {key!r}")
                    else:
                        vals.append(self.next())
                value = vals
            if key in entries:
                raise FoamParseError(f"duplicate keyword {key!r}")
            entries[key] = value
            order.append(key)
        entries["__order__"] = order
        return entries


@dataclasses.dataclass
class Vertex:
    pos: Tuple[float, float, float]
    projected_to: Optional[List[str]]


@dataclasses.dataclass
class Hex:
    ids: List[int]
    zone: str
    counts: List[int]
    grading_kind: str
    grading: list


@dataclasses.dataclass
class Edge:
    kind: str
    a: int
    b: int
    payload: Any


@dataclasses.dataclass
class Patch:
    name: str
    type: str
    settings: List[List[str]]
    faces: List[List[int]]


@dataclasses.dataclass
class BMD:
    settings: Dict[str, list]
    geometry: Dict[str, List[List[str]]]
    vertices: List[Vertex]
    blocks: List[Hex]
    edges: List[Edge]
    faces: List[Tuple[List[int], str]]
    patches: List[Patch]
    default_patch: Optional[Dict[str, str]]
    merge_pairs: List[Tuple[str, str]]
    sections: List[str]


def _num(tok: Any) -> float:
    if not isinstance(tok, str):
        raise FoamParseError(f"number expected, got {tok!r}")
    try:
        return float(tok)
    except ValueError as e:
        raise FoamParseError(f"number expected, got {tok!r}") from e


def _int(tok: Any) -> int:
    if not isinstance(tok, str) or not re.fullmatch(r"[+-]?\d+", tok):
        raise FoamParseError(f"integer expected, got {tok!r}")
    return int(tok)


def _point(lst: Any) -> Tuple[float, float, float]:
    if not isinstance(lst, list) or len(lst) != 3:
        raise FoamParseError(f"point expected, got {lst!r}")
    return (_num(lst[0]), _num(lst[1]), _num(lst[2]))


def _single_list(value: Any, name: str) -> list:
    if not isinstance(value, list) or len(value) != 1 or not isinstance(value[0], list):
        raise FoamParseError(f"section {name!r} must be a single list")
    return value[0]


def _grading_entry(x: Any):
    if isinstance(x, str):
        return _num(x)
    if isinstance(x, list):
        out = []
        for sec in x:
            if not isinstance(sec, list) or len(sec) != 3:
                raise FoamParseError(f"multi-grading section must have 3 numbers: {sec!r}")
            out.append([_num(sec[0]), _int(sec[1]) if re.fullmatch(r"[+-]?\d+", str(sec[1])) else _num(sec[1]), _num(sec[2])])
        if not out:
            raise FoamParseError("empty multi-grading")
        return out
    raise FoamParseError(f"bad grading entry {x!r}")


def parse_blockmeshdict(text: str) -> BMD:
    top = _P(tokenize(text)).parse_entries(closing=None)
    order = top.pop("__order__")
    if "FoamFile" not in top or not isinstance(top["FoamFile"], dict):
        raise FoamParseError("FoamFile header missing")
    hdr = top["FoamFile"]
    if hdr.get("object") != ["blockMeshDict"] or hdr.get("class") != ["dictionary"]:
        raise FoamParseError("FoamFile header: class dictionary / object blockMeshDict expected")

    known = {"FoamFile", "geometry", "vertices", "blocks", "edges", "faces", "boundary", "defaultPatch", "mergePatchPairs"}
    settings = {k: v for k, v in top.items() if k not in known}
    for k, v in settings.items():
        if isinstance(v, dict):
            raise FoamParseError(f"unknown dictionary section {k!r}")

    geometry: Dict[str, List[List[str]]] = {}
    if "geometry" in top:
        g = top["geometry"]
        if not isinstance(g, dict):
            raise FoamParseError("geometry must be a dictionary")
        for name in g["__order__"]:
            body = g[name]
            if not isinstance(body, dict):
                raise FoamParseError(f"geometry {name!r} must be a dictionary")
            geometry[name] = [[k, *_flat(body[k])] for k in body["__order__"]]

    for sec in ("vertices", "blocks"):
        if sec not in top:
            raise FoamParseError(f"section {sec!r} missing")

    # vertices
    vertices: List[Vertex] = []
    items = _single_list(top["vertices"], "vertices")
    i = 0
    while i < len(items):
        it = items[i]
        if it == "project":
            if i + 2 >= len(items) + 0 and i + 2 > len(items) - 1:
                raise FoamParseError("truncated projected vertex")
            pos = _point(items[i + 1])
            labels = items[i + 2]
            if not isinstance(labels, list) or not labels or not all(isinstance(x, str) for x in labels):
                raise FoamParseError("projected vertex needs a list of geometry labels")
            vertices.append(Vertex(pos, list(labels)))
            i += 3
        elif isinstance(it, list):
            vertices.append(Vertex(_point(it), None))
            i += 1
        else:
            raise FoamParseError(f"bad vertex entry {it!r}")

    # blocks
    blocks: List[Hex] = []
    items = _single_list(top["blocks"], "blocks")
    i = 0
    while i < len(items):
        if items[i] != "hex":
            raise FoamParseError(f"'hex' expected, got {items[i]!r}")
        ids = items[i + 1]
        if not isinstance(ids, list) or len(ids) != 8:
            raise FoamParseError("hex needs 8 vertex labels")
        ids = [_int(x) for x in ids]
        j = i + 2
        zone = ""
        if isinstance(items[j], str):
            zone = items[j]
            j += 1
        counts = items[j]
        if not isinstance(counts, list) or len(counts) != 3:
            raise FoamParseError("hex needs 3 cell counts")
        counts = [_int(x) for x in counts]
        kind = items[j + 1]
        if kind not in ("simpleGrading", "edgeGrading"):
            raise FoamParseError(f"grading keyword expected, got {kind!r}")
        gl = items[j + 2]
        if not isinstance(gl, list):
            raise FoamParseError("grading list expected")
        grading = [_grading_entry(x) for x in gl]
        if kind == "simpleGrading" and len(grading) != 3:
            raise FoamParseError("simpleGrading needs 3 entries")
        if kind == "edgeGrading" and len(grading) not in (1, 3, 12):
            raise FoamParseError("edgeGrading needs 1, 3 or 12 entries")
        blocks.append(Hex(ids, zone, counts, kind, grading))
        i = j + 3

    # edges
    edges: List[Edge] = []
    if "edges" in top:
        items = _single_list(top["edges"], "edges")
        i = 0
        while i < len(items):
            kind = items[i]
            if not isinstance(kind, str):
                raise FoamParseError(f"edge kind expected, got {kind!r}")
            a, b = _int(items[i + 1]), _int(items[i + 2])
            if kind == "arc":
                if isinstance(items[i + 3], str):  # arc a b angle (axis)
                    payload: Any = (_num(items[i + 3]), _point(items[i + 4]))
                    i += 5
                else:
                    payload = _point(items[i + 3])
                    i += 4
            elif kind in ("spline", "polyLine", "BSpline"):
                pts = items[i + 3]
                if not isinstance(pts, list) or not pts:
                    raise FoamParseError(f"{kind} needs a non-empty point list")
                payload = [_point(p) for p in pts]
                i += 4
            elif kind == "project":
                labels = items[i + 3]
                if not isinstance(labels, list) or not labels:
                    raise FoamParseError("projected edge needs labels")
                payload = list(labels)
                i += 4
            elif kind == "line":
                payload = None
                i += 3
            else:
                raise FoamParseError(f"unknown edge kind {kind!r}")
            edges.append(Edge(kind, a, b, payload))

    faces: List[Tuple[List[int], str]] = []
    if "faces" in top:
        items = _single_list(top["faces"], "faces")
        if len(items) % 3:
            raise FoamParseError("faces: `project (a b c d) label` triples expected")
        for k in range(0, len(items), 3):
            if items[k] != "project" or not isinstance(items[k + 1], list) or len(items[k + 1]) != 4 or not isinstance(items[k + 2], str):
                raise FoamParseError(f"bad face projection {items[k:k + 3]!r}")
            faces.append(([_int(x) for x in items[k + 1]], items[k + 2]))

    patches: List[Patch] = []
    if "boundary" in top:
        items = _single_list(top["boundary"], "boundary")
        for it in items:
            if not isinstance(it, dict):
                raise FoamParseError(f"boundary entry must be `name {{...}}`, got {it!r}")
            name = it["__name__"]
            if "type" not in it or "faces" not in it:
                raise FoamParseError(f"patch {name!r} needs type and faces")
            fl = _single_list(it["faces"], f"{name}.faces")
            quads = []
            for q in fl:
                if not isinstance(q, list) or len(q) != 4:
                    raise FoamParseError(f"patch {name!r}: face must have 4 labels")
                quads.append([_int(x) for x in q])
            sett = [[k, *_flat(it[k])] for k in it["__order__"] if k not in ("type", "faces")]
            patches.append(Patch(name, " ".join(_flat(it["type"])), sett, quads))
        names = [p.name for p in patches]
        if len(set(names)) != len(names):
            raise FoamParseError("duplicate patch name")

    default_patch = None
    if "defaultPatch" in top:
        d = top["defaultPatch"]
        if not isinstance(d, dict):
            raise FoamParseError("defaultPatch must be a dictionary")
        default_patch = {k: " ".join(_flat(d[k])) for k in d["__order__"]}

    merge_pairs: List[Tuple[str, str]] = []
    if "mergePatchPairs" in top:
        items = _single_list(top["mergePatchPairs"], "mergePatchPairs")
        for it in items:
            if not isinstance(it, list) or len(it) != 2 or not all(isinstance(x, str) for x in it):
                raise FoamParseError(f"bad merge pair {it!r}")
            merge_pairs.append((it[0], it[1]))

    return BMD(settings, geometry, vertices, blocks, edges, faces, patches, default_patch, merge_pairs, order)


def _flat(v: Any) -> List[str]:
    out: List[str] = []
    if isinstance(v, list):
        for x in v:
            if isinstance(x, list):
                out.append("(" + " ".join(_flat(x)) + ")")
            else:
                out.append(str(x))
    else:
        out.append(str(v))
    return out


def hex_edge_gradings(h: Hex) -> List[Any]:
    """Expands a hex's grading to the 12 per-edge entries in blockMesh's edge order
    (x1: 0-1 3-2 7-6 4-5, x2: 0-3 1-2 5-6 4-7, x3: 0-4 1-5 2-6 3-7)."""
    g = h.grading
    if len(g) == 12:
        return list(g)
    if len(g) == 3:
        return [g[0]] * 4 + [g[1]] * 4 + [g[2]] * 4
    if len(g) == 1:
        return [g[0]] * 12
    raise FoamParseError("bad grading length")


# blockMesh's edge order for edgeGrading (OpenFOAM user guide, section blockMesh / edge grading)
EDGE_GRADING_ORDER = [
    (0, 1), (3, 2), (7, 6), (4, 5),
    (0, 3), (1, 2), (5, 6), (4, 7),
    (0, 4), (1, 5), (2, 6), (3, 7),
]


# --------------------------------------------------------------------------------------------------
# VTK legacy ASCII


@dataclasses.dataclass
class VTK:
    points: List[Tuple[float, float, float]]
    cells: List[List[int]]
    cell_types: List[int]


def parse_vtk(text: str) -> VTK:
    lines = text.split("\n")
    if not lines[0].startswith("# vtk DataFile"):
        raise FoamParseError("not a VTK legacy file")
    toks = " ".join(lines[2:]).split()
    if toks[0] != "ASCII":
        raise FoamParseError("ASCII expected")
    i = 1
    points: List[Tuple[float, float, float]] = []
    cells: List[List[int]] = []
    types: List[int] = []
    while i < len(toks):
        t = toks[i]
        if t == "DATASET":
            if toks[i + 1] != "UNSTRUCTURED_GRID":
                raise FoamParseError("UNSTRUCTURED_GRID expected")
            i += 2
        elif t == "POINTS":
            n = int(toks[i + 1])
            i += 3
            for k in range(n):
                points.append((float(toks[i]), float(toks[i + 1]), float(toks[i + 2])))
                i += 3
        elif t == "CELLS":
            n, size = int(toks[i + 1]), int(toks[i + 2])
            i += 3
            used = 0
            for k in range(n):
                m = int(toks[i])
                cells.append([int(x) for x in toks[i + 1:i + 1 + m]])
                i += 1 + m
                used += 1 + m
            if used != size:
                raise FoamParseError("CELLS size field inconsistent")
        elif t == "CELL_TYPES":
            n = int(toks[i + 1])
            i += 2
            types = [int(x) for x in toks[i:i + n]]
            i += n
        elif t == "CELL_DATA":
            break
        else:
            raise FoamParseError(f"unexpected VTK token {t!r}")
    return VTK(points, cells, types)
