"""CLI:  python -m vf.run <Cxx> [--tier quick|thorough] [--replay file] [--cell glob] [--jobs N] [--scale f]

exit 0  property held on everything explored (listed known findings are printed as KNOWN-FINDING lines)
exit 1  VIOLATION property=<id> replay=<path>
exit 2  harness error (never a verdict about the code under test)
"""

from __future__ import annotations

import argparse
import fnmatch
import glob
import json
import os
import subprocess
import sys
import time


def _bootstrap() -> None:
    # deterministic hashing for the harness and the library (re-exec once)
    want = {"PYTHONHASHSEED": "0", "OPENBLAS_NUM_THREADS": "1", "OMP_NUM_THREADS": "1", "MKL_NUM_THREADS": "1"}
    if any(os.environ.get(k) != v for k, v in want.items()):
        # deterministic hashing; one BLAS/OpenMP thread per worker (the harness already runs 16 processes)
        os.execve(sys.executable, [sys.executable, "-m", "vf.run", *sys.argv[1:]], dict(os.environ, **want))
    root = os.path.dirname(os.path.dirname(os.path.abspath(__file__)))
    deps = os.path.join(root, ".deps")
    try:
        import hypothesis  # noqa: F401
    except ImportError:
        if not os.path.isdir(os.path.join(deps, "hypothesis")):
            subprocess.run(
                [sys.executable, "-m", "pip", "install", "--no-index", "--find-links", "/opt/veriftools/wheels",
                 "--target", deps, "hypothesis"],
                check=False, stdout=subprocess.DEVNULL, stderr=subprocess.DEVNULL,
            )
        sys.path.insert(0, deps)


def main() -> int:
    _bootstrap()
    from vf import core

    ap = argparse.ArgumentParser()
    ap.add_argument("prop")
    ap.add_argument("--tier", default=os.environ.get("VERIF_TIER", "quick"), choices=["quick", "thorough"])
    ap.add_argument("--replay")
    ap.add_argument("--cell", default="*")
    ap.add_argument("--jobs", type=int, default=int(os.environ.get("VF_JOBS", "16")))
    ap.add_argument("--scale", type=float, default=float(os.environ.get("VF_SCALE", "1")))
    ap.add_argument("--no-evidence", action="store_true")
    a = ap.parse_args()
    prop = a.prop.upper()
    try:
        seed = int(os.environ.get("VERIF_SEED", "1"))
    except ValueError:
        seed = 1

    sys.path.insert(0, core.REPO_SRC)
    t0 = time.monotonic()
    try:
        if a.replay:
            return core.replay_file(prop, a.replay)
        mod, cells = core.load_prop(prop)
    except Exception:  # noqa: BLE001
        import traceback

        traceback.print_exc()
        print(f"HARNESS-ERROR property={prop} could not load the property module")
        return 2

    selected = [c for c in cells.values() if fnmatch.fnmatchcase(c.id, a.cell)]
    partial = len(selected) != len(cells)
    tasks = []
    for c in selected:
        n = int(round((c.quick if a.tier == "quick" else c.thorough) * a.scale))
        k = core.plan_shards(n, len(selected), a.tier, a.jobs)
        for s in range(k):
            tasks.append((prop, c.id, a.tier, seed, s, n // k + (1 if s < n % k else 0)))
    # regression replays (committed minimal cases) run as fixed cases of a pseudo shard
    regress = sorted(glob.glob(os.path.join(core.REGRESS_DIR, f"{prop}-*.json")))

    results = core.run_tasks(tasks, a.tier, a.jobs)
    known = core.load_known()

    violations = []
    errors = []
    known_hits: dict = {}
    known_samples: dict = {}

    # regress tier, in-process is fine (cheap) but isolate anyway through replay semantics
    reg_run = 0
    for path in regress:
        with open(path) as f:
            body = json.load(f)
        if body["cell"] not in cells or not fnmatch.fnmatchcase(body["cell"], a.cell):
            continue
        reg_run += 1
        ctx = core.Ctx()
        try:
            import numpy as np

            np.random.seed(int(core.h64(core.canon(body["case"]))[:8], 16))
            cells[body["cell"]].check(body["case"], ctx)
        except core.Violation as v:
            e = core.match_known(known, prop, body["cell"], v)
            if e is not None:
                known_hits[e["id"]] = known_hits.get(e["id"], 0) + 1
            else:
                violations.append((body["cell"], os.path.abspath(path), str(v)))
        except Exception:  # noqa: BLE001
            import traceback

            errors.append((body["cell"], "regress %s: %s" % (path, traceback.format_exc()[-3000:])))

    per_cell: dict = {}
    for r in results:
        pc = per_cell.setdefault(
            r["cell"], {"evaluations": 0, "nt": set(), "distinct": 0, "samples": [], "labels": {}, "wall_s": 0.0, "shards": 0}
        )
        pc["evaluations"] += r["evaluations"]
        pc["nt"].update(r["nt_keys"])
        pc["distinct"] += r["distinct"]
        pc["shards"] += 1
        pc["wall_s"] = max(pc["wall_s"], r["wall_s"])
        if len(pc["samples"]) < 2:
            pc["samples"].extend(r["samples"][: 2 - len(pc["samples"])])
        for k, v in r["labels"].items():
            pc["labels"][k] = pc["labels"].get(k, 0) + v
        for k, v in r["known_hits"].items():
            known_hits[k] = known_hits.get(k, 0) + v
        for k, v in r["known_samples"].items():
            known_samples.setdefault(k, v)
        if r["violation"] is not None:
            path = core.write_replay(prop, r["cell"], r["violation"])
            if any(v[1] == path for v in violations):
                continue
            violations.append((r["cell"], path, "[%s] %s" % (r["violation"]["kind"], r["violation"]["message"])))
        if r["error"] is not None:
            errors.append((r["cell"], r["error"]["message"]))

    # coverage-guided campaigns (thorough tier only; cells listed by the module in FUZZ_CELLS)
    fuzz_stats: dict = {}
    fuzz_cells = [fc for fc in getattr(mod, "FUZZ_CELLS", []) if fnmatch.fnmatchcase(fc[0], a.cell)]
    if a.tier == "thorough" and fuzz_cells:
        fuzz_stats = run_fuzz(core, prop, fuzz_cells, seed, a.jobs, a.scale)
        for cid, st_ in fuzz_stats.items():
            if st_.get("violation"):
                violations.append((cid, st_["violation"]["replay"], "[atheris] " + st_["violation"]["message"]))
            if st_.get("error"):
                errors.append((cid, "fuzz campaign: " + st_["error"]))
            for k, v in st_.get("known", {}).items():
                known_hits[k] = known_hits.get(k, 0) + v

    wall = time.monotonic() - t0
    evaluations = sum(pc["evaluations"] for pc in per_cell.values()) + reg_run
    distinct_nt = sum(len(pc["nt"]) for pc in per_cell.values())
    samples = []
    for cid in sorted(per_cell):
        for s in per_cell[cid]["samples"][:1]:
            samples.append({"cell": cid, "case": s})
    for cid in sorted(per_cell):
        for s in per_cell[cid]["samples"][1:2]:
            if len(samples) < 24:
                samples.append({"cell": cid, "case": s})

    by_id = {e["id"]: e for e in known}
    for fid in sorted(known_hits):
        e = by_id[fid]
        print(f"KNOWN-FINDING: property={prop} {fid} {e['what']} (observed {known_hits[fid]}x)")

    if not a.no_evidence and not partial:
        os.makedirs(core.EVIDENCE_DIR, exist_ok=True)
        ev = {
            "property_id": prop,
            "tier": a.tier,
            "seed": seed,
            "level": "exploration",
            "coverage": {
                "evaluations": evaluations,
                "distinct_nontrivial": distinct_nt,
                "rule": getattr(mod, "RULE", "") + " Per-cell rules: "
                + " | ".join(f"{c.id}: {c.rule}" for c in selected),
                "samples": samples[:24],
                "exhaustive": False,
                "cells": {
                    cid: {
                        "evaluations": pc["evaluations"],
                        "distinct_cases": pc["distinct"],
                        "distinct_nontrivial": len(pc["nt"]),
                        "labels": dict(sorted(pc["labels"].items())),
                        "shards": pc["shards"],
                        "wall_s": round(pc["wall_s"], 2),
                    }
                    for cid, pc in sorted(per_cell.items())
                },
                "regress_replays": reg_run,
                "known_findings_observed": {k: known_hits[k] for k in sorted(known_hits)},
                "known_finding_samples": {k: known_samples[k] for k in sorted(known_samples)},
                "harness_errors": len(errors),
                "fuzz_campaigns": fuzz_stats,
            },
            "assumptions": list(getattr(mod, "ASSUMPTIONS", [])),
            "wall_s": round(wall, 2),
            "violations": len(violations),
        }
        with open(os.path.join(core.EVIDENCE_DIR, f"{prop}.json"), "w") as f:
            json.dump(ev, f, indent=1, sort_keys=True, default=core._json_default)

    print(
        f"{prop} tier={a.tier} seed={seed} cells={len(selected)} tasks={len(tasks)} evaluations={evaluations} "
        f"distinct_nontrivial={distinct_nt} wall={wall:.1f}s"
    )
    for cid in sorted(per_cell):
        pc = per_cell[cid]
        print(f"  {cid}: n={pc['evaluations']} nt={len(pc['nt'])} {pc['wall_s']:.1f}s")
    if errors:
        for cid, msg in errors:
            print(f"HARNESS-ERROR property={prop} cell={cid}\n{msg}")
    if violations:
        for cid, path, msg in violations:
            print(f"  cell={cid}: {msg[:1500]}")
            print(f"VIOLATION property={prop} replay={path}")
        return 1
    if errors:
        return 2
    return 0


def run_fuzz(core, prop, fuzz_cells, seed, jobs, scale):
    """one `python -m vf.fuzz` subprocess per listed cell, at most `jobs` at a time"""
    out_dir = core.scratch_dir()
    pending = list(fuzz_cells)
    running = []
    stats = {}
    while pending or running:
        while pending and len(running) < jobs:
            cid, runs = pending.pop(0)
            out = os.path.join(out_dir, "fuzz_" + core.h64(cid) + ".json")
            p = subprocess.Popen(
                [sys.executable, "-m", "vf.fuzz", prop, cid, "--runs", str(max(1000, int(runs * scale))), "--seed",
                 str(core.derive_seed(seed, prop, cid, "fuzz") % (2**31)), "--out", out],
                cwd=core.ROOT, stdout=subprocess.DEVNULL, stderr=subprocess.DEVNULL,
            )
            running.append((p, cid, out, time.monotonic()))
        still = []
        for p, cid, out, t0 in running:
            rc = p.poll()
            if rc is None:
                if time.monotonic() - t0 > 3600:
                    p.kill()
                    stats[cid] = {"error": "campaign exceeded 3600 s (inconclusive)"}
                else:
                    still.append((p, cid, out, t0))
                continue
            try:
                with open(out) as f:
                    st_ = json.load(f)
            except Exception:  # noqa: BLE001
                st_ = {}
            if rc not in (0, 77):
                st_["error"] = f"exit code {rc}"
            stats[cid] = st_
        running = still
        time.sleep(0.2)
    return stats


if __name__ == "__main__":
    sys.exit(main())
