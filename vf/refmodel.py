"""Reference models written for the checks (independent of the library under test).

R-GP      blockMesh's geometric progression
R-AFFINE  homogeneous 4x4 maps (Rodrigues' formula)
R-ARC     circle through three points
R-HEX     blockMesh hexahedron convention (OpenFOAM user guide sketch)
R-FAMILY  union-find over (block, axis)
"""

from __future__ import annotations

import itertools
import math
from typing import Dict, Iterable, List, Sequence, Tuple

import numpy as np

# --------------------------------------------------------------------------------------------------
# R-GP


def gp_sizes(length: float, n: int, total: float) -> List[float]:
    """Cell sizes blockMesh produces on an edge of `length` with n cells and expansion ratio `total`."""
    if n < 1:
        raise ValueError("n < 1")
    if n == 1:
        return [length]
    r = total ** (1.0 / (n - 1))
    if abs(r - 1.0) < 1e-12:
        return [length / n] * n
    # s0 * (r^n - 1)/(r - 1) = length ; use expm1/log1p free formula but stable enough for r in [0.3, 3]
    s0 = length * (r - 1.0) / (r**n - 1.0)
    return [s0 * r**i for i in range(n)]


def gp_first_last(length: float, n: int, total: float) -> Tuple[float, float]:
    if n == 1:
        return length, length
    r = total ** (1.0 / (n - 1))
    if abs(r - 1.0) < 1e-12:
        return length / n, length / n
    s0 = length * (r - 1.0) / (r**n - 1.0)
    return s0, s0 * total


def gp_first_c2c(length: float, n: int, r: float) -> float:
    """first cell size for n cells with cell-to-cell ratio r"""
    if n == 1:
        return length
    if abs(r - 1.0) < 1e-12:
        return length / n
    return length * (r - 1.0) / (r**n - 1.0)


def multi_sizes(length: float, spec: Sequence[Sequence[float]]) -> List[float]:
    """Multi-section grading ((length_ratio count expansion) ...): blockMesh normalises the length ratios."""
    tot = sum(s[0] for s in spec)
    out: List[float] = []
    for lr, n, t in spec:
        out.extend(gp_sizes(length * lr / tot, int(n), float(t)))
    return out


# --------------------------------------------------------------------------------------------------
# R-AFFINE


def unit(v) -> np.ndarray:
    v = np.asarray(v, dtype=float)
    return v / np.linalg.norm(v)


def rodrigues(axis, angle: float) -> np.ndarray:
    k = unit(axis)
    K = np.array([[0, -k[2], k[1]], [k[2], 0, -k[0]], [-k[1], k[0], 0]])
    return np.eye(3) + math.sin(angle) * K + (1 - math.cos(angle)) * (K @ K)


def _hom(A: np.ndarray, t: np.ndarray) -> np.ndarray:
    M = np.eye(4)
    M[:3, :3] = A
    M[:3, 3] = t
    return M


def m_translate(d) -> np.ndarray:
    return _hom(np.eye(3), np.asarray(d, dtype=float))


def m_rotate(angle: float, axis, origin) -> np.ndarray:
    R = rodrigues(axis, angle)
    o = np.asarray(origin, dtype=float)
    return _hom(R, o - R @ o)


def m_scale(ratio: float, origin) -> np.ndarray:
    o = np.asarray(origin, dtype=float)
    return _hom(np.eye(3) * ratio, o - ratio * o)


def m_mirror(normal, origin) -> np.ndarray:
    n = unit(normal)
    H = np.eye(3) - 2 * np.outer(n, n)
    o = np.asarray(origin, dtype=float)
    return _hom(H, o - H @ o)


def apply(M: np.ndarray, p) -> np.ndarray:
    p = np.asarray(p, dtype=float)
    if p.ndim == 1:
        return M[:3, :3] @ p + M[:3, 3]
    return p @ M[:3, :3].T + M[:3, 3]


def apply_dir(M: np.ndarray, v) -> np.ndarray:
    return M[:3, :3] @ np.asarray(v, dtype=float)


# --------------------------------------------------------------------------------------------------
# R-ARC


def circle_3pt(a, b, c) -> Tuple[np.ndarray, float, np.ndarray]:
    """centre, radius, unit normal of the circle through three non-collinear points"""
    a, b, c = (np.asarray(x, dtype=float) for x in (a, b, c))
    u = b - a
    v = c - a
    w = np.cross(u, v)
    ww = w @ w
    if ww < 1e-300:
        raise ValueError("collinear")
    centre = a + (np.cross(w, u) * (v @ v) + np.cross(v, w) * (u @ u)) / (2 * ww)
    return centre, float(np.linalg.norm(a - centre)), w / math.sqrt(ww)


def arc_angle_through(a, b, c) -> Tuple[float, np.ndarray, float, np.ndarray]:
    """Included angle (0, 2pi) of the arc that starts at a, passes b, ends at c; plus centre, radius, normal
    oriented so that the arc runs counter-clockwise about the normal."""
    centre, radius, n = circle_3pt(a, b, c)
    ra = np.asarray(a, float) - centre
    e1 = ra / np.linalg.norm(ra)
    e2 = np.cross(n, e1)

    def ang(p):
        d = np.asarray(p, float) - centre
        t = math.atan2(d @ e2, d @ e1)
        return t % (2 * math.pi)

    tb, tc = ang(b), ang(c)
    if tb < tc:
        return tc, centre, radius, n
    # b is not between a and c counter-clockwise -> the arc runs the other way
    return 2 * math.pi - tc, centre, radius, -n


def arc_point(centre, radius_vec, normal, theta: float) -> np.ndarray:
    """rotate radius_vec about unit normal by theta, add centre"""
    return np.asarray(centre, float) + rodrigues(normal, theta) @ np.asarray(radius_vec, float)


# --------------------------------------------------------------------------------------------------
# R-HEX  (OpenFOAM user guide: vertices 0-3 bottom counter-clockwise seen from top, 4-7 above them;
#         x1: 0->1, x2: 0->3, x3: 0->4)

HEX_EDGES_BY_AXIS = {
    0: [(0, 1), (3, 2), (7, 6), (4, 5)],
    1: [(1, 2), (0, 3), (4, 7), (5, 6)],
    2: [(0, 4), (1, 5), (2, 6), (3, 7)],
}
HEX_EDGES = [e for ax in (0, 1, 2) for e in HEX_EDGES_BY_AXIS[ax]]
# sides with outward-pointing vertex order
HEX_SIDES = {
    "bottom": (0, 3, 2, 1),
    "top": (4, 5, 6, 7),
    "left": (0, 4, 7, 3),
    "right": (1, 2, 6, 5),
    "front": (0, 1, 5, 4),
    "back": (3, 7, 6, 2),
}
# neighbours of each corner along x1, x2, x3 (for Jacobians)
_HEX_NB = {
    0: (1, 3, 4),
    1: (2, 0, 5),
    2: (3, 1, 6),
    3: (0, 2, 7),
    4: (7, 5, 0),
    5: (4, 6, 1),
    6: (5, 7, 2),
    7: (6, 4, 3),
}


def hex_corner_jacobians(p: np.ndarray) -> np.ndarray:
    """Scaled corner Jacobians (triple product of the three unit edge vectors leaving each corner,
    ordered right-handed for a valid cell): all > 0 for a valid hexahedron."""
    p = np.asarray(p, dtype=float)
    out = np.zeros(8)
    for c, (i, j, k) in _HEX_NB.items():
        e = [p[i] - p[c], p[j] - p[c], p[k] - p[c]]
        e = [x / (np.linalg.norm(x) + 1e-300) for x in e]
        out[c] = np.dot(np.cross(e[0], e[1]), e[2])
    return out


def hex_rotations() -> List[Tuple[int, ...]]:
    """The 24 orientation-preserving renumberings of a hexahedron: perm[i] = old corner placed at new corner i."""
    cube = np.array(
        [[0, 0, 0], [1, 0, 0], [1, 1, 0], [0, 1, 0], [0, 0, 1], [1, 0, 1], [1, 1, 1], [0, 1, 1]], dtype=float
    ) - 0.5
    perms = []
    for axes in itertools.permutations(range(3)):
        for signs in itertools.product((1, -1), repeat=3):
            R = np.zeros((3, 3))
            for i, (a, s) in enumerate(zip(axes, signs)):
                R[i, a] = s
            if np.linalg.det(R) < 0:
                continue
            moved = cube @ R.T
            perm = []
            for i in range(8):
                # new corner i sits where cube[i] is; which old corner was rotated there?
                j = int(np.argmin(np.linalg.norm(moved - cube[i], axis=1)))
                perm.append(j)
            perms.append(tuple(perm))
    perms = sorted(set(perms))
    assert len(perms) == 24
    return perms


def hex_mirrorings() -> List[Tuple[int, ...]]:
    """48 numberings: 24 rotations and 24 rotations composed with a reflection (left-handed)."""
    rots = hex_rotations()
    mirror = (1, 0, 3, 2, 5, 4, 7, 6)  # reflect x
    out = list(rots)
    for r in rots:
        out.append(tuple(r[m] for m in mirror))
    return out


# --------------------------------------------------------------------------------------------------
# R-FAMILY


class UnionFind:
    def __init__(self) -> None:
        self.parent: Dict = {}

    def find(self, x):
        self.parent.setdefault(x, x)
        while self.parent[x] != x:
            self.parent[x] = self.parent[self.parent[x]]
            x = self.parent[x]
        return x

    def union(self, a, b) -> None:
        ra, rb = self.find(a), self.find(b)
        if ra != rb:
            self.parent[rb] = ra

    def groups(self) -> Dict:
        out: Dict = {}
        for x in list(self.parent):
            out.setdefault(self.find(x), []).append(x)
        return out


def families(hexes: Sequence[Sequence[int]]):
    """hexes: list of 8 vertex ids each.  Returns (uf over (block, axis), edge_map) where
    edge_map[frozenset({a,b})] = list of (block, axis, (a, b) as traversed by that block)."""
    uf = UnionFind()
    edge_map: Dict[frozenset, List[Tuple[int, int, Tuple[int, int]]]] = {}
    for b, ids in enumerate(hexes):
        for ax in (0, 1, 2):
            uf.find((b, ax))
            for i, j in HEX_EDGES_BY_AXIS[ax]:
                a, c = ids[i], ids[j]
                if a == c:
                    continue  # collapsed edge (wedge)
                edge_map.setdefault(frozenset((a, c)), []).append((b, ax, (a, c)))
    for users in edge_map.values():
        for u in users[1:]:
            uf.union((users[0][0], users[0][1]), (u[0], u[1]))
    return uf, edge_map


def cluster_points(points: Iterable, tol: float = 1e-7) -> List[int]:
    """ids for points, equal iff closer than tol (no chains expected)"""
    pts = [np.asarray(p, dtype=float) for p in points]
    ids: List[int] = []
    reps: List[np.ndarray] = []
    for p in pts:
        for k, r in enumerate(reps):
            if np.linalg.norm(p - r) < tol:
                ids.append(k)
                break
        else:
            reps.append(p)
            ids.append(len(reps) - 1)
    return ids
