"""Shared by C13 and C17: constraint manifolds written for the checks (analytic, invertible), the library clamp
that declares each of them, reference link relations, and Hypothesis strategies for their JSON specs.

A manifold spec is dimensionless; it is anchored at build time: ``build(spec, anchor, size)`` places the manifold so
that it passes through ``anchor`` (at parameter t0 / (u0, v0)) and scales every length by ``size``.
"""

from __future__ import annotations

import math
from typing import Any, Dict, List, Optional, Sequence, Tuple

import numpy as np
from hypothesis import strategies as st

from vf.refmodel import apply, m_mirror, m_rotate, rodrigues, unit

# --------------------------------------------------------------------------------------------------
# vectors and frames (by construction, no filtering)


def fix_vec(v: Sequence[float], fallback: Sequence[float] = (0.37, -0.51, 0.71)) -> np.ndarray:
    """a drawn vector in [-1, 1]^3, replaced by a general direction when it is too short to define one"""
    v = np.asarray(v, dtype=float)
    if np.linalg.norm(v) < 0.25:
        v = v + np.asarray(fallback, dtype=float)
    return v


def frame(a: Sequence[float], b: Sequence[float]) -> Tuple[np.ndarray, np.ndarray, np.ndarray]:
    """right-handed orthonormal frame, e1 along a, e2 in the (a, b) plane"""
    e1 = unit(fix_vec(a))
    b = fix_vec(b, (-0.2, 0.9, 0.4))
    w = b - (b @ e1) * e1
    if np.linalg.norm(w) < 0.2:
        axis = np.eye(3)[int(np.argmin(np.abs(e1)))]
        w = axis - (axis @ e1) * e1
    e2 = unit(w)
    return e1, e2, np.cross(e1, e2)


def aligned(v: Sequence[float]) -> bool:
    """direction parallel to a coordinate axis (the only kind the repository's own tests use)"""
    u = unit(fix_vec(v))
    return bool(np.max(np.abs(u)) > 1 - 1e-9)


_f11 = st.floats(-1.0, 1.0)
vec3 = st.tuples(_f11, _f11, _f11).map(list)
# length of a "non-unit" direction / normal: anything within a decade, or a unit vector written with 6-8 decimals
# (length 1 -+ 1e-8 .. 1e-6, as typed by hand or exported by CAD)
nlen = st.one_of(
    st.floats(-0.7, 0.7).map(lambda x: 10.0**x),
    st.tuples(st.floats(-8.0, -6.05), st.sampled_from([1, -1])).map(lambda t: 1.0 + t[1] * 10.0 ** t[0]),
)


# --------------------------------------------------------------------------------------------------
# manifolds


class Manifold:
    kind = "?"
    bounded = False

    def make_clamp(self, position):  # pragma: no cover - interface
        raise NotImplementedError

    def residual(self, x) -> float:
        """distance-like measure of how far x is from the (unbounded) manifold; 0 on it"""
        raise NotImplementedError

    def bounds_excess(self, x) -> float:
        """how far (in parameter units converted to length) the recovered parameter of x lies outside the bounds"""
        return 0.0

    def point(self, params) -> Optional[np.ndarray]:
        """position the declared parametrisation gives for params (None when the parametrisation is not declared)"""
        return None

    def closest(self, p) -> Optional[np.ndarray]:
        """closest point of the bounded manifold to p (unique by construction of the cases)"""
        return None

    def param_box(self) -> Optional[List[List[float]]]:
        """effective parameter bounds, one [lo, hi] per parameter (None = unbounded)"""
        return None

    hint: Optional[float] = None  # rough user-supplied initial parameter: this fraction of the range off the anchor's
    t0 = 0.0

    def hint_param(self) -> Optional[float]:
        if self.hint is None:
            return None
        lo, hi = self.param_box()[0]
        return min(max(self.t0 + self.hint * (hi - lo), lo), hi)

    nparams = 0


class Free(Manifold):
    kind = "free"
    nparams = 3

    def __init__(self, spec, anchor, size):
        self.anchor = np.asarray(anchor, float)

    def make_clamp(self, position):
        import classy_blocks as cb

        return cb.FreeClamp(position)

    def residual(self, x) -> float:
        return 0.0

    def point(self, params):
        return np.asarray(params, dtype=float)  # the parameters of a free clamp are its coordinates

    def closest(self, p):
        return np.asarray(p, float)


class Line(Manifold):
    """LineClamp(position, p1, p2[, bounds]): p1 + t * unit(p2 - p1), t in bounds, default (0, |p2 - p1|)"""

    kind = "line"
    nparams = 1

    def __init__(self, spec, anchor, size):
        self.bounded = bool(spec["bounded"])
        if spec.get("_p2") is not None:
            # the line from the anchor (t = 0) through another given point (the idiom LineClamp(v, v, w))
            self.p1 = np.asarray(anchor, float)
            self.p2 = np.asarray(spec["_p2"], float)
            self.length = float(np.linalg.norm(self.p2 - self.p1))
            self.u = (self.p2 - self.p1) / self.length
            self.t0 = 0.0
            self.box = [-spec["lo"] * size, spec["hi"] * size] if self.bounded else [0.0, self.length]
            return
        self.u = unit(fix_vec(spec["dir"]))
        self.length = spec["len"] * size
        small = spec.get("near_guess")  # anchor this close (x size) to the clamp's initial-guess point p1 (t = 0)
        if self.bounded:
            t0 = (small if small is not None else spec["t0"]) * size
            self.box = [t0 - spec["lo"] * size, t0 + spec["hi"] * size]
        else:
            t0 = abs(small) * size if small is not None else spec["t0f"] * self.length
            self.box = [0.0, self.length]
        self.p1 = np.asarray(anchor, float) - t0 * self.u
        self.p2 = self.p1 + self.length * self.u
        self.t0 = t0

    def make_clamp(self, position, ends=None):
        """ends: the two arrays to hand over as point_1 / point_2 (e.g. live vertex.position arrays) instead of copies"""
        import classy_blocks as cb

        p1, p2 = ends if ends is not None else (self.p1, self.p2)
        if self.bounded:
            return cb.LineClamp(position, p1, p2, (self.box[0], self.box[1]))
        return cb.LineClamp(position, p1, p2)

    def param(self, x) -> float:
        return float((np.asarray(x, float) - self.p1) @ self.u)

    def residual(self, x) -> float:
        d = np.asarray(x, float) - self.p1
        return float(np.linalg.norm(d - (d @ self.u) * self.u))

    def bounds_excess(self, x) -> float:
        t = self.param(x)
        return max(self.box[0] - t, t - self.box[1], 0.0)

    def point(self, params):
        return self.p1 + float(params[0]) * self.u

    def closest(self, p):
        return self.point([min(max(self.param(p), self.box[0]), self.box[1])])

    def param_box(self):
        return [list(self.box)]


class Radial(Manifold):
    """RadialClamp(position, center, normal[, bounds]): the creation position rotated about the axis by t / r
    (t = arc length, r = distance of the creation position from the axis)"""

    kind = "radial"
    nparams = 1

    def __init__(self, spec, anchor, size):
        e1, e2, e3 = frame(spec["normal"], spec["cdir"])
        self.n = e1
        self.normal = e1 * spec["nlen"]
        self.r = spec["r"] * size
        self.start = np.asarray(anchor, float)
        # centre anywhere on the axis (not necessarily in the plane of the circle)
        self.center = self.start - self.r * e2 - spec["h"] * size * e1
        self.bounded = bool(spec["bounded"])
        self.box = [-spec["lo"] * size, spec["hi"] * size] if self.bounded else None
        self.e2, self.e3 = e2, e3

    def make_clamp(self, position):
        import classy_blocks as cb

        if self.bounded:
            return cb.RadialClamp(position, self.center, self.normal, [self.box[0], self.box[1]])
        return cb.RadialClamp(position, self.center, self.normal)

    def _polar(self, x):
        d = np.asarray(x, float) - self.center
        h = float(d @ self.n)
        rad = d - h * self.n
        return float(np.linalg.norm(rad)), h, math.atan2(float(rad @ self.e3), float(rad @ self.e2))

    def residual(self, x) -> float:
        r, h, _ = self._polar(x)
        _, h0, _ = self._polar(self.start)
        return math.hypot(r - self.r, h - h0)

    def param(self, x) -> float:
        """arc length from the start position, in (-pi r, pi r]"""
        return self._polar(x)[2] * self.r  # the start position has azimuth 0 in this frame

    def bounds_excess(self, x) -> float:
        if not self.bounded:
            return 0.0
        t = self.param(x)
        return max(self.box[0] - t, t - self.box[1], 0.0)

    def point(self, params):
        return apply(m_rotate(float(params[0]) / self.r, self.n, self.center), self.start)

    def closest(self, p):
        return None  # the circle is defined by the creation position itself: never off the manifold

    def param_box(self):
        return [list(self.box)] if self.bounded else None


class Plane(Manifold):
    """PlaneClamp(position, point, normal): infinite plane, parametrisation not declared (random in-plane axes)"""

    kind = "plane"
    nparams = 2

    def __init__(self, spec, anchor, size):
        e1, e2, e3 = frame(spec["normal"], spec["idir"])
        self.n = e1
        self.normal = e1 * spec["nlen"]
        off = spec["off"] if spec.get("near_guess") is None else [spec["near_guess"], 0.37 * spec["near_guess"]]
        self.point0 = np.asarray(anchor, float) + size * (off[0] * e2 + off[1] * e3)

    def make_clamp(self, position):
        import classy_blocks as cb

        return cb.PlaneClamp(position, self.point0, self.normal)

    def residual(self, x) -> float:
        return abs(float((np.asarray(x, float) - self.point0) @ self.n))

    def closest(self, p):
        p = np.asarray(p, float)
        return p - ((p - self.point0) @ self.n) * self.n


class Parabola(Manifold):
    """CurveClamp on AnalyticCurve(fn, bounds), fn(t) = o + size (t e1 + c t^2 e2)"""

    kind = "curve"
    nparams = 1
    bounded = True

    def __init__(self, spec, anchor, size):
        self.e1, self.e2, self.e3 = frame(spec["a"], spec["b"])
        self.c = spec["c"]
        self.size = size
        t0 = spec["t0"]
        self.t0, self.hint = t0, spec.get("hint")
        self.box = [t0 - spec["lo"], t0 + spec["hi"]]
        self.o = np.asarray(anchor, float) - size * (t0 * self.e1 + self.c * t0 * t0 * self.e2)

    def fn(self, t):
        t = float(t)
        return self.o + self.size * (t * self.e1 + self.c * t * t * self.e2)

    def make_clamp(self, position):
        import classy_blocks as cb

        return cb.CurveClamp(position, cb.AnalyticCurve(self.fn, (self.box[0], self.box[1])), self.hint_param())

    def _local(self, x):
        d = (np.asarray(x, float) - self.o) / self.size
        return float(d @ self.e1), float(d @ self.e2), float(d @ self.e3)

    def residual(self, x) -> float:
        t, y, z = self._local(x)
        return self.size * math.hypot(y - self.c * t * t, z)

    def bounds_excess(self, x) -> float:
        t = self._local(x)[0]
        return self.size * max(self.box[0] - t, t - self.box[1], 0.0)

    def point(self, params):
        return self.fn(params[0])

    def closest(self, p):
        # dense scan + golden section on the harness's own function (|c| <= 0.5, offsets below the reach)
        ts = np.linspace(self.box[0], self.box[1], 4001)
        pts = self.o + self.size * (np.outer(ts, self.e1) + np.outer(self.c * ts * ts, self.e2))
        i = int(np.argmin(np.linalg.norm(pts - np.asarray(p, float), axis=1)))
        lo, hi = ts[max(i - 1, 0)], ts[min(i + 1, len(ts) - 1)]
        g = (math.sqrt(5) - 1) / 2
        p = np.asarray(p, float)
        for _ in range(80):
            a, b = hi - g * (hi - lo), lo + g * (hi - lo)
            if np.linalg.norm(self.fn(a) - p) < np.linalg.norm(self.fn(b) - p):
                hi = b
            else:
                lo = a
        return self.fn(0.5 * (lo + hi))

    def param_box(self):
        return [list(self.box)]


class Circle(Manifold):
    """CurveClamp on CircleCurve(origin, rim, normal, bounds): rim rotated about the normal by t (radians)"""

    kind = "circle"
    nparams = 1
    bounded = True

    def __init__(self, spec, anchor, size):
        self.n, e2, e3 = frame(spec["normal"], spec["cdir"])
        self.normal = self.n * spec["nlen"]
        self.r = spec["r"] * size
        t0 = spec["t0"]
        self.t0, self.hint = t0, spec.get("hint")
        self.box = [t0 - spec["lo"], t0 + spec["hi"]]
        anchor = np.asarray(anchor, float)
        # anchor sits at angle t0 from the rim
        self.center = anchor - self.r * e2
        self.rim = self.center + rodrigues(self.n, -t0) @ (anchor - self.center)
        r0 = unit(self.rim - self.center)
        self.e2, self.e3 = r0, np.cross(self.n, r0)

    def make_clamp(self, position):
        import classy_blocks as cb

        return cb.CurveClamp(position, cb.CircleCurve(self.center, self.rim, self.normal, (self.box[0], self.box[1])),
                             self.hint_param())

    def _polar(self, x):
        d = np.asarray(x, float) - self.center
        h = float(d @ self.n)
        rad = d - h * self.n
        return float(np.linalg.norm(rad)), h, math.atan2(float(rad @ self.e3), float(rad @ self.e2))

    def residual(self, x) -> float:
        r, h, _ = self._polar(x)
        return math.hypot(r - self.r, h)

    def _angle(self, x) -> float:
        """angle from the rim, unwrapped to the turn that is nearest to the middle of the bounds"""
        a = self._polar(x)[2]
        mid = 0.5 * (self.box[0] + self.box[1])
        return a + 2 * math.pi * round((mid - a) / (2 * math.pi))

    def bounds_excess(self, x) -> float:
        a = self._angle(x)
        return self.r * max(self.box[0] - a, a - self.box[1], 0.0)

    def point(self, params):
        return self.center + rodrigues(self.n, float(params[0])) @ (self.rim - self.center)

    def closest(self, p):
        a = self._angle(p)
        cands = [self.point([self.box[0]]), self.point([self.box[1]])]
        if self.box[0] <= a <= self.box[1]:
            cands.append(self.point([a]))
        p = np.asarray(p, float)
        return min(cands, key=lambda c: float(np.linalg.norm(c - p)))

    def param_box(self):
        return [list(self.box)]


class Polyline(Manifold):
    """CurveClamp on LinearInterpolatedCurve(points): the polyline through the points, t in [0, 1]"""

    kind = "polyline"
    nparams = 1
    bounded = True

    def __init__(self, spec, anchor, size):
        e1, e2, e3 = frame(spec["a"], spec["b"])
        steps = [size * (s[0] * e1 + s[1] * e2 + s[2] * e3) for s in spec["steps"]]  # s[0] > 0: no back-tracking
        k = spec["k"] % len(steps)  # anchor lies on segment k at fraction w
        pts = [np.zeros(3)]
        for s in steps:
            pts.append(pts[-1] + s)
        on = pts[k] + spec["w"] * (pts[k + 1] - pts[k])
        shift = np.asarray(anchor, float) - on
        self.pts = [q + shift for q in pts]
        self.equalize = bool(spec["equalize"])
        self.box = [0.0, 1.0]

    def make_clamp(self, position):
        import classy_blocks as cb

        return cb.CurveClamp(position, cb.LinearInterpolatedCurve(self.pts, equalize=self.equalize))

    def _closest(self, x):
        x = np.asarray(x, float)
        best = None
        for a, b in zip(self.pts[:-1], self.pts[1:]):
            d = b - a
            w = min(max(float((x - a) @ d) / float(d @ d), 0.0), 1.0)
            q = a + w * d
            if best is None or np.linalg.norm(q - x) < np.linalg.norm(best - x):
                best = q
        return best

    def residual(self, x) -> float:
        return float(np.linalg.norm(self._closest(x) - np.asarray(x, float)))

    def closest(self, p):
        return self._closest(p)

    def is_local_foot(self, p, x, tol: float) -> bool:
        """x is the foot point of p on one of the segments (a local minimiser of the distance along the polyline)"""
        p, x = np.asarray(p, float), np.asarray(x, float)
        for a, b in zip(self.pts[:-1], self.pts[1:]):
            d = b - a
            w = min(max(float((p - a) @ d) / float(d @ d), 0.0), 1.0)
            if np.linalg.norm(a + w * d - x) <= tol:
                return True
        return False

    def param_box(self):
        return [list(self.box)]


class Saddle(Manifold):
    """ParametricSurfaceClamp(position, fn[, bounds]), fn(u, v) = o + size (u e1 + v e2 + c (u^2 - v^2) e3)"""

    kind = "surface"
    nparams = 2

    def __init__(self, spec, anchor, size):
        self.e1, self.e2, self.e3 = frame(spec["a"], spec["b"])
        self.c = spec["c"]
        self.size = size
        u0, v0 = spec["uv0"] if spec.get("near_guess") is None else (spec["near_guess"], -0.61 * spec["near_guess"])
        self.uv0 = [u0, v0]
        self.bounded = bool(spec["bounded"])
        self.box = (
            [[u0 - spec["lo"][0], u0 + spec["hi"][0]], [v0 - spec["lo"][1], v0 + spec["hi"][1]]] if self.bounded else None
        )
        self.hint = bool(spec.get("hint")) and spec.get("near_guess") is None
        self.o = np.asarray(anchor, float) - size * (u0 * self.e1 + v0 * self.e2 + self.c * (u0 * u0 - v0 * v0) * self.e3)

    def fn(self, params):
        u, v = float(params[0]), float(params[1])
        return self.o + self.size * (u * self.e1 + v * self.e2 + self.c * (u * u - v * v) * self.e3)

    def make_clamp(self, position):
        import classy_blocks as cb

        hint = [self.uv0[0], self.uv0[1]] if self.hint else None
        return cb.ParametricSurfaceClamp(position, self.fn, self.box, hint)

    def _local(self, x):
        d = (np.asarray(x, float) - self.o) / self.size
        return float(d @ self.e1), float(d @ self.e2), float(d @ self.e3)

    def residual(self, x) -> float:
        u, v, w = self._local(x)
        return self.size * abs(w - self.c * (u * u - v * v))

    def bounds_excess(self, x) -> float:
        if not self.bounded:
            return 0.0
        u, v, _ = self._local(x)
        (a, b), (c, d) = self.box
        return self.size * max(a - u, u - b, c - v, v - d, 0.0)

    def point(self, params):
        return self.fn(params)

    def closest(self, p):
        # dense scan then Newton-free refinement (coordinate golden section) on the harness's own function
        p = np.asarray(p, float)
        u0, v0, _ = self._local(p)
        if self.bounded:
            (a, b), (c, d) = self.box
        else:
            a, b, c, d = u0 - 1.0, u0 + 1.0, v0 - 1.0, v0 + 1.0
        us, vs = np.linspace(a, b, 161), np.linspace(c, d, 161)
        U, V = np.meshgrid(us, vs, indexing="ij")
        pts = (
            self.o
            + self.size * (U[..., None] * self.e1 + V[..., None] * self.e2 + (self.c * (U * U - V * V))[..., None] * self.e3)
        )
        dist = np.linalg.norm(pts - p, axis=2)
        i, j = np.unravel_index(int(np.argmin(dist)), dist.shape)
        import scipy.optimize

        res = scipy.optimize.minimize(
            lambda q: float(np.sum((self.fn(q) - p) ** 2)) / self.size**2,
            [us[i], vs[j]],
            bounds=[[a, b], [c, d]],
            method="L-BFGS-B",
            options={"ftol": 1e-16, "gtol": 1e-13},
        )
        return self.fn(res.x)

    def param_box(self):
        return [list(b) for b in self.box] if self.bounded else None


KINDS = {
    "free": Free,
    "line": Line,
    "radial": Radial,
    "plane": Plane,
    "curve": Parabola,
    "circle": Circle,
    "polyline": Polyline,
    "surface": Saddle,
}


def build(spec: Dict[str, Any], anchor, size: float) -> Manifold:
    return KINDS[spec["type"]](spec, anchor, size)


# --------------------------------------------------------------------------------------------------
# strategies for manifold specs.  `reach` scales the half-widths of bounds (C13 uses tight bounds so that the
# unconstrained optimum is often outside them; C17 uses wide ones).

_pos = st.floats(0.0, 1.0)
# distance (x size) of the creation position from the point the clamp's initial guess yields: 1e-6 .. 1e-2, either side
# optional initial_param of a CurveClamp: "a starting point for the search", 1-10 % of the parameter range off
_hint = st.one_of(
    st.none(),
    st.tuples(st.floats(0.01, 0.1), st.sampled_from([1, -1])).map(lambda t: t[1] * t[0]),
)
_near = st.one_of(
    st.none(),
    st.tuples(st.floats(-6.0, -2.0), st.sampled_from([1, -1])).map(lambda t: t[1] * 10.0 ** t[0]),
)


def _halfwidths(reach: float):
    # lo, hi >= 0, never both (nearly) zero
    return st.tuples(_pos, _pos).map(lambda t: (reach * t[0], reach * max(t[1], 0.05 if t[0] < 0.05 else 0.0)))


def spec_free():
    return st.just({"type": "free"})


def spec_line(reach: float = 1.0, bounded=None, near_guess: bool = False, through: bool = False):
    hw = _halfwidths(reach)
    return st.fixed_dictionaries(
        {
            "type": st.just("line"),
            "dir": vec3,
            "len": nlen,
            "bounded": st.booleans() if bounded is None else st.just(bounded),
            "t0f": _pos,
            "t0": st.floats(-2.0, 2.0),
            "near_guess": _near if near_guess else st.none(),
            # C13: the line runs from the clamped vertex through another vertex (picked by this number)
            "through": st.one_of(st.none(), st.integers(0, 199)) if through else st.none(),
            "hw": hw,
        }
    ).map(lambda d: {**{k: v for k, v in d.items() if k != "hw"}, "lo": d["hw"][0], "hi": d["hw"][1]})


def spec_radial(reach: float = 1.0, bounded=None):
    hw = _halfwidths(reach)
    return st.fixed_dictionaries(
        {
            "type": st.just("radial"),
            "normal": vec3,
            "cdir": vec3,
            "nlen": nlen,
            "r": st.floats(0.5, 3.0),
            "h": st.floats(-2.0, 2.0),
            "bounded": st.booleans() if bounded is None else st.just(bounded),
            "hw": hw,
        }
    ).map(lambda d: {**{k: v for k, v in d.items() if k != "hw"}, "lo": d["hw"][0], "hi": d["hw"][1]})


def spec_plane(near_guess: bool = False):
    return st.fixed_dictionaries(
        {
            "type": st.just("plane"),
            "normal": vec3,
            "idir": vec3,
            "nlen": nlen,
            "off": st.tuples(st.floats(-2.0, 2.0), st.floats(-2.0, 2.0)).map(list),
            "near_guess": _near if near_guess else st.none(),
        }
    )


def spec_curve(reach: float = 1.0, hinted: bool = False):
    hw = _halfwidths(reach)
    return st.fixed_dictionaries(
        {
            "type": st.just("curve"),
            "a": vec3,
            "b": vec3,
            "c": st.floats(-0.5, 0.5),
            "t0": st.floats(-1.0, 1.0),
            "hint": _hint if hinted else st.none(),
            "hw": hw,
        }
    ).map(lambda d: {**{k: v for k, v in d.items() if k != "hw"}, "lo": d["hw"][0], "hi": d["hw"][1]})


def spec_circle(reach: float = 1.0, hinted: bool = False):
    hw = _halfwidths(reach)
    return st.fixed_dictionaries(
        {
            "type": st.just("circle"),
            "normal": vec3,
            "cdir": vec3,
            "nlen": nlen,
            "r": st.floats(0.6, 3.0),
            "t0": st.floats(0.0, 2 * math.pi),
            "hint": _hint if hinted else st.none(),
            "hw": hw,
        }
    ).map(lambda d: {**{k: v for k, v in d.items() if k != "hw"}, "lo": d["hw"][0], "hi": d["hw"][1]})


def spec_polyline():
    step = st.tuples(st.floats(0.2, 1.5), st.floats(-0.8, 0.8), st.floats(-0.8, 0.8)).map(list)
    return st.fixed_dictionaries(
        {
            "type": st.just("polyline"),
            "a": vec3,
            "b": vec3,
            "steps": st.lists(step, min_size=2, max_size=5),
            "k": st.integers(0, 4),
            "w": st.one_of(st.sampled_from([0.0, 1.0]), _pos),
            "equalize": st.booleans(),
        }
    )


def spec_surface(reach: float = 1.0, bounded=None, near_guess: bool = False):
    hw = st.tuples(_halfwidths(reach), _halfwidths(reach))
    return st.fixed_dictionaries(
        {
            "type": st.just("surface"),
            "a": vec3,
            "b": vec3,
            "c": st.floats(-0.3, 0.3),
            "uv0": st.tuples(st.floats(-0.8, 0.8), st.floats(-0.8, 0.8)).map(list),
            "bounded": st.booleans() if bounded is None else st.just(bounded),
            "hint": st.booleans(),
            "near_guess": _near if near_guess else st.none(),
            "hw": hw,
        }
    ).map(
        lambda d: {
            **{k: v for k, v in d.items() if k != "hw"},
            "lo": [d["hw"][0][0], d["hw"][1][0]],
            "hi": [d["hw"][0][1], d["hw"][1][1]],
        }
    )


# --------------------------------------------------------------------------------------------------
# links: construction and reference relations


def make_link(spec: Dict[str, Any], leader, follower):
    """spec: {"type": "translation"} | {"type": "rotation", "axis", "nlen", "origin": [3]} |
    {"type": "symmetry", "normal", "nlen", "origin": [3]}  (axis/normal/origin already absolute)"""
    import classy_blocks as cb

    if spec["type"] == "translation":
        return cb.TranslationLink(leader, follower)
    if spec["type"] == "rotation":
        return cb.RotationLink(leader, follower, np.asarray(spec["axis"], float), np.asarray(spec["origin"], float))
    return cb.SymmetryLink(leader, follower, np.asarray(spec["normal"], float), np.asarray(spec["origin"], float))


def azimuth_change(axis, origin, before, after) -> Tuple[float, float, float]:
    """signed angle (-pi, pi] by which `after` is turned about the axis relative to `before`; also both radii"""
    n = unit(axis)
    o = np.asarray(origin, float)
    rb = np.asarray(before, float) - o
    rb = rb - (rb @ n) * n
    ra = np.asarray(after, float) - o
    ra = ra - (ra @ n) * n
    e2 = rb / np.linalg.norm(rb)
    e3 = np.cross(n, e2)
    return math.atan2(float(ra @ e3), float(ra @ e2)), float(np.linalg.norm(rb)), float(np.linalg.norm(ra))


def expected_follower(spec, leader0, follower0, leader_now) -> Optional[np.ndarray]:
    """where the relation puts the follower for the leader's current position (None: relation undefined there)"""
    l0, f0, ln = (np.asarray(x, float) for x in (leader0, follower0, leader_now))
    if spec["type"] == "translation":
        return ln + (f0 - l0)
    o = np.asarray(spec.get("origin", np.zeros(3)), float)  # work relative to the link's origin: models may sit far away
    if spec["type"] == "symmetry":
        return o + apply(m_mirror(spec["normal"], np.zeros(3)), ln - o)
    phi, r0, r1 = azimuth_change(spec["axis"], spec["origin"], l0, ln)
    if r1 < 1e-3 * r0:
        return None  # leader on the axis: the angle it turned is not defined
    # at half a turn the sense is irrelevant (+pi and -pi are the same rotation); next to it the azimuth still defines it
    return o + apply(m_rotate(phi, spec["axis"], np.zeros(3)), f0 - o)
