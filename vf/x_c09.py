"""Shared machinery of the C09 checks (vf/props/c09.py): transformation cases, entity catalogue, output-geometry
extraction after Mesh.assemble() and the comparison with the R-AFFINE image of the untransformed geometry."""

from __future__ import annotations

import math
import re
import warnings
from typing import Any, Callable, Dict, List, Optional, Tuple

import numpy as np
from hypothesis import strategies as st

from vf import refmodel as rm
from vf.core import Violation

warnings.simplefilter("ignore")

import classy_blocks as cb  # noqa: E402
from classy_blocks.base import transforms as tr  # noqa: E402
from classy_blocks.construct.flat.sketches.disk import QuarterDisk  # noqa: E402

# --------------------------------------------------------------------------------------------------
# tolerances (relative to the size of the numbers compared)

POS_TOL = 1e-9  # positions: |p' - M p| <= POS_TOL * (1 + max|coordinate|); measured worst case 4e-14
LEN_TOL = 1e-7  # lengths: relative (library TOL); measured worst case 3e-12 (arcs), 1e-15 (polylines)
ARC_TOL = 1e-7  # third point on the image circle: relative to the radius; measured worst case 2e-13
DIR_TOL = 1e-9  # unit direction vectors
CURVE_TOL = 1e-5  # OnCurve edges: end parameters come out of scipy's L-BFGS-B on a V-shaped objective; control points
#                   relative to the chord (measured worst case 9.2e-9 over 3000 cases), length 10 x that (1.4e-8)
COPY_TOL = 1e-12  # a deep copy must reproduce the geometry (same arithmetic on the same numbers)

SWAP = [4, 5, 6, 7, 0, 1, 2, 3]  # Operation.mirror() swaps bottom and top face
IDENT = list(range(8))
PAIRS12 = [(0, 1), (1, 2), (3, 2), (0, 3), (4, 5), (5, 6), (7, 6), (4, 7), (0, 4), (1, 5), (2, 6), (3, 7)]
ARC_KINDS = ("arc", "origin", "angle")
PT_KINDS = ("spline", "polyLine")


def fl(lo: float, hi: float):
    return st.floats(lo, hi, allow_nan=False, allow_infinity=False)


def nrm(v) -> float:
    return float(np.linalg.norm(np.asarray(v, dtype=float)))


# --------------------------------------------------------------------------------------------------
# G-GEOM: directions, origins, frames


@st.composite
def direction(draw):
    """a direction vector: general (5 of 6) or axis-aligned, unit or clearly non-unit (|v| in [0.3, 0.8] or [1.25, 5])"""
    if draw(st.integers(0, 5)) == 0:
        v = [0.0, 0.0, 0.0]
        v[draw(st.integers(0, 2))] = float(draw(st.sampled_from([1, -1])))
    else:
        polar, azim = draw(fl(0.15, 2.99)), draw(fl(0.1, 6.18))
        v = [math.sin(polar) * math.cos(azim), math.sin(polar) * math.sin(azim), math.cos(polar)]
    mag = draw(st.one_of(st.just(1.0), fl(0.3, 0.8), fl(1.25, 5.0), fl(1.25, 5.0)))
    return [c * mag for c in v]


def is_unit(v) -> bool:
    return abs(nrm(v) - 1.0) < 1e-12


def is_aligned(v) -> bool:
    u = np.abs(rm.unit(v))
    return float(np.max(u)) > 1 - 1e-12


def point3(lim: float):
    return st.lists(fl(-lim, lim), min_size=3, max_size=3)


def point3_nz(lim: float):
    """a point away from the origin (Hypothesis favours zeros: a coordinate below 1e-3 is replaced)"""
    return st.lists(fl(-lim, lim), min_size=3, max_size=3).map(
        lambda v: [c if abs(c) > 1e-3 else 1.25 + 0.5 * i for i, c in enumerate(v)])


@st.composite
def frames(draw, size=(0.5, 3.0)):
    """placement of an entity that is defined in local coordinates: p -> o + size * R(ax, ang) p"""
    return {"o": draw(point3(5)), "ax": draw(direction()), "ang": draw(fl(-3.1, 3.1)), "size": draw(fl(*size))}


class Frame:
    def __init__(self, spec):
        self.R = rm.rodrigues(spec["ax"], spec["ang"])
        self.o = np.asarray(spec["o"], dtype=float)
        self.s = float(spec["size"])

    def p(self, local) -> np.ndarray:
        local = np.asarray(local, dtype=float)
        return self.o + self.s * (local @ self.R.T)

    def d(self, local) -> np.ndarray:
        """direction (rotated, not scaled, not displaced)"""
        return np.asarray(local, dtype=float) @ self.R.T


# --------------------------------------------------------------------------------------------------
# transformation cases

TKINDS = ("translate", "rotate", "scale", "mirror")


@st.composite
def origins(draw, allow_none: bool, none_weight: int = 1):
    """mostly a general point away from 0; sometimes exactly 0; the default origin where it is well defined"""
    k = draw(st.integers(0, 11))
    if k == 0:
        return [0.0, 0.0, 0.0]
    if k > 11 - none_weight and allow_none:
        return None
    if k in (1, 2):
        # one of the entity's own stored points, passed exactly as the library hands it out (see own_points)
        return {"own": draw(st.integers(0, 60))}
    return draw(point3_nz(10))


PRE = ["all", "get_point", "discretize", "length", "closest", "all", "none"]  # evaluations before a transformation


def touch_curve(curve, pre: str) -> None:
    """evaluates a curve (fills whatever the library caches for evaluation) the way a caller may have done already"""
    lo, hi = curve.bounds
    if pre in ("get_point", "all"):
        curve.get_point(lo)
    if pre in ("discretize", "all"):
        curve.discretize()
    if pre in ("length", "all"):
        _ = curve.length
    if pre in ("closest", "all"):
        curve.get_closest_param(curve.get_point(hi))


def touch_curves(ent, pre: str) -> int:
    """touch_curve for every curve found by walking .parts (OnCurve, Spline, PolyLine edge data hold one)"""
    from classy_blocks.construct.curves.curve import CurveBase
    from classy_blocks.construct.point import Point

    if pre == "none":
        return 0
    seen, found = set(), []

    def walk(e):
        if id(e) in seen or isinstance(e, Point):
            return
        seen.add(id(e))
        if isinstance(e, CurveBase):
            found.append(e)
            return
        for part in e.parts:
            walk(part)

    walk(ent)
    for curve in found:
        touch_curve(curve, pre)
    return len(found)


def own_points(ent) -> list:
    """The stored points of an entity as the library hands them out: Point.position of every point and the rows of
    every point array (what curve.get_point(i) / curve.array[i] of a DiscreteCurve, Spline or PolyLine return:
    numpy views), found by walking .parts"""
    from classy_blocks.construct.array import Array
    from classy_blocks.construct.point import Point

    out, seen = [], set()

    def walk(e):
        if id(e) in seen:
            return
        seen.add(id(e))
        if isinstance(e, Array):
            out.extend(e.points[i] for i in range(len(e.points)))
        elif isinstance(e, Point):
            out.append(e.position)
        else:
            for part in e.parts:
                walk(part)

    walk(ent)
    return out


@st.composite
def tf_one(draw, kind: str, default_origin_ok: bool, composed: bool = False, via: Optional[str] = None):
    via = via or draw(st.sampled_from(["m", "l"]))
    nw = 3 if composed else 1  # default origins in the middle of a sequence: the center has moved by then
    # a transform([...]) call may be issued twice with the same transformation objects (the flag of the first element
    # of a call counts); kept away from extreme total ratios
    twice = via == "l" and draw(st.integers(0, 3)) == 0
    if kind == "translate":
        return {"k": kind, "via": via, "twice": twice, "d": draw(st.one_of(point3_nz(10), point3_nz(10), point3(10)))}
    if kind == "rotate":
        ang = draw(fl(0.05, 6.2)) * draw(st.sampled_from([1, -1]))
        return {"k": kind, "via": via, "twice": twice, "angle": ang, "axis": draw(direction()), "origin": draw(origins(default_origin_ok, nw))}
    if kind == "scale":
        lim = math.log(2.0) if composed else math.log(5.0)
        ratio = math.exp(draw(fl(-lim, lim)))
        if not composed and draw(st.integers(0, 2)) == 0:
            ratio = draw(st.sampled_from([1e-3, 1e3, 1e-3, 1e-2, 1e2]))  # unit conversions (mm <-> m, cm <-> m)
        return {"k": kind, "via": via, "twice": twice and 0.3 < ratio < 3, "ratio": ratio, "origin": draw(origins(default_origin_ok, nw))}
    if kind == "mirror":
        # origin None is documented as [0, 0, 0] for every class
        return {"k": kind, "via": via, "twice": twice, "normal": draw(direction()), "origin": draw(origins(True))}
    raise ValueError(kind)


@st.composite
def list_of_default_origins(draw):
    """one transform([...]) call of three items: a default-origin Rotation/Scaling, an item that moves the center
    (a Translation, or a Rotation/Scaling about a far explicit origin), another default-origin Rotation/Scaling:
    the second default origin is the center as it is by then"""
    def centred(kind):
        t = draw(tf_one(kind, False, composed=True, via="l"))
        t["origin"] = None
        return t

    first = centred(draw(st.sampled_from(["rotate", "scale"])))
    last = centred(draw(st.sampled_from(["rotate", "scale"])))
    kind = draw(st.sampled_from(["translate", "rotate", "scale"]))
    mover = draw(tf_one(kind, False, composed=True, via="l"))
    if kind == "translate":
        mover["d"] = [c if abs(c) > 0.5 else 2.5 for c in mover["d"]]
    else:
        mover["origin"] = [c + (6.0 if c >= 0 else -6.0) for c in draw(point3(4))]  # |origin| >= 6 per coordinate
        if kind == "scale" and abs(mover["ratio"] - 1) < 0.2:
            mover["ratio"] = 1.5
    return [first, mover, last]


@st.composite
def tf_list(draw, tkind: str, default_origin_ok: bool):
    if tkind in TKINDS:
        return [draw(tf_one(tkind, default_origin_ok))]
    if tkind == "compose":
        if default_origin_ok and draw(st.integers(0, 3)) == 0:
            return draw(list_of_default_origins())
        n = draw(st.integers(2, 3))
        via = draw(st.sampled_from([None, None, "l", "m"]))  # mixed | one transform([...]) call | chained methods
        return [draw(tf_one(draw(st.sampled_from(TKINDS)), default_origin_ok, composed=True, via=via)) for _ in range(n)]
    if tkind == "copy":
        return [draw(tf_one(draw(st.sampled_from(TKINDS)), default_origin_ok))]
    raise ValueError(tkind)


def tf_matrix(t: dict, center) -> Tuple[np.ndarray, float, int]:
    """R-AFFINE map of one step; `center` = the entity's centre read just before the step (default origin)"""
    k = t["k"]
    if k == "translate":
        return rm.m_translate(t["d"]), 1.0, 0
    if k == "rotate":
        o = center if t["origin"] is None else t["origin"]
        return rm.m_rotate(t["angle"], t["axis"], o), 1.0, 0
    if k == "scale":
        o = center if t["origin"] is None else t["origin"]
        return rm.m_scale(t["ratio"], o), abs(t["ratio"]), 0
    o = [0.0, 0.0, 0.0] if t["origin"] is None else t["origin"]
    return rm.m_mirror(t["normal"], o), 1.0, 1


class Applied:
    """result of applying a transformation list with the library: the reference map and facts about it"""

    def __init__(self) -> None:
        self.M = np.eye(4)
        self.s = 1.0
        self.parity = 0
        self.mirrors = 0
        self.normals_unit = True
        self.default_origin = False
        self.own_origin = False
        self.reused = False
        self.list_mirrors = 0  # Mirror elements executed by transform([...]) calls, repeats included
        self.kinds: List[str] = []
        self.vias: List[str] = []


def _arr(x):
    return None if x is None else np.array(x, dtype=float)


def apply_tf(ent, tf: List[dict], facts: dict, center_covariant: bool = True) -> Applied:
    """Applies the steps to `ent` through the library (by method or as transform([...]) groups of consecutive
    'l' steps), with numpy arrays as arguments; checks that the arrays are left bit-identical."""
    out = Applied()
    i = 0
    while i < len(tf):
        group = [tf[i]]
        if tf[i]["via"] == "l":
            while i + len(group) < len(tf) and tf[i + len(group)]["via"] == "l":
                nxt = tf[i + len(group)]
                if not center_covariant and nxt["k"] in ("rotate", "scale") and nxt["origin"] is None:
                    break  # its default origin has to be read just before the step (see below)
                if isinstance(nxt.get("origin"), dict):
                    break  # "about this point of the entity" means the point as it is when the call is made
                group.append(nxt)
        # origins that are the entity's own points: the very object the library hands out goes in as the argument, the
        # reference map uses its value at the time of the call
        own_args = {}
        resolved = []
        for j, t in enumerate(group):
            if isinstance(t.get("origin"), dict):
                pts = own_points(ent)
                view = pts[t["origin"]["own"] % len(pts)] if pts else np.array([1.0, 2.0, 3.0])
                own_args[j] = view
                t = dict(t, origin=[float(c) for c in view])
                out.own_origin = True
            resolved.append(t)
        group = resolved
        needs_center = any(t["k"] in ("rotate", "scale") and t["origin"] is None for t in group)
        args = []
        objs = []
        for t in group:
            k = t["k"]
            if k == "translate":
                a = {"d": _arr(t["d"])}
                objs.append(tr.Translation(a["d"]))
            elif k == "rotate":
                a = {"axis": _arr(t["axis"]), "origin": _arr(t["origin"])}
                objs.append(tr.Rotation(a["axis"], t["angle"], a["origin"]))
            elif k == "scale":
                a = {"origin": _arr(t["origin"])}
                objs.append(tr.Scaling(t["ratio"], a["origin"]))
            else:
                a = {"normal": _arr(t["normal"]), "origin": _arr(t["origin"])}
                objs.append(tr.Mirror(a["normal"], a["origin"]))
                out.normals_unit = out.normals_unit and is_unit(t["normal"])
            args.append(a)
        for j, view in own_args.items():
            args[j]["origin"] = view
            objs[j].origin = view
        keep = [{k: (None if v is None else v.copy()) for k, v in a.items()} for a in args]
        # a transformation list is plain data: the same objects may be used again (here: on the entity as it is after
        # the first call); every use is the affine map the list describes, default origins taken from the entity then
        reps = 2 if (group[0]["via"] == "l" and group[0].get("twice") and not own_args) else 1
        out.reused = out.reused or reps == 2
        for _rep in range(reps):
            center = None
            if needs_center:
                # documented default origin: the entity's center.  transform() re-reads it before every element of the
                # list; a center is a point of the entity, so after the first j elements it is their image of `center`
                # (not so for joints: JointBase.center is a corner of a top face, and mirroring swaps bottom and top)
                center = np.array(ent.center, dtype=float)
                if center.shape != (3,):
                    raise Violation("center-not-a-point", f"center is {center!r}", **facts)
                out.default_origin = True
            try:
                with warnings.catch_warnings():
                    warnings.simplefilter("ignore")
                    if group[0]["via"] == "l":
                        ent.transform(objs)
                    else:
                        t, a = group[0], args[0]
                        if t["k"] == "translate":
                            ent.translate(a["d"])
                        elif t["k"] == "rotate":
                            ent.rotate(t["angle"], a["axis"]) if a["origin"] is None else ent.rotate(t["angle"], a["axis"], a["origin"])
                        elif t["k"] == "scale":
                            ent.scale(t["ratio"]) if a["origin"] is None else ent.scale(t["ratio"], a["origin"])
                        else:
                            ent.mirror(a["normal"]) if a["origin"] is None else ent.mirror(a["normal"], a["origin"])
            except Violation:
                raise
            except Exception as ex:  # the property says transformations of valid entities succeed
                raise Violation(
                    "transform-raised", f"{[t['k'] for t in group]} via {group[0]['via']}: {type(ex).__name__}: {ex}",
                    error=type(ex).__name__, step=[t["k"] for t in group], **facts,
                ) from None
            for j, (t, a, b) in enumerate(zip(group, args, keep)):
                for name, v in a.items():
                    if j in own_args and name == "origin":
                        continue  # part of the entity: it may move with it
                    if v is not None and not np.array_equal(v, b[name]):
                        raise Violation(
                            "argument-mutated", f"{t['k']} (via {t['via']}) changed its '{name}' argument {b[name]} -> {v}",
                            step=t["k"], argument=name, **facts,
                        )
                if group[0]["via"] == "l":
                    # the transformation objects handed over still hold what they were given (None stays None)
                    obj = objs[j]
                    held = {"d": getattr(obj, "displacement", None), "axis": getattr(obj, "axis", None),
                            "normal": getattr(obj, "normal", None), "origin": getattr(obj, "origin", None)}
                    for name, v in a.items():
                        if held[name] is not v:
                            raise Violation(
                                "argument-mutated", f"transform() replaced the '{name}' of the {type(obj).__name__} object it was "
                                f"given: {v} -> {held[name]}", step=t["k"], argument="transformation." + name, **facts,
                            )
            within = np.eye(4)
            for t in group:
                m, s, par = tf_matrix(t, None if center is None else rm.apply(within, center))
                within = m @ within
                out.M = m @ out.M
                out.s *= s
                out.parity ^= par
                out.mirrors += par
                out.list_mirrors += par if t["via"] == "l" else 0
                out.kinds.append(t["k"])
                out.vias.append(t["via"])
        i += len(group)
    return out


def _step_nontrivial(t: dict) -> Tuple[bool, bool]:
    """(the step is away from the identity, the step is non-trivial by the rule of the property's design:
    origin != 0 and the axis/normal is non-unit or not axis-aligned; translations: d != 0; scale: ratio != 1)"""
    k = t["k"]
    if k == "translate":
        moved = nrm(t["d"]) > 1e-6
        return moved, moved
    o = t["origin"]
    off_origin = o is None or isinstance(o, dict) or nrm(o) > 1e-6
    if k == "scale":
        moved = abs(t["ratio"] - 1) > 1e-3
        return moved, moved and off_origin
    v = t["axis"] if k == "rotate" else t["normal"]
    return True, off_origin and (not is_unit(v) or not is_aligned(v))


def tf_nontrivial(tf: List[dict]) -> bool:
    """NT rule: no step is the identity and at least one step has origin != 0 with a non-unit or not axis-aligned
    axis/normal (translation: d != 0, scale: ratio != 1 about an origin != 0)."""
    flags = [_step_nontrivial(t) for t in tf]
    return all(a for a, _ in flags) and any(b for _, b in flags)


def tf_labels(tf: List[dict]) -> List[str]:
    out = []
    for t in tf:
        out.append("via=" + ("method" if t["via"] == "m" else "list"))
        if "origin" in t:
            o = t["origin"]
            out.append("origin=default" if o is None else "origin=own-point" if isinstance(o, dict) else
                       ("origin=0" if nrm(o) < 1e-6 else "origin!=0"))
        v = t.get("axis", t.get("normal"))
        if v is not None:
            out.append("dir=" + ("unit" if is_unit(v) else "non-unit") + ("/aligned" if is_aligned(v) else "/general"))
    if any(t["k"] == "scale" and not 0.1 < t["ratio"] < 10 for t in tf):
        out.append("ratio=unit-conversion")
    out.append(f"steps={len(tf)}")
    return out


# --------------------------------------------------------------------------------------------------
# curved edges between two given end points (specs are relative to the chord, so any placement is valid)


def chord_basis(a, b):
    a = np.asarray(a, dtype=float)
    b = np.asarray(b, dtype=float)
    c = b - a
    length = nrm(c)
    t = c / length
    e = np.eye(3)[int(np.argmin(np.abs(t)))]
    u = rm.unit(np.cross(t, e))
    v = np.cross(t, u)
    return a, c, length, t, u, v


def _off(spec_a: float, spec_phi: float, length, u, v):
    return length * spec_a * (math.cos(spec_phi) * u + math.sin(spec_phi) * v)


_phi = fl(0.0, 6.283)


@st.composite
def _rel_points(draw, nmin=2, nmax=5, amax=0.3):
    n = draw(st.integers(nmin, nmax))
    return [[(k + 1) / (n + 1), draw(fl(-amax, amax)), draw(_phi)] for k in range(n)]


def _abs_points(rel, a, c, length, u, v):
    return [a + c * r[0] + _off(r[1], r[2], length, u, v) for r in rel]


@st.composite
def curve_spec(draw, which: str):
    """a parametric curve that passes through the end points A and B (A first)"""
    if which == "line":
        return {"curve": "line", "extend": draw(st.booleans())}
    if which == "circle":
        return {"curve": "circle", "h": draw(fl(0.3, 1.5)) * draw(st.sampled_from([1, -1])), "phi": draw(_phi),
                "nmag": draw(st.sampled_from([1.0, 0.4, 3.0])), "margin": draw(fl(0.2, 0.8))}
    return {"curve": which, "pts": draw(_rel_points(2, 4)), "extend": draw(st.booleans()),
            "ext": [draw(fl(-0.2, 0.2)), draw(_phi)]}


def make_curve(spec, a, b):
    a, c, length, t, u, v = chord_basis(a, b)
    which = spec["curve"]
    if which == "line":
        return cb.LineCurve(a, b, (-0.3, 1.4)) if spec["extend"] else cb.LineCurve(a, b)
    if which == "circle":
        centre = a + c / 2 + _off(spec["h"], spec["phi"], length, u, v)
        r1, r3 = a - centre, b - centre
        normal = rm.unit(np.cross(r1, r3))
        theta = math.acos(max(-1.0, min(1.0, float(r1 @ r3) / (nrm(r1) * nrm(r3)))))
        return cb.CircleCurve(centre, a, normal * spec["nmag"], (0, theta + spec["margin"]))
    pts = [a, *_abs_points(spec["pts"], a, c, length, u, v), b]
    if spec["extend"]:
        e = _off(spec["ext"][0], spec["ext"][1], length, u, v)
        pts = [a - 0.35 * c + e, *pts, b + 0.35 * c - e]
    if which == "discrete":
        return cb.DiscreteCurve(pts)
    if which == "linear":
        return cb.LinearInterpolatedCurve(pts)
    if which == "splinei":
        return cb.SplineInterpolatedCurve(pts)
    raise ValueError(which)


CURVES = ("line", "circle", "discrete", "linear", "splinei")
EDGE_KINDS = ("arc", "origin", "angle", "spline", "polyline", "project", "oncurve")


@st.composite
def edge_spec(draw, kind: str):
    if kind == "arc":
        return {"kind": "arc", "along": draw(fl(0.3, 0.7)), "a": draw(fl(0.08, 0.6)), "phi": draw(_phi)}
    if kind == "origin":
        return {"kind": "origin", "h": draw(fl(0.3, 2.0)) * draw(st.sampled_from([1, -1])), "phi": draw(_phi),
                "delta": draw(st.one_of(st.just(0.0), st.just(0.0), fl(0.05, 0.2), fl(-0.2, -0.05))),
                "flat": draw(st.one_of(st.just(1), st.just(1.0), fl(0.7, 3.0)))}
    if kind == "angle":
        theta = draw(st.one_of(fl(0.2, 2.8), fl(0.2, 2.8), fl(3.4, 5.5))) * draw(st.sampled_from([1, -1]))
        # the axis is perpendicular to the chord (a rotation about an axis, as Revolve produces it)
        return {"kind": "angle", "theta": theta, "phi": draw(_phi), "mag": draw(st.sampled_from([1.0, 0.5, 2.5]))}
    if kind in ("spline", "polyline"):
        return {"kind": kind, "pts": draw(_rel_points())}
    if kind == "project":
        return {"kind": "project", "labels": draw(st.sampled_from([["terrain"], ["terrain", "wall"], ["a"]]))}
    if kind == "oncurve":
        which = draw(st.sampled_from(CURVES))
        return {"kind": "oncurve", "n": draw(st.integers(2, 6)), "repr": draw(st.sampled_from(["spline", "polyLine"])),
                **draw(curve_spec(which))}
    raise ValueError(kind)


def make_edge(spec, a, b):
    if spec is None:
        return None
    kind = spec["kind"]
    if kind == "project":
        return cb.Project(list(spec["labels"]) if len(spec["labels"]) > 1 else spec["labels"][0])
    if kind == "oncurve":
        return cb.OnCurve(make_curve(spec, a, b), spec["n"], spec["repr"])
    a, c, length, t, u, v = chord_basis(a, b)
    if kind == "arc":
        return cb.Arc(a + c * spec["along"] + _off(spec["a"], spec["phi"], length, u, v))
    if kind == "origin":
        return cb.Origin(a + c / 2 + _off(spec["h"], spec["phi"], length, u, v) + t * length * spec["delta"], spec["flat"])
    if kind == "angle":
        axis = (math.cos(spec["phi"]) * u + math.sin(spec["phi"]) * v) * spec["mag"]
        return cb.Angle(spec["theta"], axis)
    pts = _abs_points(spec["pts"], a, c, length, u, v)
    return cb.Spline(pts) if kind == "spline" else cb.PolyLine(pts)


def spec_curved(spec) -> bool:
    """the edge has a shape of its own (a projected edge has none in the model: it counts as carried)"""
    return spec is not None and not (spec["kind"] == "oncurve" and spec["curve"] == "line")


# --------------------------------------------------------------------------------------------------
# quadrilaterals and hexahedra in general position (local coordinates, placed by a Frame)

_SQ = [(-0.5, -0.5), (0.5, -0.5), (0.5, 0.5), (-0.5, 0.5)]


@st.composite
def quad_local(draw, z: float = 0.0, jitter: float = 0.12):
    sx, sy = draw(fl(0.6, 1.8)), draw(fl(0.6, 1.8))
    j = fl(-jitter, jitter)
    return [[x * sx + draw(j), y * sy + draw(j), z + draw(j)] for x, y in _SQ]


# --------------------------------------------------------------------------------------------------
# output geometry of a list of mesh-addable entities after Mesh.assemble()


def _lab(label: str) -> str:
    """Hemisphere names its geometry after id(self): not comparable between two builds"""
    return re.sub(r"sphere_\d+", "sphere_N", label)


class Geo:
    def __init__(self) -> None:
        self.pos: List[np.ndarray] = []  # per block: (8, 3)
        self.proj: List[List[List[str]]] = []  # per block, per corner: labels
        self.wires: List[Dict[frozenset, Tuple[str, float]]] = []  # per block: corners -> (kind, length)
        self.edges: Dict[Tuple[int, frozenset], dict] = {}  # first location -> record
        self.faces: List[Tuple[np.ndarray, str]] = []  # projected sides: (4 corner positions, label)
        self.extent = 1.0


def geo_of(addables, facts: dict, what: str) -> Geo:
    mesh = cb.Mesh()
    for a in addables:
        mesh.add(a)
    g = Geo()
    try:
        with warnings.catch_warnings():
            warnings.simplefilter("ignore")
            mesh.assemble()
            seen = set()
            lengths: Dict[int, float] = {}  # OnCurve lengths cost four scipy minimisations each: once per edge object
            for bi, block in enumerate(mesh.blocks):
                g.pos.append(np.array([v.position for v in block.vertices], dtype=float))
                g.proj.append([sorted(_lab(lb) for lb in v.projected_to) for v in block.vertices])
                wires = {}
                for c1, c2 in PAIRS12:
                    e = block.wires[c1][c2].edge
                    if id(e) not in lengths:
                        lengths[id(e)] = float(e.length)
                    wires[frozenset((c1, c2))] = (e.kind, lengths[id(e)])
                    if e.kind == "line" or id(e) in seen:
                        continue
                    seen.add(id(e))
                    rec = {"kind": e.kind, "loc": "side" if abs(c1 - c2) == 4 else "face", "block": bi,
                           "corners": sorted((c1, c2)), "v1": np.array(e.vertex_1.position), "v2": np.array(e.vertex_2.position),
                           "length": lengths[id(e)], "valid": bool(e.is_valid)}
                    if e.kind in ARC_KINDS:
                        rec["third"] = np.array(e.third_point.position, dtype=float)
                        if e.kind == "angle":
                            rec["axis"] = np.array(e.data.axis.components, dtype=float)
                            rec["angle"] = float(e.data.angle)
                    elif e.kind in PT_KINDS or e.kind == "curve":
                        rec["pts"] = np.array(e.point_array, dtype=float)
                        rec["repr"] = e.representation
                        rec["curve_type"] = type(e.data.curve).__name__
                    elif e.kind == "project":
                        rec["labels"] = [_lab(lb) for lb in e.data.label]
                    g.edges[(bi, frozenset((c1, c2)))] = rec
                g.wires.append(wires)
            for pf in mesh.face_list.faces:
                g.faces.append((np.array([v.position for v in pf.side.vertices], dtype=float), _lab(pf.label)))
    except Violation:
        raise
    except Exception as ex:
        if what == "base":
            raise  # the untransformed entity must assemble: otherwise the generator is wrong (harness error)
        raise Violation("assemble-raised", f"assembling the {what} entity: {type(ex).__name__}: {ex}",
                        error=type(ex).__name__, **facts) from None
    if g.pos:
        g.extent = float(max(1.0, max(np.max(np.abs(p)) for p in g.pos)))
    return g


class Disc:
    """one discrepancy between G(T x) and M_T(G(x))"""

    def __init__(self, kind: str, msg: str, cause: Optional[str] = None, **facts):
        self.kind = kind
        self.msg = msg
        self.cause = cause  # set when the facts pin the discrepancy to one narrow, separately listed root cause
        self.facts = facts


def _maxerr(a: np.ndarray, b: np.ndarray) -> float:
    return float(np.max(np.linalg.norm(a - b, axis=-1))) if a.shape == b.shape and a.size else float("inf")


def compare(g0: Geo, g1: Geo, ap: Applied, shared: Optional[set] = None, pos_tol: float = POS_TOL,
            len_tol: float = LEN_TOL) -> Tuple[List[Disc], List[str]]:
    """All discrepancies between g1 and the image of g0 under ap.M (lengths x ap.s); labels for the evidence.
    `shared`: (block, corner) pairs whose Point object belongs to more than one operation of the entity."""
    M, s = ap.M, ap.s
    out: List[Disc] = []
    labels: List[str] = []
    if len(g0.pos) != len(g1.pos):
        return [Disc("block-count", f"{len(g0.pos)} blocks before, {len(g1.pos)} after")], labels
    # relative to the coordinates of the transformed geometry (its image under M and what the library produced)
    ext = max([float(np.max(np.abs(rm.apply(M, p)))) for p in g0.pos] + [float(np.max(np.abs(p))) for p in g1.pos] + [0.0])
    tol = pos_tol * (1 + ext)
    maps: List[List[int]] = []
    bad_all: List[Tuple[int, int]] = []  # (block, corner) in the numbering of g1
    bad_orig: List[Tuple[int, int]] = []  # the same corners in the numbering of g0
    worst = 0.0
    for bi, (p0, p1) in enumerate(zip(g0.pos, g1.pos)):
        ref = rm.apply(M, p0)
        # every Operation.mirror() swaps bottom and top, a Mirror in Operation.transform([...]) does not
        cands = [IDENT] + ([SWAP] if ap.mirrors else [])
        best = None
        for mp in cands:
            err = np.linalg.norm(p1 - ref[mp], axis=1)
            bad = [i for i in range(8) if err[i] > tol]
            if best is None or len(bad) < len(best[1]):
                best = (mp, bad, float(np.max(err)))
        maps.append(best[0])
        if ap.mirrors:
            labels.append("numbering=swapped" if best[0] is SWAP else "numbering=kept")
        bad_all.extend((bi, i) for i in best[1])
        bad_orig.extend((bi, best[0][i]) for i in best[1])
        if best[1]:
            worst = max(worst, best[2])
    if bad_all:
        only_shared = bool(shared) and all(bc in shared for bc in bad_orig)
        out.append(Disc(
            "vertex-moved", f"{len(bad_all)} corners are not at the image of the original corner (worst {worst:.3g}); "
            f"first (block, corner) = {bad_all[0]}", cause="shared-face-object" if only_shared else None,
            corners=[list(x) for x in bad_all[:12]], only_shared_points=only_shared, worst=worst,
        ))
    badset = set(bad_all)
    for bi in range(len(g0.pos)):
        mp = maps[bi]
        for i in range(8):
            if g1.proj[bi][i] != g0.proj[bi][mp[i]]:
                out.append(Disc("projection-changed", f"block {bi} corner {i}: {g0.proj[bi][mp[i]]} -> {g1.proj[bi][i]}"))
                break
        for c1, c2 in PAIRS12:
            if (bi, c1) in badset or (bi, c2) in badset:
                continue
            k1, l1 = g1.wires[bi][frozenset((c1, c2))]
            k0, l0 = g0.wires[bi][frozenset((mp[c1], mp[c2]))]
            if k0 == "line" and k1 == "line" and abs(l1 - s * l0) > len_tol * s * l0 + 1e-12:
                out.append(Disc("edge-length", f"block {bi} line {c1}-{c2}: length {l1} != {s} * {l0}", edge_kind="line"))
    # projected sides: the same label on the same four corners (as a set of positions)
    if not bad_all:
        want = [(lab, rm.apply(M, pts)) for pts, lab in g0.faces]
        got = [(lab, pts) for pts, lab in g1.faces]
        if len(want) != len(got):
            out.append(Disc("projection-changed", f"{len(g0.faces)} projected sides before, {len(g1.faces)} after"))
        else:
            used = set()
            for lab, pts in want:
                hit = None
                for j, (lab1, pts1) in enumerate(got):
                    if j in used or lab1 != lab:
                        continue
                    d = np.linalg.norm(pts[:, None, :] - pts1[None, :, :], axis=2)
                    if np.all(d.min(axis=1) <= tol) and np.all(d.min(axis=0) <= tol):
                        hit = j
                        break
                if hit is None:
                    out.append(Disc("projection-changed", f"the side projected to '{lab}' at {pts.tolist()} is not projected after"))
                    break
                used.add(hit)
    # curved edges, matched by location
    e1map = {}
    for (bi, cs), rec in g1.edges.items():
        e1map[(bi, frozenset(maps[bi][c] for c in cs))] = rec
    for key in sorted(set(g0.edges) | set(e1map), key=lambda k: (k[0], sorted(k[1]))):
        r0, r1 = g0.edges.get(key), e1map.get(key)
        swapped = maps[key[0]] is SWAP
        if r0 is None or r1 is None:
            if bad_all:
                continue  # moved vertices change which blocks share an edge object; vertex-moved is reported already
            r = r0 or r1
            out.append(Disc("edge-set-changed", f"block {key[0]} corners {sorted(key[1])}: curved edge of kind {r['kind']} "
                            f"{'disappeared' if r1 is None else 'appeared'}", edge_kind=r["kind"], edge_loc=r["loc"]))
            continue
        d = _compare_edge(r0, r1, ap, tol, swapped, len_tol)
        if d is not None:
            out.append(d)
    return out, labels


def _compare_edge(r0: dict, r1: dict, ap: Applied, tol: float, swapped: bool, len_tol: float) -> Optional[Disc]:
    M, s = ap.M, ap.s
    kind = r0["kind"]
    base = {"edge_kind": kind, "edge_loc": r0["loc"], "swapped": swapped, "block": r0["block"], "corners": r0["corners"],
            "curve_type": r0.get("curve_type")}
    where = f"block {r0['block']} edge {r0['corners']} ({kind}, {r0['loc']})"
    if r1["kind"] != kind:
        return Disc("edge-kind-changed", f"{where}: kind {kind} -> {r1['kind']}", **base)
    a, b = rm.apply(M, r0["v1"]), rm.apply(M, r0["v2"])
    if nrm(r1["v1"] - a) <= tol and nrm(r1["v2"] - b) <= tol:
        rev = False
    elif nrm(r1["v1"] - b) <= tol and nrm(r1["v2"] - a) <= tol:
        rev = True
    else:
        return None  # end points moved: reported as vertex-moved
    if r0["valid"] != r1["valid"]:
        return Disc("edge-validity-changed", f"{where}: is_valid {r0['valid']} -> {r1['valid']}", **base)
    if kind in ARC_KINDS and r0["valid"]:
        third = rm.apply(M, r0["third"])
        try:
            centre, radius, normal = rm.circle_3pt(a, third, b)
        except ValueError:
            return None
        p = r1["third"]
        off_r = abs(nrm(p - centre) - radius)
        off_n = abs(float((p - centre) @ normal))
        side = np.cross(normal, b - a)
        same_side = float((p - a) @ side) * float((third - a) @ side) > 0
        if off_r > ARC_TOL * radius + tol or off_n > ARC_TOL * radius + tol or not same_side:
            return Disc(
                "arc-shape", f"{where}: third point {p} is {'on the other side of the chord' if not same_side else 'off the circle'}"
                f" (image of the original arc: centre {centre}, radius {radius:.6g}, through {third}; radial error {off_r:.3g}, "
                f"out of plane {off_n:.3g})", radial_error=off_r, same_side=bool(same_side), **base,
            )
        if kind == "angle":
            want = rm.unit(rm.apply_dir(M, r0["axis"]))
            got = rm.unit(r1["axis"])  # a direction: its magnitude is not judged here (the arc shape above is)
            err = min(nrm(got - want), nrm(got + want)) if ap.mirrors else nrm(got - want)
            if err > DIR_TOL:
                return Disc("axis-direction", f"{where}: axis {got} is not the rotated/reflected axis {want}", axis_error=err, **base)
    elif kind in PT_KINDS or kind == "curve":
        ref = rm.apply(M, r0["pts"])
        if rev:
            ref = ref[::-1]
        ptol = tol if kind in PT_KINDS else CURVE_TOL * nrm(b - a)
        if r1["pts"].shape != ref.shape or _maxerr(r1["pts"], ref) > ptol:
            if r1["pts"].shape == ref.shape and _maxerr(r1["pts"], ref[::-1]) <= ptol:
                return Disc("point-order-reversed", f"{where}: control points run from the edge's second vertex to its first", **base)
            return Disc("control-points", f"{where}: control points differ from the image of the original ones by "
                        f"{_maxerr(r1['pts'], ref) if r1['pts'].shape == ref.shape else 'shape'} (first {r1['pts'][0]} vs {ref[0]})",
                        **base)
        if r1["repr"] != r0["repr"]:
            return Disc("edge-kind-changed", f"{where}: representation {r0['repr']} -> {r1['repr']}", **base)
    elif kind == "project":
        if r0["labels"] != r1["labels"]:
            return Disc("projection-changed", f"{where}: labels {r0['labels']} -> {r1['labels']}", **base)
    ltol = len_tol if kind != "curve" else 10 * CURVE_TOL
    if abs(r1["length"] - s * r0["length"]) > ltol * s * r0["length"] + 1e-12:
        cause = None
        if kind in ARC_KINDS and rev and r0["valid"]:
            # arc_length_3point (a transcription of OpenFOAM's test) depends on the direction of a reflex arc whose
            # third point lies more than pi from the start: the same arc, reversed by Operation.invert, gets another length
            try:
                if rm.arc_angle_through(r0["v1"], r0["third"], r0["v2"])[0] > math.pi:
                    cause = "reflex-arc-length-depends-on-direction"
            except ValueError:
                pass
        return Disc("edge-length", f"{where}: length {r1['length']} != {s} * {r0['length']}", cause=cause, reversed=rev, **base)
    return None


def raise_first(discs: List[Disc], facts: dict) -> None:
    """Raises the first discrepancy; those pinned to a separately listed root cause come last, so that they can
    never hide another failure of the same case."""
    if not discs:
        return
    discs = sorted(discs, key=lambda d: d.cause is not None)  # stable
    d = discs[0]
    f = dict(facts)
    f.update(d.facts)
    f["cause"] = d.cause
    f["n_discrepancies"] = len(discs)
    raise Violation(d.kind, d.msg, **f)


def arc_crosses(g: Geo) -> List[float]:
    """|arm1 x arm2| of every arc edge: the library drops an arc as collinear when this is below TOL = 1e-7"""
    return [nrm(np.cross(r["v1"] - r["third"], r["v2"] - r["third"])) for r in g.edges.values() if r["kind"] in ARC_KINDS]


def near_tol(g: Geo, s: float) -> bool:
    """some arc or vertex distance is, before or after scaling by s, within 100 x of the library's absolute TOL"""
    for c in arc_crosses(g):
        if 1e-9 < c < 1e-5 or 1e-9 < c * s * s < 1e-5:
            return True
    return min_separation(g) * min(1.0, s) < 1e-5


def cap_scale(tf: List[dict], g: Geo) -> Tuple[List[dict], bool]:
    """A single down-scaling step is capped so that the scaled entity keeps clear (100 x) of the library's absolute
    TOL = 1e-7 (vertex merging, collinearity test of arcs); returns (steps, capped?)"""
    if len(tf) != 1 or tf[0]["k"] != "scale" or tf[0]["ratio"] >= 1:
        return tf, False
    arcs = [c for c in arc_crosses(g) if c >= 1e-5]
    need = max(math.sqrt(1e-5 / min(arcs)) if arcs else 0.0, 1e-5 / min_separation(g))
    need = min(1.0, 1.05 * need)
    if tf[0]["ratio"] >= need:
        return tf, False
    return [dict(tf[0], ratio=need)], True


def min_separation(g: Geo) -> float:
    pts = np.concatenate(g.pos) if g.pos else np.zeros((0, 3))
    if len(pts) < 2:
        return float("inf")
    d = np.linalg.norm(pts[:, None, :] - pts[None, :, :], axis=2)
    d = d[d > 1e-7]
    return float(d.min()) if d.size else float("inf")


# --------------------------------------------------------------------------------------------------
# entity catalogue


class Ent:
    """name, params strategy, build(params) -> fresh entity, prep(entity, params) -> aux (on the untransformed
    entity), realize(entity, M, aux) -> mesh-addable list (M = harness map for harness-built companions)"""

    def __init__(self, name: str, family: str, strategy, build: Callable, realize: Optional[Callable] = None,
                 prep: Optional[Callable] = None, default_origin_ok: bool = True, curved: Callable = lambda p: True,
                 quick: int = 30, labels: Callable = lambda p: [], center_covariant: bool = True):
        self.name = name
        self.family = family
        self.strategy = strategy
        self.build = build
        self.realize = realize or (lambda ent, M, aux: [ent])
        self.prep = prep or (lambda ent, params: None)
        self.default_origin_ok = default_origin_ok
        self.curved = curved
        self.quick = quick
        self.labels = labels
        self.center_covariant = center_covariant


ENTS: Dict[str, Ent] = {}


def _reg(e: Ent) -> None:
    assert e.name not in ENTS
    ENTS[e.name] = e


def operations_of(addables) -> List[Any]:
    ops = []
    for a in addables:
        ops.extend([a] if isinstance(a, cb.Operation) else a.operations)
    return ops


def shared_corners(addables) -> set:
    """(block, corner) whose Point object is used by more than one operation"""
    owners: Dict[int, List[Tuple[int, int]]] = {}
    for bi, op in enumerate(operations_of(addables)):
        for ci, p in enumerate(op.points):
            owners.setdefault(id(p), []).append((bi, ci))
    out = set()
    for lst in owners.values():
        if len({b for b, _ in lst}) > 1:
            out.update(lst)
    return out


# ---- single face with one kind of edge; edge data alone -------------------------------------------


_PLABELS = [[], [], ["terrain"], ["wall", "terrain"], ["geo"]]
SIDES = ["bottom", "top", "front", "right", "back", "left"]


@st.composite
def face_proj(draw):
    """projections of a face: per-corner labels (Point.project) and Face.project(label, points=...)"""
    return {"pp": [draw(st.sampled_from(_PLABELS)) for _ in range(4)],
            "fp": draw(st.sampled_from([None, None, {"label": "geo", "points": False}, {"label": "geo", "points": True}]))}


def apply_face_proj(face, pr) -> None:
    if not pr:
        return
    for i, labs in enumerate(pr["pp"]):
        for lb in labs:
            face.points[i].project(lb)
    if pr["fp"]:
        face.project(pr["fp"]["label"], edges=False, points=pr["fp"]["points"])


@st.composite
def op_proj(draw):
    """projections of an operation: project_corner and project_side(..., points=...)"""
    nc, ns = draw(st.integers(0, 3)), draw(st.integers(0, 2))
    return {"corners": [[draw(st.integers(0, 7)), draw(st.sampled_from(["terrain", "wall"]))] for _ in range(nc)],
            "sides": [[draw(st.sampled_from(SIDES)), draw(st.sampled_from(["geo", "terrain"])), draw(st.booleans())] for _ in range(ns)]}


def apply_op_proj(op, pr) -> None:
    if not pr:
        return
    for corner, label in pr["corners"]:
        op.project_corner(corner, label)
    for side, label, points in pr["sides"]:
        op.project_side(side, label, edges=False, points=points)


def proj_labels(pr) -> List[str]:
    if not pr:
        return []
    out = []
    if any(pr.get("pp", [])) or pr.get("corners") or any(s[2] for s in pr.get("sides", [])) or (pr.get("fp") or {}).get("points"):
        out.append("projected-corner")
    if pr.get("fp") or pr.get("sides"):
        out.append("projected-side")
    return out


@st.composite
def face_params(draw, kind: Optional[str]):
    p = {"frame": draw(frames()), "quad": draw(quad_local()), "edges": [None, None, None, None], "proj": draw(face_proj())}
    if kind == "mixed":
        kinds = draw(st.permutations(EDGE_KINDS))[:4]
        for i in range(4):
            p["edges"][i] = draw(edge_spec(kinds[i]))
    elif kind is not None:
        i = draw(st.integers(0, 3))
        p["edges"][i] = draw(edge_spec(kind))
        if draw(st.integers(0, 3)) == 0:
            p["edges"][(i + 2) % 4] = draw(edge_spec(kind))
    return p


def _face_world(params):
    fr = Frame(params["frame"])
    P = fr.p(params["quad"])
    top = P + fr.d([0, 0, 1]) * fr.s * 0.8
    return fr, P, top


def build_face(params):
    fr, P, top = _face_world(params)
    face = cb.Face(P, [make_edge(params["edges"][i], P[i], P[(i + 1) % 4]) for i in range(4)])
    apply_face_proj(face, params.get("proj"))
    return face


def prep_face(ent, params):
    return {"top": _face_world(params)[2]}


def realize_face(face, M, aux):
    return [cb.Loft(face, cb.Face(rm.apply(M, aux["top"])))]


def _face_curved(p):
    return any(spec_curved(e) for e in p["edges"]) or all(e is None for e in p["edges"])  # face-line: no edge by design


def _edge_labels(specs) -> List[str]:
    out = []
    for e in specs:
        if e is None:
            continue
        out.append("edge=" + (e["kind"] if e["kind"] != "oncurve" else "oncurve-" + e["curve"]))
        if e["kind"] == "angle" and abs(e["theta"]) > math.pi:
            out.append("angle=reflex")
        if e["kind"] == "origin" and (e["flat"] != 1 or e["delta"] != 0):
            out.append("origin=adjusted")
    return out


for _k in [None, *EDGE_KINDS, "mixed"]:
    _reg(Ent(f"face-{_k or 'line'}", "face", face_params(_k), build_face, realize_face, prep_face,
             curved=_face_curved, quick=18 if _k in ("oncurve", "mixed") else 28, labels=lambda p: ["closing-edge"] * (p["edges"][3] is not None) + _edge_labels(p["edges"]) + proj_labels(p.get("proj"))))


@st.composite
def edge_params(draw, kind: str):
    return {"frame": draw(frames()), "quad": draw(quad_local()), "i": draw(st.integers(0, 3)), "edge": draw(edge_spec(kind))}


def build_edge(params):
    fr = Frame(params["frame"])
    P = fr.p(params["quad"])
    i = params["i"]
    return make_edge(params["edge"], P[i], P[(i + 1) % 4])


def prep_edge(ent, params):
    fr = Frame(params["frame"])
    P = fr.p(params["quad"])
    return {"P": P, "top": P + fr.d([0, 0, 1]) * fr.s * 0.8, "i": params["i"]}


def realize_edge(data, M, aux):
    edges = [None, None, None, None]
    edges[aux["i"]] = data
    return [cb.Loft(cb.Face(rm.apply(M, aux["P"]), edges), cb.Face(rm.apply(M, aux["top"])))]


for _k in EDGE_KINDS:
    _reg(Ent(f"edge-{_k}", "edge", edge_params(_k), build_edge, realize_edge, prep_edge, default_origin_ok=False,
             curved=lambda p: spec_curved(p["edge"]), quick=18 if _k == "oncurve" else 28,
             labels=lambda p: ["closing-edge"] * (p["i"] == 3) + _edge_labels([p["edge"]])))


# ---- operations ----------------------------------------------------------------------------------


@st.composite
def loft_params(draw, kind: str):
    p = {"frame": draw(frames()), "bottom": draw(quad_local(-0.5)), "top": draw(quad_local(0.5)),
         "edges": [None] * 12, "proj": draw(op_proj())}
    n = draw(st.integers(1, 4))
    where = draw(st.permutations(list(range(12))))[:n]
    for w in where:
        p["edges"][w] = draw(edge_spec(kind))
    return p


def build_loft(params):
    fr = Frame(params["frame"])
    B, T = fr.p(params["bottom"]), fr.p(params["top"])
    e = params["edges"]
    bottom = cb.Face(B, [make_edge(e[i], B[i], B[(i + 1) % 4]) for i in range(4)])
    top = cb.Face(T, [make_edge(e[4 + i], T[i], T[(i + 1) % 4]) for i in range(4)])
    loft = cb.Loft(bottom, top)
    for i in range(4):
        if e[8 + i] is not None:
            loft.add_side_edge(i, make_edge(e[8 + i], B[i], T[i]))
    apply_op_proj(loft, params.get("proj"))
    return loft


def _loft_labels(p):
    out = _edge_labels(p["edges"]) + proj_labels(p.get("proj"))
    if any(x is not None for x in p["edges"][:8]):
        out.append("curved-face-edge")
    if any(x is not None for x in p["edges"][8:]):
        out.append("curved-side-edge")
    return out


for _k in EDGE_KINDS:
    _reg(Ent(f"loft-{_k}", "op", loft_params(_k), build_loft, curved=lambda p: any(spec_curved(e) for e in p["edges"]),
             quick=14 if _k == "oncurve" else 28, labels=_loft_labels))


@st.composite
def extrude_params(draw):
    p = draw(face_params(draw(st.sampled_from(["arc", "origin", "spline", "oncurve", "angle", "project"]))))
    p["amount"] = draw(st.one_of(fl(0.3, 2.0), point3(2).filter(lambda v: abs(v[2]) > 0.3)))
    return p


def build_extrude(params):
    face = build_face(params)
    amount = params["amount"]
    if isinstance(amount, list):
        amount = Frame(params["frame"]).d(amount)
    return cb.Extrude(face, amount)


_reg(Ent("extrude", "op", extrude_params(), build_extrude, curved=_face_curved, quick=24,
         labels=lambda p: _edge_labels(p["edges"]) + proj_labels(p.get("proj"))))


@st.composite
def revolve_params(draw, wedge: bool = False):
    # cross-section in the local x-y plane at y > 0, revolved about the local x axis (shifted)
    quad = [[x * 1.2 + draw(fl(-0.1, 0.1)), 1.2 + y * 0.9 + draw(fl(-0.1, 0.1)), 0.0] for x, y in _SQ]
    p = {"frame": draw(frames()), "quad": quad, "edges": [None] * 4,
         "angle": draw(fl(0.2, 1.5)) * (1 if wedge else draw(st.sampled_from([1, -1]))),
         "axis_mag": draw(st.sampled_from([1.0, 0.5, 3.0])), "shift": draw(fl(-1, 1)), "proj": draw(face_proj())}
    if draw(st.booleans()):
        i = draw(st.integers(0, 3))
        p["edges"][i] = draw(edge_spec(draw(st.sampled_from(["arc", "spline", "origin"]))))
    return p


def build_revolve(params):
    fr = Frame(params["frame"])
    P = fr.p(params["quad"])
    face = cb.Face(P, [make_edge(params["edges"][i], P[i], P[(i + 1) % 4]) for i in range(4)])
    apply_face_proj(face, params.get("proj"))
    return cb.Revolve(face, params["angle"], fr.d([1, 0, 0]) * params["axis_mag"], fr.p([params["shift"], 0, 0]))


_reg(Ent("revolve", "op", revolve_params(), build_revolve, quick=30,
         labels=lambda p: _edge_labels(p["edges"]) + proj_labels(p.get("proj"))))


def build_wedge(params):
    # Wedge revolves about the global x axis: the cross-section stays in the global x-y plane
    P = np.array(params["quad"], dtype=float) * params["frame"]["size"]
    face = cb.Face(P, [make_edge(params["edges"][i], P[i], P[(i + 1) % 4]) for i in range(4)])
    apply_face_proj(face, params.get("proj"))
    return cb.Wedge(face, params["angle"])


_reg(Ent("wedge", "op", revolve_params(wedge=True), build_wedge, quick=28,
         labels=lambda p: _edge_labels(p["edges"]) + proj_labels(p.get("proj"))))


@st.composite
def box_params(draw):
    a = draw(point3(5))
    return {"a": a, "b": [a[i] + draw(fl(0.3, 3.0)) * draw(st.sampled_from([1, -1])) for i in range(3)], "proj": draw(op_proj())}


def build_box(p):
    box = cb.Box(p["a"], p["b"])
    apply_op_proj(box, p.get("proj"))
    return box


_reg(Ent("box", "op", box_params(), build_box, quick=24, labels=lambda p: proj_labels(p.get("proj"))))


@st.composite
def series_params(draw):
    n = draw(st.sampled_from([3, 4, 3, 5, 6]))  # 3 faces: Arc side edges, more: Spline
    return {"frame": draw(frames()), "faces": [draw(quad_local(-0.5 + k / (n - 1), jitter=0.1)) for k in range(n)],
            "bend": draw(fl(-0.5, 0.5))}


def build_series(params):
    fr = Frame(params["frame"])
    n = len(params["faces"])
    faces = []
    for k, q in enumerate(params["faces"]):
        z = k / (n - 1)
        faces.append(cb.Face(fr.p(np.array(q) + [params["bend"] * 4 * z * (1 - z), 0, 0])))
    return cb.Loft.from_series(faces)


_reg(Ent("series", "op", series_params(), build_series, quick=30,
         labels=lambda p: ["side=arc" if len(p["faces"]) == 3 else "side=spline"]))


# ---- sketches (observed through harness-built lofts: face -> Loft(face, face points + offset)) ---------------


def prep_sketch(sk, params):
    fr = Frame(params["frame"]) if "frame" in params else None
    off = (fr.d([0, 0, 1]) * fr.s if fr is not None else np.array([0.0, 0.0, 1.0])) * 0.6
    return {"tops": [f.point_array + off for f in sk.faces]}


def realize_sketch(sk, M, aux):
    faces = sk.faces
    if len(faces) != len(aux["tops"]):
        raise Violation("face-count-changed", f"{len(aux['tops'])} faces before, {len(faces)} after")
    return [cb.Loft(f, cb.Face(rm.apply(M, t))) for f, t in zip(faces, aux["tops"])]


def _sk(name, strategy, build, quick=12, curved=lambda p: True, labels=lambda p: []):
    _reg(Ent(name, "sketch", strategy, build, realize_sketch, prep_sketch, curved=curved, quick=quick, labels=labels))


@st.composite
def grid_params(draw):
    a = [draw(fl(-3, 3)), draw(fl(-3, 3)), 0.0]
    return {"a": a, "b": [a[0] + draw(fl(0.5, 3)), a[1] + draw(fl(0.5, 3)), 0.0], "n1": draw(st.integers(1, 3)),
            "n2": draw(st.integers(1, 3))}


_sk("sk-grid", grid_params(), lambda p: cb.Grid(p["a"], p["b"], p["n1"], p["n2"]))


@st.composite
def disk_params(draw):
    return {"frame": draw(frames()), "r": draw(fl(0.5, 2.0)), "nmag": draw(st.sampled_from([1.0, 0.4, 2.0]))}


def _disk(cls):
    def build(p):
        fr = Frame(p["frame"])
        return cls(fr.p([0, 0, 0]), fr.p([p["r"], 0, 0]), fr.d([0, 0, 1]) * p["nmag"])
    return build


for _n, _c in [("onecore", cb.OneCoreDisk), ("quarter", QuarterDisk), ("half", cb.HalfDisk), ("fourcore", cb.FourCoreDisk)]:
    _sk(f"sk-{_n}", disk_params(), _disk(_c), quick={"fourcore": 6, "half": 8}.get(_n, 12))


@st.composite
def wrapped_params(draw):
    return {"frame": draw(frames()), "c": draw(fl(1.0, 2.0)), "rr": draw(fl(0.3, 0.65)), "nmag": draw(st.sampled_from([1.0, 2.0]))}


def build_wrapped(p):
    fr = Frame(p["frame"])
    corner = fr.p([p["c"], p["c"], 0])
    radius = p["rr"] * p["c"] * fr.s  # < half side
    return cb.WrappedDisk(fr.p([0, 0, 0]), corner, radius, fr.d([0, 0, 1]) * p["nmag"])


_sk("sk-wrapped", wrapped_params(), build_wrapped, quick=8)


@st.composite
def oval_params(draw):
    return {"frame": draw(frames()), "l": draw(fl(0.5, 3.0)), "r": draw(fl(0.4, 1.5))}


def build_oval(p):
    fr = Frame(p["frame"])
    return cb.Oval(fr.p([0, 0, 0]), fr.p([p["l"], 0, 0]), fr.d([0, 0, 1]), p["r"] * fr.s)


_sk("sk-oval", oval_params(), build_oval, quick=5)


@st.composite
def annulus_params(draw):
    return {"frame": draw(frames()), "r": draw(fl(0.8, 2.0)), "ri": draw(fl(0.2, 0.8)), "n": draw(st.integers(3, 10))}


def build_annulus(p):
    from classy_blocks.construct.flat.sketches.annulus import Annulus

    fr = Frame(p["frame"])
    return Annulus(fr.p([0, 0, 0]), fr.p([p["r"], 0, 0]), fr.d([0, 0, 1]), p["ri"] * p["r"] * fr.s, p["n"])


_sk("sk-annulus", annulus_params(), build_annulus, quick=8)


@st.composite
def mapped_params(draw):
    n1, n2 = draw(st.integers(1, 3)), draw(st.integers(1, 2))
    j = fl(-0.15, 0.15)
    nodes = [[i + draw(j), k + draw(j), draw(j)] for k in range(n2 + 1) for i in range(n1 + 1)]
    return {"frame": draw(frames()), "n1": n1, "n2": n2, "nodes": nodes}


def _mapped_quads(n1, n2):
    w = n1 + 1
    return [[k * w + i, k * w + i + 1, (k + 1) * w + i + 1, (k + 1) * w + i] for k in range(n2) for i in range(n1)]


def build_mapped(p):
    fr = Frame(p["frame"])
    return cb.MappedSketch(fr.p(p["nodes"]), _mapped_quads(p["n1"], p["n2"]))


_sk("sk-mapped", mapped_params(), build_mapped)


@st.composite
def sround_params(draw, ring: bool):
    shape = draw(st.sampled_from(["circle", "ellipse", "oval", "oval-1"]))
    r1, r2 = draw(fl(0.5, 1.5)), draw(fl(0.5, 1.5))
    s1 = s2 = 0.0
    if shape == "circle":
        r2 = r1
    if shape in ("oval", "oval-1"):
        s1 = draw(fl(0.2, 1.0))
    if shape == "oval":
        s2 = draw(fl(0.2, 1.0))
    p = {"frame": draw(frames()), "r1": r1, "r2": r2, "s1": s1, "s2": s2, "shape": shape}
    if ring:
        p["w1"] = draw(fl(0.1, 0.5))
        p["w2"] = p["w1"] if shape == "circle" else draw(fl(0.1, 0.5))
    return p


def _sround(cls, ring):
    def build(p):
        fr = Frame(p["frame"])
        c1 = fr.p([p["s1"] + p["r1"], 0, 0])
        c2 = fr.p([0, p["s2"] + p["r2"], 0])
        args = [fr.p([0, 0, 0]), c1, c2, p["s1"] * fr.s, p["s2"] * fr.s]
        if ring:
            args += [p["w1"] * fr.s, p["w2"] * fr.s]
        return cls(*args)
    return build


for _n, _c, _r in [("qsdisk", cb.QuarterSplineDisk, False), ("hsdisk", cb.HalfSplineDisk, False), ("sdisk", cb.SplineDisk, False),
                   ("qsring", cb.QuarterSplineRing, True), ("hsring", cb.HalfSplineRing, True), ("sring", cb.SplineRing, True)]:
    _sk(f"sk-{_n}", sround_params(_r), _sround(_c, _r), quick=6 if _n in ("sdisk", "sring") else 10,
        labels=lambda p: ["shape=" + p["shape"]])


# ---- shapes --------------------------------------------------------------------------------------


def _sh(name, strategy, build, quick=8, curved=lambda p: True, labels=lambda p: [], family="shape"):
    # JointBase.center and EighthSphere.center are a corner of a particular face: not the image of the old one once a
    # mirror has swapped bottom and top
    _reg(Ent(name, family, strategy, build, curved=curved, quick=quick, labels=labels,
             center_covariant=family != "joint" and name != "hemisphere"))


@st.composite
def cyl_params(draw):
    return {"frame": draw(frames()), "r": draw(fl(0.4, 1.5)), "h": draw(fl(0.5, 3.0))}


def _cyl(cls):
    def build(p):
        fr = Frame(p["frame"])
        return cls(fr.p([0, 0, 0]), fr.p([0, 0, p["h"]]), fr.p([p["r"], 0, 0]))
    return build


_sh("cylinder", cyl_params(), _cyl(cb.Cylinder))
_sh("semicylinder", cyl_params(), _cyl(cb.SemiCylinder))


@st.composite
def frustum_params(draw):
    p = draw(cyl_params())
    p["r2"] = draw(fl(0.3, 1.5))
    p["rmid"] = draw(st.one_of(st.none(), fl(0.4, 1.6)))
    return p


def build_frustum(p):
    fr = Frame(p["frame"])
    rmid = None if p["rmid"] is None else p["rmid"] * fr.s
    return cb.Frustum(fr.p([0, 0, 0]), fr.p([0, 0, p["h"]]), fr.p([p["r"], 0, 0]), p["r2"] * fr.s, rmid)


_sh("frustum", frustum_params(), build_frustum, labels=lambda p: ["mid=" + ("arc" if p["rmid"] is not None else "none")])


@st.composite
def elbow_params(draw):
    return {"frame": draw(frames()), "r": draw(fl(0.4, 1.0)), "c": draw(fl(2.0, 4.0)), "sweep": draw(fl(0.3, 1.5)),
            "sign": draw(st.sampled_from([1, -1])), "r2": draw(fl(0.3, 1.2)), "amag": draw(st.sampled_from([1.0, 0.5, 2.0]))}


def build_elbow(p):
    fr = Frame(p["frame"])
    return cb.Elbow(fr.p([0, 0, 0]), fr.p([p["r"], 0, 0]), fr.d([0, 0, 1]), p["sweep"], fr.p([p["c"] * p["r"], 0, 0]),
                    fr.d([0, p["sign"], 0]) * p["amag"], p["r2"] * fr.s)


_sh("elbow", elbow_params(), build_elbow)


@st.composite
def ring_params(draw):
    return {"frame": draw(frames()), "r": draw(fl(0.8, 2.0)), "ri": draw(fl(0.2, 0.8)), "h": draw(fl(0.4, 2.0)),
            "n": draw(st.integers(3, 9))}


def build_exring(p):
    fr = Frame(p["frame"])
    return cb.ExtrudedRing(fr.p([0, 0, 0]), fr.p([0, 0, p["h"]]), fr.p([p["r"], 0, 0]), p["ri"] * p["r"] * fr.s, p["n"])


_sh("extruded-ring", ring_params(), build_exring)


@st.composite
def revring_params(draw):
    j = fl(-0.15, 0.15)
    quad = [[x + draw(j), 1.5 + y + draw(j), 0.0] for x, y in _SQ]
    return {"frame": draw(frames()), "quad": quad, "n": draw(st.integers(3, 8)), "shift": draw(fl(-1, 1)),
            "edge": draw(st.one_of(st.none(), edge_spec("arc"), edge_spec("spline")))}


def build_revring(p):
    fr = Frame(p["frame"])
    P = fr.p(p["quad"])
    face = cb.Face(P, [None, None, make_edge(p["edge"], P[2], P[3]), None])
    return cb.RevolvedRing(fr.p([p["shift"], 0, 0]), fr.p([p["shift"] + 1.0, 0, 0]), face, p["n"])


_sh("revolved-ring", revring_params(), build_revring)


@st.composite
def hemi_params(draw):
    return {"frame": draw(frames()), "r": draw(fl(0.5, 2.0)), "nmag": draw(st.sampled_from([1.0, 0.5, 2.0]))}


def build_hemi(p):
    fr = Frame(p["frame"])
    return cb.Hemisphere(fr.p([0, 0, 0]), fr.p([p["r"], 0, 0]), fr.d([0, 0, 1]) * p["nmag"])


_sh("hemisphere", hemi_params(), build_hemi, quick=8)


@st.composite
def shell_params(draw):
    n = draw(st.integers(1, 3))
    j = fl(-0.15, 0.15)
    nodes = [[i + draw(j), k + draw(j), 0.3 * math.sin(i) + draw(j)] for k in range(2) for i in range(n + 1)]
    return {"frame": draw(frames()), "n": n, "nodes": nodes, "amount": draw(fl(0.1, 0.5)) * draw(st.sampled_from([1, -1]))}


def build_shell(p):
    fr = Frame(p["frame"])
    P = fr.p(p["nodes"])
    faces = [cb.Face([P[q] for q in quad]) for quad in _mapped_quads(p["n"], 1)]
    return cb.Shell(faces, p["amount"] * fr.s)


_sh("shell", shell_params(), build_shell)


@st.composite
def lofted_params(draw):
    p = draw(mapped_params())
    p["kind"] = draw(st.sampled_from(["extruded", "extruded-vector", "revolved", "mid-1", "mid-2"]))
    p["amount"] = draw(fl(0.4, 2.0))
    p["vec"] = [draw(fl(-0.5, 0.5)), draw(fl(-0.5, 0.5)), draw(fl(0.5, 1.5))]
    p["angle"] = draw(fl(0.2, 1.2))
    p["bend"] = draw(fl(0.1, 0.5))
    return p


def build_lofted(p):
    fr = Frame(p["frame"])
    quads = _mapped_quads(p["n1"], p["n2"])
    nodes = np.array(p["nodes"], dtype=float)
    sk = cb.MappedSketch(fr.p(nodes), quads)
    kind = p["kind"]
    if kind == "extruded":
        return cb.ExtrudedShape(sk, p["amount"] * fr.s)
    if kind == "extruded-vector":
        return cb.ExtrudedShape(sk, fr.d(p["vec"]) * fr.s)
    if kind == "revolved":
        return cb.RevolvedShape(sk, p["angle"], fr.d([1, 0, 0]) * 2.0, fr.p([0, -2.0, 0]))
    nmid = 1 if kind == "mid-1" else 2
    top = cb.MappedSketch(fr.p(nodes + [0, 0, 1.5]), quads)
    mids = []
    for k in range(nmid):
        z = (k + 1) / (nmid + 1)
        mids.append(cb.MappedSketch(fr.p(nodes + [p["bend"] * 4 * z * (1 - z), 0, 1.5 * z]), quads))
    return cb.LoftedShape(sk, top, mids if nmid > 1 else mids[0])


_sh("lofted", lofted_params(), build_lofted, curved=lambda p: p["kind"] in ("revolved", "mid-1", "mid-2"),
    labels=lambda p: ["kind=" + p["kind"]])


# ---- stacks and joints ---------------------------------------------------------------------------


@st.composite
def stack_params(draw):
    p = draw(mapped_params())
    p["kind"] = draw(st.sampled_from(["extruded", "extruded-vector", "revolved", "transformed", "transformed-mid"]))
    p["repeats"] = draw(st.integers(1, 3))
    p["amount"] = draw(fl(0.5, 3.0))
    p["vec"] = [draw(fl(-0.5, 0.5)), draw(fl(-0.5, 0.5)), draw(fl(0.5, 1.5))]
    p["angle"] = draw(fl(0.3, 2.0))
    return p


def build_stack(p):
    fr = Frame(p["frame"])
    sk = cb.MappedSketch(fr.p(p["nodes"]), _mapped_quads(p["n1"], p["n2"]))
    kind = p["kind"]
    if kind == "extruded":
        return cb.ExtrudedStack(sk, p["amount"] * fr.s, p["repeats"])
    if kind == "extruded-vector":
        return cb.ExtrudedStack(sk, fr.d(p["vec"]) * fr.s, p["repeats"])
    if kind == "revolved":
        return cb.RevolvedStack(sk, p["angle"], fr.d([1, 0, 0]) * 0.5, fr.p([0, -2.0, 0]), p["repeats"])
    end = [tr.Translation(fr.d(p["vec"]) * fr.s), tr.Rotation(fr.d([0, 0, 1]), 0.3, fr.p([0, 0, 0])), tr.Scaling(0.9, fr.p([0, 0, 0]))]
    mid = None
    if kind == "transformed-mid":
        mid = [tr.Translation(fr.d(p["vec"]) * fr.s * 0.5 + fr.d([0.2, 0, 0]) * fr.s), tr.Rotation(fr.d([0, 0, 1]), 0.15, fr.p([0, 0, 0])),
               tr.Scaling(0.95, fr.p([0, 0, 0]))]
    return cb.TransformedStack(sk, end, p["repeats"], mid)


_sh("stack", stack_params(), build_stack, curved=lambda p: p["kind"] in ("revolved", "transformed-mid"),
    labels=lambda p: ["kind=" + p["kind"], f"repeats={p['repeats']}"], family="stack")


@st.composite
def joint_params(draw, branches):
    return {"frame": draw(frames((0.5, 2.0))), "l": draw(fl(1.5, 3.0)), "r": draw(fl(0.3, 0.7)),
            "branches": draw(st.sampled_from(branches))}


def _joint(cls):
    def build(p):
        fr = Frame(p["frame"])
        args = [fr.p([0, 0, 0]), fr.p([p["l"], 0, 0]), fr.p([0, 0, p["r"]])]
        return cls(*args, p["branches"]) if cls is cb.NJoint else cls(*args)
    return build


_sh("ljoint", joint_params([2]), _joint(cb.LJoint), quick=3, family="joint")
_sh("tjoint", joint_params([3]), _joint(cb.TJoint), quick=2, family="joint")
_sh("njoint", joint_params([3, 4, 5]), _joint(cb.NJoint), quick=2, family="joint", labels=lambda p: [f"branches={p['branches']}"])
