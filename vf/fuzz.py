"""Coverage-guided campaign for one cell: libFuzzer (atheris) drives the cell's Hypothesis strategy through
`fuzz_one_input`, so that coverage feedback from the instrumented library steers generation towards branch switches.

  python -m vf.fuzz <Cxx> <cell id> --runs N --seed S --out <stats.json>

exit 0 = campaign finished, no violation;  exit 77 = violation (replay written, path in the stats file);
anything else = harness error.  The semantic oracle is the cell's own check (not just crashes).
Used by vf.run in the thorough tier for the cells a property module lists in FUZZ_CELLS; skipped (and reported as
skipped) when atheris cannot be imported.
"""

from __future__ import annotations

import argparse
import json
import os
import sys


def main() -> int:
    ap = argparse.ArgumentParser()
    ap.add_argument("prop")
    ap.add_argument("cell")
    ap.add_argument("--runs", type=int, default=20000)
    ap.add_argument("--seed", type=int, default=1)
    ap.add_argument("--out", required=True)
    a = ap.parse_args()

    root = os.path.dirname(os.path.dirname(os.path.abspath(__file__)))
    sys.path.insert(0, os.path.join(root, ".deps"))
    try:
        import atheris
    except ImportError:
        with open(a.out, "w") as f:
            json.dump({"skipped": "atheris not importable"}, f)
        return 0

    from vf import core

    sys.path.insert(0, core.REPO_SRC)
    import warnings

    warnings.simplefilter("ignore")
    with atheris.instrument_imports(include=["classy_blocks"]):
        _mod, cells = core.load_prop(a.prop.upper())
    cell = cells[a.cell]
    known = core.load_known()

    import hypothesis
    from hypothesis import HealthCheck, given, settings

    stats = {"executions": 0, "nontrivial": 0, "distinct_nontrivial": 0, "rejected_inputs": 0, "known": {}, "violation": None}
    keys = set()

    def flush() -> None:
        stats["distinct_nontrivial"] = len(keys)
        with open(a.out, "w") as f:
            json.dump(stats, f)

    @settings(database=None, deadline=None, suppress_health_check=list(HealthCheck), verbosity=hypothesis.Verbosity.quiet)
    @given(cell.strategy)
    def test(case):
        import numpy as np

        stats["executions"] += 1
        hk = core.h64(core.canon(case))
        np.random.seed(int(hk[:8], 16))
        ctx = core.Ctx()
        try:
            cell.check(case, ctx)
        except core.Violation as v:
            e = core.match_known(known, a.prop.upper(), cell.id, v)
            if e is not None:
                stats["known"][e["id"]] = stats["known"].get(e["id"], 0) + 1
                return
            path = core.write_replay(a.prop.upper(), cell.id, {"case": case, "kind": v.kind, "message": v.msg, "facts": v.facts,
                                                                "found_by": "atheris campaign (not shrunk)"})
            stats["violation"] = {"replay": path, "message": str(v)[:1000]}
            flush()
            os._exit(77)
        if ctx.nontrivial:
            stats["nontrivial"] += 1
            keys.add(hk)
        if stats["executions"] % 2000 == 0:
            flush()

    fuzz_one = test.hypothesis.fuzz_one_input
    total = [0]

    def target(data: bytes) -> None:
        total[0] += 1
        before = stats["executions"]
        fuzz_one(data)
        if stats["executions"] == before:
            stats["rejected_inputs"] += 1  # bytes that do not decode to a complete case
        if total[0] >= a.runs:
            flush()
            os._exit(0)

    atheris.Setup([sys.argv[0], f"-runs={a.runs + 10}", f"-seed={a.seed}", "-max_len=2048", "-len_control=0", "-print_final_stats=1"] + (["-verbosity=0"] if not os.environ.get("VF_FUZZ_VERBOSE") else []),
                  target)
    atheris.Fuzz()
    flush()
    return 0


if __name__ == "__main__":
    sys.exit(main())
