"""Owning the iteration order of the address-hashed sets the propagation loop walks (DESIGN.md 2.6)."""

from __future__ import annotations

from typing import Any, List


class OrderedBag(list):
    """list with the subset of the set API the library uses on neighbours/coincidents"""

    def add(self, item: Any) -> None:
        if not any(item is x for x in self):
            self.append(item)

    def remove(self, item: Any) -> None:  # pragma: no cover
        for i, x in enumerate(self):
            if x is item:
                del self[i]
                return
        raise KeyError(item)

    def discard(self, item: Any) -> None:  # pragma: no cover
        for i, x in enumerate(self):
            if x is item:
                del self[i]
                return


def schedule_slots(mesh) -> List[tuple]:
    """All (owner, attribute, canonical element list) whose iteration order is address-dependent: every attribute of
    a block / axis / wire manager / wire that is a set of blocks, axes or wires.  The canonical order of the elements
    is by (block index, axis index [, wire position]) - a function of the script, not of addresses."""
    registry = {}
    owners = []
    for block in mesh.blocks:
        registry[id(block)] = (block.index,)
        owners.append(block)
        for axis in block.axes:
            registry[id(axis)] = (block.index, axis.index)
            owners.append(axis)
            owners.append(axis.wires)
            for k, wire in enumerate(axis.wires):
                registry[id(wire)] = (block.index, axis.index, k)
                owners.append(wire)
    slots = []
    for owner in owners:
        for attr, value in sorted(vars(owner).items()):
            if isinstance(value, (set, frozenset)) and all(id(x) in registry for x in value):
                elems = sorted(value, key=lambda x: registry[id(x)])
                slots.append((owner, attr, elems))
    return slots


def inject(mesh, picks: List[int]) -> int:
    """Replaces every schedulable set by an OrderedBag in an order selected by `picks` (a list of integers;
    slot i uses picks[i % len(picks)] as the index of a permutation in lexicographic enumeration order).
    Returns the number of slots with >= 2 elements (where the order matters)."""
    import itertools
    import math

    slots = schedule_slots(mesh)
    multi = 0
    for i, (owner, attr, elems) in enumerate(slots):
        n = len(elems)
        if n >= 2:
            multi += 1
        k = (picks[i % len(picks)] if picks else 0) % max(1, math.factorial(min(n, 6)))
        if n <= 6:
            order = list(next(itertools.islice(itertools.permutations(range(n)), k, None)))
        else:
            order = list(range(n))
            order = order[k % n:] + order[:k % n]
        setattr(owner, attr, OrderedBag(elems[j] for j in order))
    return multi
