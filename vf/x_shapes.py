"""Shared by C11 and C19: placements, shape builders that carry their own ground truth, decoding of written files.

Every builder works in a *canonical frame* (documented per builder) and maps the defining points into the world with
a rigid map M composed from vf.refmodel (Rodrigues), so that the expected circles / positions / counts are known
without asking the library.  Expected block and vertex counts come from the documented blocking sketches
(docs/blocking: 17-point four-core disk, 8-point one-core disk, ...), written down here as tables.
"""

from __future__ import annotations

import copy
import math
import warnings
from typing import Any, Callable, Dict, List, Optional, Sequence, Tuple

import numpy as np
from hypothesis import strategies as st

from vf import foamdict
from vf import lattice as lt
from vf import refmodel as rm
from vf.core import Violation

warnings.simplefilter("ignore")

import classy_blocks as cb  # noqa: E402
from classy_blocks.construct.assemblies.joints import LJoint, NJoint, TJoint  # noqa: E402
from classy_blocks.construct.flat.sketches.disk import QuarterDisk  # noqa: E402

X = np.array([1.0, 0.0, 0.0])
Y = np.array([0.0, 1.0, 0.0])
Z = np.array([0.0, 0.0, 1.0])

# --------------------------------------------------------------------------------------------------
# placement

ALIGNED = [
    {"axis": [0.0, 0.0, 1.0], "angle": 0.0},
    {"axis": [1.0, 0.0, 0.0], "angle": math.pi / 2},
    {"axis": [0.0, 1.0, 0.0], "angle": -math.pi / 2},
    {"axis": [0.0, 0.0, 1.0], "angle": math.pi},
]


@st.composite
def placements(draw):
    """rigid map canonical frame -> world: rotation about a general axis, then translation"""
    if draw(st.sampled_from([False, False, False, False, False, True])):
        rot = dict(draw(st.sampled_from(ALIGNED)))
        rot["aligned"] = True
    else:
        # one component is +-1, the other two are bounded away from 0, and the angle from 0 and pi: the rotated
        # canonical axes are never coordinate directions
        k = draw(st.integers(0, 2))
        ax = [draw(st.floats(0.15, 1.0)) * draw(st.sampled_from([-1.0, 1.0])) for _ in range(3)]
        ax[k] = draw(st.sampled_from([-1.0, 1.0]))
        rot = {"axis": ax, "angle": draw(st.floats(0.2, math.pi - 0.2)) * draw(st.sampled_from([-1.0, 1.0])),
               "aligned": False}
    rot["o"] = [draw(st.floats(-10.0, 10.0)) for _ in range(3)]
    # length given to arguments that only carry a direction (normals, rotation axes): 0.33 .. 0.85 or 1.18 .. 3
    rot["nlen"] = 3.0 ** (draw(st.floats(0.15, 1.0)) * draw(st.sampled_from([1.0, -1.0])))
    return rot


# far placements: offset = ratio x (size of the shape) along a general direction
FAR_RATIOS = [1e3, 1e5, 1e6]
# The library compares dot products of caller-supplied difference vectors with an absolute TOL = 1e-7 (perpendicularity
# of axis and radius in Cylinder / Frustum / Annulus).  Coordinates of magnitude C carry an error of eps * C, a dot
# product with a vector of length <= 5 r an error of about 4 * eps * C * 5 r; keeping that below 1e-9 (100x under TOL)
# needs C * r <= 2e5, i.e. ratio * r^2 <= 2e5: for a far placement the size r is reduced to meet it.
FAR_LIMIT = 2e5


@st.composite
def far_offsets(draw):
    """None (2 in 3), or {"ratio", "dir"}: where a far placement puts the shape"""
    if draw(st.sampled_from([False, False, True])):
        k = draw(st.integers(0, 2))
        d = [draw(st.floats(0.15, 1.0)) * draw(st.sampled_from([-1.0, 1.0])) for _ in range(3)]
        d[k] = draw(st.sampled_from([-1.0, 1.0]))
        return {"ratio": draw(st.sampled_from(FAR_RATIOS)), "dir": d}
    return None


def settle_far(case: dict, far_place, far_post) -> dict:
    """writes the far offsets into place["o"] / post["t"] (plain numbers) and caps the size so that the library's own
    absolute tolerances stay 100x away; returns the case"""
    if far_post is not None and case.get("post") is None:
        far_post = None
    fars = [f for f in (far_place, far_post) if f is not None]
    if not fars:
        return case
    case = copy.deepcopy(case)
    holder = case if "r" in case else case["sketch"]
    ratio = sum(f["ratio"] for f in fars)
    grow = 1.0  # later scalings enlarge the shape at its far position
    for key in ("pre", "post"):
        if case.get(key) is not None and case[key].get("scale"):
            grow *= max(1.0, case[key]["scale"])
    holder["r"] = min(holder["r"], math.sqrt(FAR_LIMIT / (ratio * grow)))
    r = holder["r"]
    if far_place is not None:
        case["place"]["o"] = (rm.unit(far_place["dir"]) * far_place["ratio"] * r).tolist()
        case["place"]["far"] = far_place["ratio"]
        for key in ("post", "pre"):
            # rotation and scaling origins stay within a few sizes of the shape (a scaling about the world origin would
            # multiply the far offset by the ratio and leave the domain capped by FAR_LIMIT)
            if case.get(key) is not None:
                for okey in ("origin", "sorigin"):
                    if okey in case[key]:
                        case[key][okey] = (np.array(case["place"]["o"]) + np.array(case[key][okey])).tolist()
                if case[key].get("mirror"):
                    mo = case[key]["mirror"]
                    mo["origin"] = (np.array(case["place"]["o"]) + np.array(mo["origin"])).tolist()
    if far_post is not None:
        case["post"]["t"] = (rm.unit(far_post["dir"]) * far_post["ratio"] * r).tolist()
        case["post"]["far"] = far_post["ratio"]
    return case


def far_ratio(case) -> float:
    return max(case["place"].get("far", 0.0), (case.get("post") or {}).get("far", 0.0))


def dlen(place) -> float:
    """callers hand over normals and axes of any length (an axis vector between two points, 2 * e_z, ...): direction
    arguments are multiplied by this factor, the ground truth keeps unit vectors"""
    return float(place.get("nlen", 1.0))


def frame(place) -> np.ndarray:
    return rm.m_translate(place["o"]) @ rm.m_rotate(place["angle"], place["axis"], [0.0, 0.0, 0.0])


def is_general(place) -> bool:
    """placement whose rotated z-axis is not a coordinate direction"""
    if place.get("aligned"):
        return False
    z = rm.apply_dir(frame(place), Z)
    return float(np.max(np.abs(z))) < 1 - 1e-6


def W(M, p) -> np.ndarray:
    return rm.apply(M, np.asarray(p, dtype=float))


def D(M, v) -> np.ndarray:
    return rm.apply_dir(M, np.asarray(v, dtype=float))


def polar(r: float, phi: float, z: float = 0.0) -> np.ndarray:
    return np.array([r * math.cos(phi), r * math.sin(phi), z])


radii = st.floats(-1.0, 1.0).map(lambda u: 10.0**u)  # 0.1 .. 10
angles = st.floats(0.0, 2 * math.pi)


# --------------------------------------------------------------------------------------------------
# what a builder returns


class Circle:
    """an intended circle in world coordinates"""

    def __init__(self, centre, normal, radius: float, n_arcs: int, seg: Optional[float] = None):
        self.c = np.asarray(centre, float)
        self.n = rm.unit(normal)
        self.r = float(radius)
        self.n_arcs = n_arcs  # arcs the blocking must put on it
        # The library drops an arc whose three points are collinear within TOL = 1e-7 (|arm x arm| <= TOL).  With the
        # segment angle `seg` the cross product is 4 r^2 sin^2(seg/4) sin(seg/2); within 10x of TOL either outcome is
        # accepted.
        self.seg = seg

    @property
    def droppable(self) -> bool:
        if self.seg is None:
            return False
        return 4 * self.r**2 * math.sin(abs(self.seg) / 4) ** 2 * math.sin(abs(self.seg) / 2) < 1e-6

    def has(self, p, tol_scale: float = 1.0) -> bool:
        d = np.asarray(p, float) - self.c
        tol = tol_scale * (1e-6 * self.r + 5e-8)  # 1e-6 R as in the design + 8 printed decimals
        return abs(float(d @ self.n)) <= tol and abs(float(np.linalg.norm(d)) - self.r) <= tol


class Spec:
    def __init__(self, name: str):
        self.name = name
        self.entities: List[Any] = []  # what is added to the mesh, in order
        self.n_blocks = 0
        self.n_vertices = 0
        self.circles: List[Circle] = []
        self.size = 1.0  # characteristic length (for size chops and tolerances)
        self.chop: Optional[Callable[[dict], None]] = None  # applies the documented chop calls
        self.chop_claimed = True  # the statement promises that these chops suffice
        self.extra: Dict[str, Any] = {}
        # (origin, axis, angle): every vertex whose image under this rotation is a vertex is joined to it by an arc
        # about that axis (side edges of revolved shapes and stacks)
        self.revolves: List[Tuple[np.ndarray, np.ndarray, float]] = []
        # (world -> canonical 4x4 map, predicate on canonical points, in-plane tolerance): a curved edge joining two
        # vertices of such a boundary curve has all its control points on it
        self.outlines: List[Tuple[np.ndarray, Callable[[np.ndarray], bool], float]] = []

    def transform(self, P: np.ndarray) -> None:
        """maps the ground truth with the similarity P = rigid motion x uniform scaling (the entities are moved
        separately, by the library)"""
        det = float(np.linalg.det(P[:3, :3]))
        k = abs(det) ** (1.0 / 3.0)
        udir = lambda v: rm.unit(rm.apply_dir(P, v))  # noqa: E731
        Pinv_ = np.linalg.inv(P)
        self.outlines = [(B @ Pinv_, pred, tol) for B, pred, tol in self.outlines]
        for c in self.circles:
            c.c, c.n, c.r = rm.apply(P, c.c), udir(c.n), c.r * k
        # a reflection reverses the sense of a rotation about the mapped axis
        self.revolves = [(rm.apply(P, o), udir(a), ang if det > 0 else -ang) for o, a, ang in self.revolves]
        self.size *= k
        ex = self.extra
        if "sphere" in ex:
            ex["sphere"] = (rm.apply(P, ex["sphere"][0]), ex["sphere"][1] * k)
        if "corners" in ex:
            ex["corners"] = [rm.apply(P, q) for q in ex["corners"]]
        if "ends" in ex:
            ex["ends"] = [(rm.apply(P, c), udir(n), r * k) for c, n, r in ex["ends"]]
        if "axis" in ex:
            ex["axis"] = (rm.apply(P, ex["axis"][0]), udir(ex["axis"][1]))
        if "outer_pts" in ex:
            ex["outer_pts"] = [rm.apply(P, q) for q in ex["outer_pts"]]
        if "maps" in ex:
            Pinv = np.linalg.inv(P)
            ex["maps"] = [P @ T @ Pinv for T in ex["maps"]]


@st.composite
def post_transforms(draw, resize_mostly: bool = False, mirror: str = "some"):
    """None, or a motion applied to the *built* entity with the library's rotate / scale / translate: rotation about a
    general axis through a general origin (never parallel to a coordinate axis), in half of the cases a uniform scaling
    by 0.3 .. 3 about another general origin, then a translation"""
    # resize_mostly (start shapes of chains): absent 1 in 3, scaled 3 in 4 of the rest
    if mirror != "always" and draw(st.sampled_from([False, False, True] if resize_mostly else [True, False])):
        return None
    k = draw(st.integers(0, 2))
    ax = [draw(st.floats(0.15, 1.0)) * draw(st.sampled_from([-1.0, 1.0])) for _ in range(3)]
    ax[k] = draw(st.sampled_from([-1.0, 1.0]))
    post = {
        "axis": ax,
        "angle": draw(st.floats(0.2, math.pi - 0.2)) * draw(st.sampled_from([-1.0, 1.0])),
        "origin": [draw(st.floats(-5.0, 5.0)) for _ in range(3)],
        "t": [draw(st.floats(-5.0, 5.0)) for _ in range(3)],
        "scale": None,
    }
    if draw(st.sampled_from([True, True, True, False] if resize_mostly else [True, False])):
        # 0.33 .. 0.85 or 1.18 .. 3: never (nearly) 1
        post["scale"] = 3.0 ** (draw(st.floats(0.15, 1.0)) * draw(st.sampled_from([1.0, -1.0])))
        post["sorigin"] = [draw(st.floats(-5.0, 5.0)) for _ in range(3)]
    if mirror == "always" or (mirror == "some" and draw(st.sampled_from([False, False, True]))):
        # reflection in a general plane (entity.mirror(normal, origin))
        km = draw(st.integers(0, 2))
        nm = [draw(st.floats(0.15, 1.0)) * draw(st.sampled_from([-1.0, 1.0])) for _ in range(3)]
        nm[km] = draw(st.sampled_from([-1.0, 1.0]))
        post["mirror"] = {"normal": nm, "origin": [draw(st.floats(-5.0, 5.0)) for _ in range(3)]}
    return post


def post_matrix(post) -> np.ndarray:
    if post is None:
        return np.eye(4)
    P = rm.m_rotate(post["angle"], post["axis"], post["origin"])
    if post.get("scale"):
        P = rm.m_scale(post["scale"], post["sorigin"]) @ P
    if post.get("mirror"):
        P = rm.m_mirror(post["mirror"]["normal"], post["mirror"]["origin"]) @ P
    return rm.m_translate(post["t"]) @ P


def post_scale(post) -> float:
    return float(post["scale"]) if post is not None and post.get("scale") else 1.0


def move_entity(entity, post) -> None:
    entity.rotate(post["angle"], post["axis"], post["origin"])
    if post.get("scale"):
        entity.scale(post["scale"], post["sorigin"])
    if post.get("mirror"):
        entity.mirror(post["mirror"]["normal"], post["mirror"]["origin"])
    entity.translate(post["t"])


def chop_kwargs(chops: dict, k: int, size: float) -> dict:
    """chops = {"mode": "count", "n": [..]} | {"mode": "size", "f": [..]} -> kwargs of the k-th documented chop"""
    if chops["mode"] == "count":
        return {"count": int(chops["n"][k])}
    return {"start_size": float(chops["f"][k]) * size}


@st.composite
def chop_sets(draw, n: int = 3):
    if draw(st.integers(0, 4)) < 3:
        return {"mode": "count", "n": [draw(st.integers(1, 7)) for _ in range(n)]}
    return {"mode": "size", "f": [draw(st.floats(0.06, 0.6)) for _ in range(n)]}


# --------------------------------------------------------------------------------------------------
# sketches (canonical frame: centre at the origin, normal +z, first radius point at angle phi in the xy-plane)

#           distinct points, faces
SKETCH_TOPO = {
    "OneCoreDisk": (8, 5),
    "FourCoreDisk": (17, 12),
    "HalfDisk": (11, 6),
    "QuarterDisk": (7, 3),
    "WrappedDisk": (12, 9),
    "Oval": (22, 16),
    "QuarterSplineDisk": (7, 3),
    "HalfSplineDisk": (11, 6),
    "SplineDisk": (17, 12),
    "QuarterSplineRing": (6, 2),
    "HalfSplineRing": (10, 4),
    "SplineRing": (16, 8),
}
# outer arcs per sketch plane
SKETCH_ARCS = {"OneCoreDisk": 4, "FourCoreDisk": 8, "HalfDisk": 4, "QuarterDisk": 2, "WrappedDisk": 4}
SPLINE_QUADRANTS = {"Quarter": 1, "Half": 2, "": 4}

DISK_SKETCHES = ["OneCoreDisk", "FourCoreDisk", "HalfDisk", "QuarterDisk", "WrappedDisk", "Oval"]
SPLINE_DISKS = ["QuarterSplineDisk", "HalfSplineDisk", "SplineDisk"]
SPLINE_RINGS = ["QuarterSplineRing", "HalfSplineRing", "SplineRing"]


@st.composite
def sketch_params(draw, kind: str):
    r = draw(radii)
    p: Dict[str, Any] = {"kind": kind, "r": r, "phi": draw(angles)}
    if kind == "WrappedDisk":
        p["circle"] = draw(st.floats(0.3, 0.85))  # circle radius / half side of the square
    elif kind == "Oval":
        p["d"] = draw(st.floats(0.5, 4.0))  # centre distance / radius
    elif kind == "Grid":
        p["n1"] = draw(st.integers(1, 4))
        p["n2"] = draw(st.integers(1, 4))
        p["aspect"] = draw(st.floats(0.3, 3.0))
        p["p1"] = draw(grid_corners())
    elif "Spline" in kind:
        # circle / ellipse: no straight sides; oval, oval1: two / one straight sides and different corner radii;
        # stadium, rounded: one / two straight sides and EQUAL corner radii (corners are quarter circles)
        shape = draw(st.sampled_from(["circle", "ellipse", "oval", "oval1", "stadium", "rounded"]))
        p["shape"] = shape
        p["a2"] = 1.0 if shape == "circle" else draw(st.floats(0.5, 2.0))  # second half-axis / first
        p["s1"] = draw(st.floats(0.1, 0.6)) if shape in ("oval", "oval1", "stadium", "rounded") else 0.0  # straight / half-axis
        p["s2"] = draw(st.floats(0.1, 0.6)) if shape in ("oval", "rounded") else 0.0
        if shape in ("stadium", "rounded"):
            p["a2"] = (1.0 - p["s1"]) / (1.0 - p["s2"])  # r_1 = a1 (1 - s1) equals r_2 = a2 (1 - s2)
        if "Ring" in kind:
            p["w1"] = draw(st.floats(0.1, 0.5))
            p["w2"] = p["w1"] if shape == "circle" else draw(st.floats(0.1, 0.5))
    return p


@st.composite
def grid_corners(draw):
    """lower-left corner of a Grid in units of its first side: x and y independent (off the diagonal), either sign"""
    x = draw(st.floats(0.2, 3.0)) * draw(st.sampled_from([1.0, -1.0]))
    y = draw(st.floats(0.2, 3.0)) * draw(st.sampled_from([1.0, -1.0]))
    if abs(x - y) < 0.2:
        y = -y
    return [x, y]


def sketch_origin(sp: dict) -> np.ndarray:
    """canonical reference point of a sketch: its centre, for a Grid the lower-left corner handed to the constructor"""
    if sp["kind"] == "Grid":
        p1 = sp.get("p1", [0.0, 0.0])
        return np.array([p1[0] * sp["r"], p1[1] * sp["r"], 0.0])
    return np.zeros(3)


class SketchTruth:
    """what the harness knows about a sketch without asking it"""

    def __init__(self) -> None:
        self.points = 0
        self.faces = 0
        self.size = 1.0
        self.circles: List[Tuple[np.ndarray, float, int]] = []  # canonical centre, radius, arcs
        self.on_rim: Optional[Callable[[np.ndarray], bool]] = None  # canonical point -> on the outer boundary
        # boundary curves along which the blocking puts curved edges (outer boundary; inner one for rings)
        self.outlines: List[Callable[[np.ndarray], bool]] = []
        self.two_tier = False


def make_sketch(p: dict, place):
    """-> (sketch in the world, SketchTruth)"""
    M = frame(place)
    kind = p["kind"]
    r, phi = p["r"], p["phi"]
    t = SketchTruth()
    t.size = r
    c = W(M, [0, 0, 0])
    n = D(M, Z) * dlen(place)  # only handed to constructors here
    tol = 1e-6 * r + 5e-8

    def rim_circle(radius):
        return lambda q: abs(math.hypot(q[0], q[1]) - radius) <= tol

    if kind in ("OneCoreDisk", "FourCoreDisk", "HalfDisk", "QuarterDisk"):
        cls = {"OneCoreDisk": cb.OneCoreDisk, "FourCoreDisk": cb.FourCoreDisk, "HalfDisk": cb.HalfDisk,
               "QuarterDisk": QuarterDisk}[kind]
        sk = cls(c, W(M, polar(r, phi)), n)
        t.circles = [(np.zeros(3), r, SKETCH_ARCS[kind])]
        t.on_rim = rim_circle(r)
        t.two_tier = True
    elif kind == "WrappedDisk":
        rc = p["circle"] * r / math.sqrt(2)
        sk = cb.WrappedDisk(c, W(M, polar(r, phi)), rc, n)
        t.circles = [(np.zeros(3), rc, 4)]
        # outer boundary = the square with corners at distance r, rotated by phi
        def on_square(q, r=r, phi=phi):
            x = q[0] * math.cos(phi) + q[1] * math.sin(phi)
            y = -q[0] * math.sin(phi) + q[1] * math.cos(phi)
            # corners at (r,0),(0,r),(-r,0),(0,-r) in the rotated frame: |x| + |y| = r
            return abs(abs(x) + abs(y) - r) <= 2 * tol

        t.on_rim = on_square
    elif kind == "Oval":
        d = p["d"] * r
        c2 = polar(d, phi)
        sk = cb.Oval(c, W(M, c2), n, r)
        t.circles = [(np.zeros(3), r, 4), (c2, r, 4)]
        t.size = r

        def on_stadium(q, c2=c2, r=r):
            ab = c2[:2]
            s = min(1.0, max(0.0, float(q[:2] @ ab) / float(ab @ ab)))
            return abs(float(np.linalg.norm(q[:2] - s * ab)) - r) <= tol

        t.on_rim = on_stadium
        t.two_tier = True
    elif kind == "Grid":
        w1 = r
        w2 = r * p["aspect"]
        x0, y0, _ = sketch_origin(p)
        sk = cb.Grid([x0, y0, 0], [x0 + w1, y0 + w2, 0], p["n1"], p["n2"])
        place_entity(sk, place)
        t.size = min(w1 / p["n1"], w2 / p["n2"])
        t.points = (p["n1"] + 1) * (p["n2"] + 1)
        t.faces = p["n1"] * p["n2"]
        return sk, t
    elif "Spline" in kind:
        a1 = r
        a2 = r * p["a2"]
        s1 = p["s1"] * a1
        s2 = p["s2"] * a2
        u1 = polar(1.0, phi)
        u2 = polar(1.0, phi + math.pi / 2)
        args = [c, W(M, a1 * u1), W(M, a2 * u2), s1, s2]
        quad = SPLINE_QUADRANTS[kind.replace("SplineDisk", "").replace("SplineRing", "")]
        circular = p["shape"] == "circle"
        r1, r2 = a1 - s1, a2 - s2

        def rounded(q, h1, h2, s1=s1, s2=s2, u1=u1, u2=u2):
            """on the rounded rectangle with straight parts s1, s2 and corner half-axes h1, h2"""
            x = abs(float(q @ u1))
            y = abs(float(q @ u2))
            ex = max(x - s1, 0.0) / h1
            ey = max(y - s2, 0.0) / h2
            return abs(math.hypot(ex, ey) - 1.0) <= 1e-5  # relative to the corner radius; 8 printed decimals

        if "Ring" in kind:
            w1 = p["w1"] * a1
            w2 = p["w2"] * a2
            cls = {"QuarterSplineRing": cb.QuarterSplineRing, "HalfSplineRing": cb.HalfSplineRing,
                   "SplineRing": cb.SplineRing}[kind]
            sk = cls(*args, w1, w2)
            if circular:
                t.circles = [(np.zeros(3), a1, 2 * quad), (np.zeros(3), a1 + w1, 2 * quad)]
            t.on_rim = lambda q: rounded(q, r1 + w1, r2 + w2)
            t.outlines = [t.on_rim, lambda q: rounded(q, r1, r2)]
        else:
            cls = {"QuarterSplineDisk": cb.QuarterSplineDisk, "HalfSplineDisk": cb.HalfSplineDisk,
                   "SplineDisk": cb.SplineDisk}[kind]
            sk = cls(*args)
            if circular:
                t.circles = [(np.zeros(3), a1, 2 * quad)]
            t.on_rim = lambda q: rounded(q, r1, r2)
            t.two_tier = True
        t.size = min(r1, r2)
    else:  # pragma: no cover
        raise ValueError(kind)
    t.points, t.faces = SKETCH_TOPO[kind]
    if not t.outlines and kind != "WrappedDisk":
        t.outlines = [t.on_rim]
    return sk, t


def place_entity(entity, place) -> None:
    """moves a library entity built in the canonical frame into the world with the library's own rotate/translate
    (only used for classes whose constructor fixes the frame: Grid, Box, Wedge)"""
    if place["angle"] != 0.0:
        entity.rotate(place["angle"], place["axis"], [0.0, 0.0, 0.0])
    entity.translate(place["o"])


# --------------------------------------------------------------------------------------------------
# decoding a written mesh


class Decoded:
    def __init__(self, text: str):
        self.bmd = foamdict.parse_blockmeshdict(text)
        self.pos = np.array([v.pos for v in self.bmd.vertices], dtype=float).reshape(-1, 3)
        self.hexes = [h.ids for h in self.bmd.blocks]

    def hex_points(self, b: int) -> np.ndarray:
        return self.pos[self.hexes[b]]

    def centroid(self, b: int) -> np.ndarray:
        return self.pos[self.hexes[b]].mean(axis=0)


def write_and_decode(mesh) -> Decoded:
    text, _ = lt.write_text(mesh)
    return Decoded(text)


def live_hexes(mesh) -> Tuple[np.ndarray, List[List[int]]]:
    """vertex positions and hex vertex ids of an assembled (not necessarily gradable) mesh"""
    pos = np.array([v.position for v in mesh.vertices], dtype=float).reshape(-1, 3)
    hexes = [[v.index for v in b.vertices] for b in mesh.blocks]
    return pos, hexes


# --------------------------------------------------------------------------------------------------
# oracles shared by the cells

J_MIN = 1e-9  # a scaled corner Jacobian at or below this is "not positive" (generated shapes measure >= 0.02)


def check_jacobians(pos: np.ndarray, hexes: Sequence[Sequence[int]], facts: dict, owner=None) -> float:
    worst = 1.0
    for b, ids in enumerate(hexes):
        j = rm.hex_corner_jacobians(pos[list(ids)])
        worst = min(worst, float(j.min()))
        if j.min() <= J_MIN:
            extra = {} if owner is None else owner(b)
            raise Violation(
                "negative-jacobian",
                f"block {b} has corner Jacobians {np.round(j, 4).tolist()}",
                block=b, min_jacobian=float(j.min()), **extra, **facts,
            )
    return worst


def face_sets(ids: Sequence[int]) -> List[frozenset]:
    return [frozenset(ids[i] for i in side) for side in rm.HEX_SIDES.values()]


def check_connected(hexes: Sequence[Sequence[int]], facts: dict) -> int:
    """blocks are connected through faces with four common vertex ids; returns the number of interior faces"""
    owners: Dict[frozenset, List[int]] = {}
    for b, ids in enumerate(hexes):
        for fs in face_sets(ids):
            if len(fs) == 4:
                owners.setdefault(fs, []).append(b)
    uf = rm.UnionFind()
    for b in range(len(hexes)):
        uf.find(b)
    interior = 0
    for fs, bl in owners.items():
        if len(bl) > 2:
            raise Violation("face-used-by-three", f"face {sorted(fs)} belongs to blocks {bl}", **facts)
        if len(bl) == 2:
            interior += 1
            uf.union(bl[0], bl[1])
    groups = uf.groups()
    if len(groups) > 1:
        raise Violation("not-face-connected", f"{len(groups)} groups of blocks are not connected through shared faces",
                        groups=len(groups), **facts)
    return interior


def check_counts(n_blocks: int, n_vertices: int, spec_blocks: int, spec_vertices: int, facts: dict) -> None:
    if n_blocks != spec_blocks:
        raise Violation("block-count", f"{n_blocks} blocks, expected {spec_blocks}", got=n_blocks, want=spec_blocks, **facts)
    if n_vertices != spec_vertices:
        raise Violation("vertex-count", f"{n_vertices} vertices, expected {spec_vertices}", got=n_vertices,
                        want=spec_vertices, **facts)


def check_circles(dec: Decoded, circles: Sequence[Circle], facts: dict) -> int:
    """every arc whose end points lie on an intended circle has its third point on the short arc between them,
    and every intended circle carries the expected number of arcs"""
    found = [0] * len(circles)
    for e in dec.bmd.edges:
        if e.kind != "arc" or not isinstance(e.payload, tuple) or len(e.payload) != 3:
            continue
        a, b = dec.pos[e.a], dec.pos[e.b]
        for k, c in enumerate(circles):
            if c.has(a) and c.has(b):
                found[k] += 1
                p = np.asarray(e.payload, float)
                if not c.has(p):
                    d = p - c.c
                    raise Violation(
                        "arc-off-circle",
                        f"arc {e.a}-{e.b}: third point at radius {np.linalg.norm(d):.9g}, off-plane {d @ c.n:.3g}; "
                        f"intended radius {c.r:.9g}",
                        radius_error=float(abs(np.linalg.norm(d) - c.r) / c.r), **facts,
                    )
                # on the short side: angle(a,p) + angle(p,b) == angle(a,b)
                ang = lambda u, v: math.acos(max(-1.0, min(1.0, float((u - c.c) @ (v - c.c)) / c.r**2)))  # noqa: E731
                if abs(ang(a, p) + ang(p, b) - ang(a, b)) > 1e-4:
                    raise Violation("arc-wrong-side", f"arc {e.a}-{e.b}: third point is not between the end points", **facts)
                break
    for k, c in enumerate(circles):
        if found[k] != c.n_arcs and not (c.droppable and found[k] < c.n_arcs):
            raise Violation("arc-count", f"circle {k} (radius {c.r:.6g}) carries {found[k]} arcs, expected {c.n_arcs}",
                            circle=k, got=found[k], want=c.n_arcs, **facts)
    return sum(found)


def check_revolve_arcs(dec: Decoded, revolves, size: float, facts: dict) -> int:
    """side edges of revolved shapes: a vertex and its image under the revolution are joined by an arc whose third
    point has the same distance from the axis and the same axial position, on the short side"""
    arcs = {}
    for e in dec.bmd.edges:
        if e.kind == "arc" and isinstance(e.payload, tuple) and len(e.payload) == 3:
            arcs[(e.a, e.b)] = np.asarray(e.payload, float)
    checked = 0
    for o, a, ang in revolves:
        a = rm.unit(a)
        img = rm.apply(rm.m_rotate(ang, a, o), dec.pos)

        def polar_of(p):
            d = p - o
            ax = float(d @ a)
            return ax, d - ax * a

        for i in range(len(dec.pos)):
            dist = np.linalg.norm(dec.pos - img[i], axis=1)
            j = int(np.argmin(dist))
            if j == i or dist[j] > 1e-6 * size + 5e-8:
                continue
            ax_i, rad_i = polar_of(dec.pos[i])
            rho = float(np.linalg.norm(rad_i))
            tol = 1e-6 * rho + 5e-8
            if rho <= 1e-6 * size + 5e-8:
                continue  # on the axis
            p = arcs.get((i, j))
            if p is None:
                p = arcs.get((j, i))
            if p is None:
                # the library drops arcs that are straight within TOL = 1e-7; within 10x either outcome is accepted
                if 4 * rho**2 * math.sin(abs(ang) / 4) ** 2 * math.sin(abs(ang) / 2) >= 1e-6:
                    raise Violation("side-arc-missing", f"vertices {i} and {j} (its image under the revolution) are not "
                                    "joined by an arc", **facts)
                continue
            checked += 1
            ax_p, rad_p = polar_of(p)
            if abs(ax_p - ax_i) > tol or abs(float(np.linalg.norm(rad_p)) - rho) > tol:
                raise Violation(
                    "arc-off-circle",
                    f"side arc {i}-{j}: third point at distance {np.linalg.norm(rad_p):.9g} from the axis of revolution "
                    f"(axial offset {ax_p - ax_i:.3g}); the end points are at {rho:.9g}",
                    radius_error=float(abs(np.linalg.norm(rad_p) - rho) / rho), **facts,
                )
            _, rad_j = polar_of(dec.pos[j])
            ang_of = lambda u, v: math.acos(max(-1.0, min(1.0, float(u @ v) / (np.linalg.norm(u) * np.linalg.norm(v)))))  # noqa: E731
            if abs(ang_of(rad_i, rad_p) + ang_of(rad_p, rad_j) - ang_of(rad_i, rad_j)) > 1e-4:
                raise Violation("arc-wrong-side", f"side arc {i}-{j}: third point is not between the end points", **facts)
    return checked


def check_outlines(dec: Decoded, outlines, facts: dict) -> int:
    """every curved edge (arc, spline, polyLine) that joins two vertices of an intended boundary curve has all its
    control points on that curve"""
    checked = 0
    for e in dec.bmd.edges:
        if e.kind == "arc" and isinstance(e.payload, tuple) and len(e.payload) == 3:
            pts = [e.payload]
        elif e.kind in ("spline", "polyLine", "BSpline"):
            pts = e.payload
        else:
            continue
        for B, pred, ztol in outlines:
            def on(p, B=B, pred=pred, ztol=ztol):
                q = rm.apply(B, np.asarray(p, float))
                return abs(q[2]) <= ztol and pred(q)

            if on(dec.pos[e.a]) and on(dec.pos[e.b]):
                checked += 1
                off = [p for p in pts if not on(p)]
                if off:
                    raise Violation("edge-off-outline", f"{e.kind} {e.a}-{e.b} joins two points of the outline but "
                                    f"{len(off)} of its {len(pts)} control points leave it", edge_kind=e.kind, **facts)
                break
    return checked


def check_shared_edge_counts(dec: Decoded, facts: dict) -> int:
    _uf, edge_map = rm.families(dec.hexes)
    shared = 0
    for edge, users in edge_map.items():
        if len(users) < 2:
            continue
        shared += 1
        counts = sorted({dec.bmd.blocks[b].counts[ax] for b, ax, _ in users})
        if len(counts) != 1:
            raise Violation("shared-edge-count-differs", f"edge {sorted(edge)} has counts {counts}", **facts)
    return shared


def must_write(mesh, facts: dict) -> Decoded:
    """mesh.write must succeed and produce a parsable file"""
    try:
        text, _ = lt.write_text(mesh)
    except Exception as ex:  # noqa: BLE001
        raise Violation("write-failed", f"documented chops do not suffice: {type(ex).__name__}: {str(ex)[:200]}",
                        error=type(ex).__name__, **facts) from None
    try:
        return Decoded(text)
    except foamdict.FoamParseError as ex:
        raise Violation("unparsable", f"written file does not parse: {ex}", **facts) from None


# --------------------------------------------------------------------------------------------------
# round shapes (canonical frame: start centre at the origin, axis +z, first radius point at angle phi)

ROUND_CLASSES = ["Cylinder", "SemiCylinder", "Frustum", "FrustumMid", "Elbow", "ExtrudedRing", "RevolvedRing", "Hemisphere"]


@st.composite
def round_params(draw, cls: str):
    r = draw(radii)
    p: Dict[str, Any] = {"cls": cls, "r": r, "phi": draw(angles)}
    if cls in ("Cylinder", "SemiCylinder", "Frustum", "FrustumMid", "ExtrudedRing"):
        p["l"] = draw(st.floats(0.3, 5.0))  # length / radius
    if cls in ("Frustum", "FrustumMid", "Elbow"):
        p["r2"] = draw(st.floats(0.3, 3.0))  # end radius / start radius
    if cls == "FrustumMid":
        p["rmid"] = draw(st.floats(0.3, 3.0))
    if cls == "Elbow":
        p["sweep"] = math.radians(draw(st.floats(10.0, 170.0))) * draw(st.sampled_from([1, -1]))
        p["bend"] = draw(st.floats(1.3, 5.0))  # bend radius / largest pipe radius
    if cls == "ExtrudedRing":
        p["inner"] = draw(st.floats(0.2, 0.9))
        p["n"] = draw(st.integers(3, 12))
    if cls == "RevolvedRing":
        p["n"] = draw(st.integers(3, 12))
        p["w"] = draw(st.floats(0.3, 3.0))  # axial extent / r
        p["h"] = draw(st.floats(0.3, 3.0))  # radial extent / r
        p["jit"] = [draw(st.floats(-1.0, 1.0)) for _ in range(8)]
        p["arc"] = draw(st.booleans())
    return p


def build_round(p: dict, place) -> Spec:
    """builds the shape from world coordinates; fills in the expected counts and circles"""
    M = frame(place)
    cls = p["cls"]
    r, phi = p["r"], p["phi"]
    s = Spec(cls)
    s.size = r
    c1 = W(M, [0, 0, 0])
    n = D(M, Z)
    rp = W(M, polar(r, phi))
    ex = s.extra
    ex["axis"] = (c1, n)
    if cls in ("Cylinder", "SemiCylinder"):
        L = p["l"] * r
        c2 = W(M, [0, 0, L])
        shape = (cb.Cylinder if cls == "Cylinder" else cb.SemiCylinder)(c1, c2, rp)
        full = cls == "Cylinder"
        s.n_blocks, s.n_vertices = (12, 34) if full else (6, 22)
        s.circles = [Circle(c1, n, r, 8 if full else 4), Circle(c2, n, r, 8 if full else 4)]
        ex["ends"] = [(c1, n, r), (c2, n, r)]
    elif cls in ("Frustum", "FrustumMid"):
        L = p["l"] * r
        c2 = W(M, [0, 0, L])
        r2 = p["r2"] * r
        shape = cb.Frustum(c1, c2, rp, r2, p["rmid"] * r if cls == "FrustumMid" else None)
        s.n_blocks, s.n_vertices = 12, 34
        s.circles = [Circle(c1, n, r, 8), Circle(c2, n, r2, 8)]
        s.size = min(r, r2)
        ex["ends"] = [(c1, n, r), (c2, n, r2)]
    elif cls == "Elbow":
        r2 = p["r2"] * r
        bend = p["bend"] * max(r, r2)
        sgn = 1.0 if p["sweep"] > 0 else -1.0
        # arc centre on +x; rotating about +-y by +-theta moves the start disk along +z (its normal)
        ac = W(M, [bend, 0, 0])
        axis = D(M, [0, sgn, 0])
        shape = cb.Elbow(c1, rp, n * dlen(place), p["sweep"], ac, axis * dlen(place), r2)
        R = rm.m_rotate(p["sweep"], axis, ac)
        c2 = rm.apply(R, c1)
        n2 = rm.apply_dir(R, n)
        s.n_blocks, s.n_vertices = 12, 34
        s.circles = [Circle(c1, n, r, 8), Circle(c2, n2, r2, 8)]
        s.size = min(r, r2)
        ex["ends"] = [(c1, n, r), (c2, n2, r2)]
    elif cls == "ExtrudedRing":
        L = p["l"] * r
        c2 = W(M, [0, 0, L])
        ri = p["inner"] * r
        k = p["n"]
        shape = cb.ExtrudedRing(c1, c2, rp, ri, k)
        s.n_blocks, s.n_vertices = k, 4 * k
        seg = 2 * math.pi / k
        s.circles = [Circle(c1, n, r, k, seg), Circle(c2, n, r, k, seg), Circle(c1, n, ri, k, seg), Circle(c2, n, ri, k, seg)]
        s.size = min(r - ri, r * 2 * math.pi / k)
        ex["ends"] = [(c1, n, r), (c2, n, r)]
        ex["inner"] = ri
    elif cls == "RevolvedRing":
        # canonical: axis +x through the origin, cross-section in the xy-plane (y > 0), counter-clockwise seen from +z,
        # points 0, 1 nearest to the axis (as the class documentation asks)
        k = p["n"]
        w, h = p["w"] * r, p["h"] * r
        j = 0.2 * min(w, h)
        base = [(0.0, r), (w, r), (w, r + h), (0.0, r + h)]
        pts = [np.array([x + j * p["jit"][2 * i], y + j * p["jit"][2 * i + 1], 0.0]) for i, (x, y) in enumerate(base)]
        edges = [None, None, None, None]
        if p["arc"]:
            mid = (pts[2] + pts[3]) / 2 + np.array([0.0, 0.15 * h, 0.0])
            edges[2] = cb.Arc(W(M, mid))
        face = cb.Face([W(M, q) for q in pts], edges)
        shape = cb.RevolvedRing(c1, W(M, [dlen(place), 0, 0]), face, k)
        ax = D(M, X)
        s.n_blocks, s.n_vertices = k, 4 * k
        s.circles = [Circle(W(M, [q[0], 0, 0]), ax, q[1], k, 2 * math.pi / k) for q in pts]
        s.size = min(w, h, r * 2 * math.pi / k)
        ex["axis"] = (c1, ax)
        ex["outer_pts"] = [W(M, pts[2]), W(M, pts[3])]
    elif cls == "Hemisphere":
        shape = cb.Hemisphere(c1, rp, n * dlen(place))
        s.n_blocks, s.n_vertices = 16, 35
        ex["sphere"] = (c1, r)
    else:  # pragma: no cover
        raise ValueError(cls)
    s.entities = [shape]
    ex["shape"] = shape

    def chop(ch: dict, shape=shape, size=s.size) -> None:
        shape.chop_axial(**chop_kwargs(ch, 0, size))
        shape.chop_radial(**chop_kwargs(ch, 1, size))
        shape.chop_tangential(**chop_kwargs(ch, 2, size))

    s.chop = chop
    return s


# --------------------------------------------------------------------------------------------------
# joints (canonical frame: joint centre at the origin, first branch comes in along +y from (0, -L, 0), the branches
# fan out about +z)

JOINT_ANGLES = {"L": [0.0, math.pi / 2], "T": [0.0, math.pi / 2, 3 * math.pi / 2]}


@st.composite
def joint_params(draw, kind: str):
    p = {"kind": kind, "r": draw(radii), "l": draw(st.floats(3.0, 6.0))}
    if kind == "N":
        p["n"] = draw(st.integers(3, 6))
    return p


def build_joint(p: dict, place) -> Spec:
    M = frame(place)
    r = p["r"]
    L = p["l"] * r
    start = W(M, [0, -L, 0])
    centre = W(M, [0, 0, 0])
    rp = W(M, [0, -L, r])
    kind = p["kind"]
    if kind == "N":
        joint = NJoint(start, centre, rp, p["n"])
        angs = [2 * math.pi * i / p["n"] for i in range(p["n"])]
    else:
        joint = (LJoint if kind == "L" else TJoint)(start, centre, rp)
        angs = JOINT_ANGLES[kind]
    k = len(angs)
    s = Spec(kind + "Joint")
    s.size = r
    s.entities = [joint]
    # per branch a 12-block cylinder; 17 points on each hole face, 6 on each half-plane between branches, 5 on the
    # joint axis (two outer, two core, one centre)
    s.n_blocks = 12 * k
    s.n_vertices = 23 * k + 5
    for a in angs:
        R = rm.m_rotate(a, D(M, Z), centre)
        hole = rm.apply(R, start)
        s.circles.append(Circle(hole, centre - hole, r, 8))
    s.extra["shape"] = joint

    def chop(ch: dict) -> None:
        joint.chop_axial(**chop_kwargs(ch, 0, r))
        joint.chop_radial(**chop_kwargs(ch, 1, r))
        joint.chop_tangential(**chop_kwargs(ch, 2, r))

    s.chop = chop
    return s


# --------------------------------------------------------------------------------------------------
# shapes lofted from sketches, and stacks (canonical frame of the sketch; the sweep moves along +z = sketch normal)

SWEEPS = ["extrude-amount", "extrude-vector", "revolve", "loft", "loft-mid"]
STACKS = ["extruded-amount", "extruded-vector", "revolved", "transformed"]


def sketch_extent(p: dict) -> float:
    """largest distance of a sketch point from the canonical origin"""
    kind, r = p["kind"], p["r"]
    if kind == "Oval":
        return r * (1 + p["d"])
    if kind == "Grid":
        return r * math.hypot(1.0, p["aspect"])
    if "Spline" in kind:
        e = r * max(1.0, p["a2"])
        return e * (1 + max(p.get("w1", 0.0), p.get("w2", 0.0)))
    return r


@st.composite
def sweep_params(draw, how: str, stack: bool = False):
    q: Dict[str, Any] = {"how": how}
    if how in ("extrude-amount", "extruded-amount"):
        q["h"] = draw(st.floats(0.3, 3.0))
    elif how in ("extrude-vector", "extruded-vector"):
        q["h"] = draw(st.floats(0.3, 3.0))
        q["lean"] = [draw(st.floats(-0.5, 0.5)), draw(st.floats(-0.5, 0.5))]
    elif how in ("revolve", "revolved"):
        q["angle"] = math.radians(draw(st.floats(10.0, 120.0)))
        q["bend"] = draw(st.floats(1.3, 4.0))
        q["psi"] = draw(angles)
    elif how in ("loft", "loft-mid"):
        q["h"] = draw(st.floats(0.3, 3.0))
        q["lean"] = [draw(st.floats(-0.3, 0.3)), draw(st.floats(-0.3, 0.3))]
        q["scale"] = draw(st.floats(0.5, 2.0))
        if how == "loft-mid":
            q["bulge"] = [draw(st.floats(-0.2, 0.2)), draw(st.floats(-0.2, 0.2))]
    elif how == "transformed":
        q["h"] = draw(st.floats(0.2, 1.5))
        q["twist"] = math.radians(draw(st.floats(-40.0, 40.0)))
        q["mid"] = draw(st.booleans())
    if stack:
        q["repeats"] = draw(st.integers(1, 4))
    return q


def sweep_shape(sketch, sp: dict, q: dict, place):
    """-> (LoftedShape, [layer maps as 4x4 world matrices], [scale of each layer])"""
    M = frame(place)
    n = D(M, Z)
    c = W(M, sketch_origin(sp))
    r = sp["r"]
    how = q["how"]
    if how == "extrude-amount":
        amount = float(q["h"] * r)
        return cb.ExtrudedShape(sketch, amount), [np.eye(4), rm.m_translate(n * amount)], [1.0, 1.0]
    if how == "extrude-vector":
        v = D(M, [q["lean"][0], q["lean"][1], 1.0]) * q["h"] * r
        return cb.ExtrudedShape(sketch, v), [np.eye(4), rm.m_translate(v)], [1.0, 1.0]
    if how == "revolve":
        e = D(M, polar(1.0, q["psi"]))
        origin = c + e * q["bend"] * sketch_extent(sp)
        axis = np.cross(n, e)  # a positive angle moves the sketch along its normal
        return (cb.RevolvedShape(sketch, q["angle"], axis * dlen(place), origin),
                [np.eye(4), rm.m_rotate(q["angle"], axis, origin)], [1.0, 1.0])
    v = D(M, [q["lean"][0], q["lean"][1], 1.0]) * q["h"] * r
    k = q["scale"]
    s2 = sketch.copy().translate(v).scale(k, c + v)
    T2 = rm.m_translate(v) @ rm.m_scale(k, c)
    if how == "loft":
        return cb.LoftedShape(sketch, s2), [np.eye(4), T2], [1.0, k]
    b = D(M, [q["bulge"][0], q["bulge"][1], 0.0]) * r
    km = (1 + k) / 2
    sm = sketch.copy().translate(v / 2 + b).scale(km, c + v / 2 + b)
    return cb.LoftedShape(sketch, s2, sm), [np.eye(4), T2], [1.0, k]


def build_sketch_shape(sp: dict, q: dict, place) -> Spec:
    sketch, truth = make_sketch(sp, place)
    M = frame(place)
    shape, maps, scales = sweep_shape(sketch, sp, q, place)
    s = Spec(sp["kind"] + "/" + q["how"])
    s.entities = [shape]
    s.n_blocks = truth.faces
    s.n_vertices = 2 * truth.points
    s.size = truth.size * min(scales)
    n = D(M, Z)
    for T, k in zip(maps, scales):
        for cc, rr, na in truth.circles:
            s.circles.append(Circle(rm.apply(T, W(M, cc)), rm.apply_dir(T, n), rr * k, na))
    s.extra.update(shape=shape, sketch=sketch, truth=truth, maps=maps)
    Minv = np.linalg.inv(M)
    for T in maps:
        for pred in truth.outlines:
            s.outlines.append((Minv @ np.linalg.inv(T), pred, 1e-6 * truth.size + 5e-8))
    if q["how"] == "revolve":
        e = D(M, polar(1.0, q["psi"]))
        s.revolves = [(W(M, sketch_origin(sp)) + e * q["bend"] * sketch_extent(sp), np.cross(n, e), q["angle"])]
    if sp["kind"] == "Grid":
        s.chop_claimed = False

        def chop(ch: dict) -> None:
            # Grid has no chop lists: one chop per column, row and the sweep, addressed through the documented grid
            for i in range(sp["n1"]):
                shape.grid[0][i].chop(0, **chop_kwargs(ch, 0, s.size))
            for j in range(sp["n2"]):
                shape.grid[j][0].chop(1, **chop_kwargs(ch, 1, s.size))
            shape.grid[0][0].chop(2, **chop_kwargs(ch, 2, s.size))
    else:

        def chop(ch: dict) -> None:
            for axis in (0, 1, 2):
                shape.chop(axis, **chop_kwargs(ch, axis, s.size))

    s.chop = chop
    return s


def stack_maps(sp: dict, q: dict, place) -> List[np.ndarray]:
    """world maps taking the base sketch to layer 0 .. repeats (independent reference for the stack constructors)"""
    M = frame(place)
    n = D(M, Z)
    c = W(M, sketch_origin(sp))
    r = sp["r"]
    k = q["repeats"]
    how = q["how"]
    if how == "extruded-amount":
        S = rm.m_translate(n * q["h"] * r / k)
    elif how == "extruded-vector":
        S = rm.m_translate(D(M, [q["lean"][0], q["lean"][1], 1.0]) * q["h"] * r / k)
    elif how == "revolved":
        e = D(M, polar(1.0, q["psi"]))
        origin = c + e * q["bend"] * sketch_extent(sp)
        S = rm.m_rotate(q["angle"] / k, np.cross(n, e), origin)
    else:
        S = rm.m_rotate(q["twist"], n, c) @ rm.m_translate(n * q["h"] * r)
    out = [np.eye(4)]
    for _ in range(k):
        out.append(S @ out[-1])
    return out


def stack_mid_map(sp: dict, q: dict, place):
    """world map taking a point of a tier's start sketch to the control point of its curved side edge (None when the
    side edges are straight); tier k uses maps[k] @ this map applied to the base sketch"""
    M = frame(place)
    n = D(M, Z)
    c = W(M, sketch_origin(sp))
    r = sp["r"]
    k = q["repeats"]
    if q["how"] == "revolved":
        e = D(M, polar(1.0, q["psi"]))
        origin = c + e * q["bend"] * sketch_extent(sp)
        return rm.m_rotate(q["angle"] / k / 2, np.cross(n, e), origin)
    if q["how"] == "transformed" and q["mid"]:
        return rm.m_rotate(q["twist"] / 2, n, c) @ rm.m_translate(n * q["h"] * r / 2)
    return None


def build_stack(sp: dict, q: dict, place) -> Spec:
    sketch, truth = make_sketch(sp, place)
    M = frame(place)
    n = D(M, Z)
    c = W(M, sketch_origin(sp))
    r = sp["r"]
    k = q["repeats"]
    how = q["how"]
    if how == "extruded-amount":
        stack = cb.ExtrudedStack(sketch, float(q["h"] * r), k)
    elif how == "extruded-vector":
        stack = cb.ExtrudedStack(sketch, D(M, [q["lean"][0], q["lean"][1], 1.0]) * q["h"] * r, k)
    elif how == "revolved":
        e = D(M, polar(1.0, q["psi"]))
        origin = c + e * q["bend"] * sketch_extent(sp)
        stack = cb.RevolvedStack(sketch, q["angle"], np.cross(n, e) * dlen(place), origin, k)
    else:
        v = n * q["h"] * r
        end = [cb.Translation(v), cb.Rotation(n * dlen(place), q["twist"], c)]
        mid = [cb.Translation(v / 2), cb.Rotation(n * dlen(place), q["twist"] / 2, c)] if q["mid"] else None
        stack = cb.TransformedStack(sketch, end, k, mid)
    maps = stack_maps(sp, q, place)
    s = Spec("stack/" + sp["kind"] + "/" + how)
    s.entities = [stack]
    s.n_blocks = truth.faces * k
    s.n_vertices = truth.points * (k + 1)
    s.size = truth.size
    for T in maps:
        for cc, rr, na in truth.circles:
            s.circles.append(Circle(rm.apply(T, W(M, cc)), rm.apply_dir(T, n), rr, na))
    s.extra.update(shape=stack, sketch=sketch, truth=truth, maps=maps)
    if how == "revolved":
        e = D(M, polar(1.0, q["psi"]))
        s.revolves = [(c + e * q["bend"] * sketch_extent(sp), np.cross(n, e), q["angle"] / k)]
    if sp["kind"] == "Grid":
        s.chop_claimed = False

        def chop(ch: dict) -> None:
            for i in range(sp["n1"]):
                stack.grid[0][0][i].chop(0, **chop_kwargs(ch, 0, s.size))
            for j in range(sp["n2"]):
                stack.grid[0][j][0].chop(1, **chop_kwargs(ch, 1, s.size))
            stack.chop(**chop_kwargs(ch, 2, s.size))
    else:

        def chop(ch: dict) -> None:
            stack.shapes[0].chop(0, **chop_kwargs(ch, 0, s.size))
            stack.shapes[0].chop(1, **chop_kwargs(ch, 1, s.size))
            stack.chop(**chop_kwargs(ch, 2, s.size))

    s.chop = chop
    return s
