"""Shared by C05/C06: side/corner addressing of a hexahedron in the *global* lattice frame, derived from the
OpenFOAM sketch (vf.refmodel.HEX_SIDES), not from classy_blocks' FACE_MAP.

global side g: 0 = -x, 1 = +x, 2 = -y, 3 = +y, 4 = -z, 5 = +z
"""

from __future__ import annotations

from typing import Dict, List, Sequence, Tuple

from vf.lattice import CANON, ROT
from vf.refmodel import HEX_SIDES

SIDE_NAMES = ["bottom", "top", "left", "right", "front", "back"]


def canon_side_corners(g: int) -> frozenset:
    axis, val = g // 2, g % 2
    return frozenset(q for q in range(8) if CANON[q][axis] == val)


def local_side_name(rot: int, g: int) -> str:
    """name (in the block's own numbering) of the side that lies on global side g of the lattice cell"""
    perm = ROT[rot]
    want = canon_side_corners(g)
    for name in SIDE_NAMES:
        if frozenset(perm[i] for i in HEX_SIDES[name]) == want:
            return name
    raise AssertionError("no side matches")  # pragma: no cover


def global_side_of(rot: int, name: str) -> int:
    perm = ROT[rot]
    have = frozenset(perm[i] for i in HEX_SIDES[name])
    for g in range(6):
        if canon_side_corners(g) == have:
            return g
    raise AssertionError("no global side matches")  # pragma: no cover


def sides_at_canon_corner(q: int) -> List[int]:
    """the three global sides touching canonical corner q"""
    return [2 * a + CANON[q][a] for a in range(3)]


def sides_at_local_corner(i: int) -> List[str]:
    """names of the three sides touching local corner i (R-HEX)"""
    return [name for name in SIDE_NAMES if i in HEX_SIDES[name]]


def is_cycle_of(quad: Sequence[int], side: Sequence[int]) -> bool:
    """quad is the cyclic sequence `side` started anywhere, in either sense"""
    quad, side = list(quad), list(side)
    if len(quad) != 4 or sorted(quad) != sorted(side) or len(set(quad)) != len(quad):
        # degenerate (collapsed) sides: compare as cyclic sequences with repeats
        if sorted(quad) != sorted(side):
            return False
    for seq in (side, side[::-1]):
        for s in range(4):
            if seq[s:] + seq[:s] == quad:
                return True
    return False


def block_side_cycles(ids: Sequence[int]) -> Dict[str, Tuple[int, ...]]:
    """vertex labels of the six sides of a hex entry, as cycles"""
    return {name: tuple(ids[i] for i in HEX_SIDES[name]) for name in SIDE_NAMES}


def side_name_of_perm(perm: Sequence[int], g: int) -> str:
    """as local_side_name, for any corner numbering given as perm[local corner] = canonical corner of the cell"""
    want = canon_side_corners(g)
    for name in SIDE_NAMES:
        if frozenset(perm[i] for i in HEX_SIDES[name]) == want:
            return name
    raise AssertionError("no side matches")  # pragma: no cover


def global_side_of_perm(perm: Sequence[int], name: str) -> int:
    have = frozenset(perm[i] for i in HEX_SIDES[name])
    for g in range(6):
        if canon_side_corners(g) == have:
            return g
    raise AssertionError("no global side matches")  # pragma: no cover
