"""Shared by C07 / C08: curved-edge specifications relative to two end points, their independent ground truth
(R-ARC circle frame, polylines, analytic curves) and the library EdgeData built from them.

A *spec* is plain JSON, relative to the declared sense X -> Y of an edge:
  line            {}
  arc             theta (included angle of the arc X->Y), phi (roll of the bulge about the chord), frac (where on the
                  arc the user's point sits)
  arc-collinear   s (user's point = X + s (Y - X))
  origin          theta < pi, phi                      (centre equidistant by construction, flatness 1)
  angle           theta, phi, sign (+1: Angle(theta, k), -1: Angle(-theta, -k)), axis_scale (non-unit axis)
  spline/polyLine pts [[s, a, b], ...]  -> X + s d + L (a u + b v)
  project         labels
  curve-line      tx, ty (parameters of X and Y on the LineCurve), lo, hi (bounds margins), n, repr
  curve-circle    theta, phi, lead, trail, reverse, n, repr
  curve-linear    pts (interior break points), lead, trail (extensions beyond X / Y or null), reverse, n, repr

Circle frame (all arcs): e1 = unit chord, w = unit bulge direction (perpendicular), centre C = M - R cos(theta/2) w,
P(alpha) = C + R (sin(alpha) e1 + cos(alpha) w), alpha in [-theta/2, theta/2]; P(-theta/2) = X, P(theta/2) = Y, apex
P(0); the arc X->Y is a rotation by +theta about k = w x e1.
"""

from __future__ import annotations

import math
import warnings
from typing import Any, Dict, List, Optional, Tuple

import numpy as np
from hypothesis import strategies as st

from vf.core import Violation

warnings.simplefilter("ignore")

def single_thread_blas() -> None:
    """Performance only (no effect on results): 16 worker processes each with a full OpenBLAS thread pool make a 3x3
    scipy.linalg.expm (functions.rotate) ~300x slower.  Best effort; silent when the symbols are not there."""
    import ctypes

    try:
        import scipy.linalg  # noqa: F401  (loads scipy's BLAS)

        with open("/proc/self/maps") as f:
            libs = sorted({line.split()[-1] for line in f if "openblas" in line})
        for lib in libs:
            handle = ctypes.CDLL(lib)
            for name in ("openblas_set_num_threads", "openblas_set_num_threads64_", "scipy_openblas_set_num_threads",
                         "scipy_openblas_set_num_threads64_"):
                if hasattr(handle, name):
                    getattr(handle, name)(1)
    except Exception:  # noqa: BLE001
        pass


single_thread_blas()

ARC_KINDS = ("arc", "origin", "angle")
POINT_KINDS = ("spline", "polyLine")
CURVE_KINDS = ("curve-line", "curve-circle", "curve-linear")
DIRECTIONAL = ("angle", "spline", "polyLine")  # payload depends on the declared sense
DEGENERATE = ("line", "arc-collinear")
# direction-dependent kinds first (Hypothesis favours the head of a list); the expensive circle curve last
ALL_VALID = ("spline", "angle", "polyLine", "arc", "origin", "project", "curve-linear", "curve-line", "curve-circle")

# 8 printed decimals -> rounding 5e-9 per coordinate; 20x margin, plus relative part for large radii
PRINT_TOL = 1e-7


def frame(X, Y) -> Tuple[np.ndarray, float, np.ndarray, np.ndarray]:
    """unit chord e1, chord length, and two unit vectors u, v completing a right-handed frame (deterministic)"""
    X = np.asarray(X, float)
    Y = np.asarray(Y, float)
    d = Y - X
    L = float(np.linalg.norm(d))
    e1 = d / L
    k = int(np.argmin(np.abs(e1)))
    a = np.zeros(3)
    a[k] = 1.0
    u = np.cross(e1, a)
    u /= np.linalg.norm(u)
    v = np.cross(e1, u)
    return e1, L, u, v


class Circle:
    """the circle frame described in the module docstring"""

    def __init__(self, X, Y, theta: float, phi: float):
        self.X = np.asarray(X, float)
        self.Y = np.asarray(Y, float)
        self.e1, self.L, u, v = frame(X, Y)
        self.w = math.cos(phi) * u + math.sin(phi) * v
        self.theta = theta
        self.R = self.L / (2.0 * math.sin(theta / 2.0))
        self.C = 0.5 * (self.X + self.Y) - self.R * math.cos(theta / 2.0) * self.w
        self.k = np.cross(self.w, self.e1)

    def P(self, alpha: float) -> np.ndarray:
        return self.C + self.R * (math.sin(alpha) * self.e1 + math.cos(alpha) * self.w)

    def alpha_of(self, p) -> Tuple[float, float, float]:
        """(alpha, radial deviation, out-of-plane deviation) of a point"""
        q = np.asarray(p, float) - self.C
        return (math.atan2(float(q @ self.e1), float(q @ self.w)), abs(float(np.linalg.norm(q)) - self.R),
                abs(float(q @ self.k)))


def _abs_pts(spec_pts, X, Y) -> List[np.ndarray]:
    e1, L, u, v = frame(X, Y)
    X = np.asarray(X, float)
    return [X + s * L * e1 + L * (a * u + b * v) for s, a, b in spec_pts]


def polyline_length(pts) -> float:
    return float(sum(np.linalg.norm(np.asarray(pts[i + 1], float) - np.asarray(pts[i], float)) for i in range(len(pts) - 1)))


class Truth:
    """Ground truth of one user-declared edge between positions X and Y (declared sense X -> Y)."""

    def __init__(self, spec: Dict[str, Any], X, Y):
        self.spec = spec
        self.kind: str = spec["kind"]
        self.X = np.asarray(X, float)
        self.Y = np.asarray(Y, float)
        self.chord = float(np.linalg.norm(self.Y - self.X))
        self.degenerate = self.kind in DEGENERATE or self.chord < 1e-9
        self.entry_kind: Optional[str] = None
        self.third: Optional[np.ndarray] = None
        self.pts: Optional[List[np.ndarray]] = None
        self.labels: Optional[List[str]] = None
        self.length: Optional[float] = self.chord
        self.len_rtol = 1e-9
        self.circle: Optional[Circle] = None
        self.n_points: Optional[int] = None
        self.poly: Optional[List[np.ndarray]] = None  # curve-linear: all break points in X->Y sense
        if self.chord < 1e-9:
            return
        k = self.kind
        if k in ARC_KINDS or k == "curve-circle":
            self.circle = Circle(X, Y, spec["theta"], spec["phi"])
        if k in ARC_KINDS:
            self.entry_kind = "arc"
            c = self.circle
            # the 3-point arc is written with the user's point, the alternatives with the arc's middle
            self.third = c.P(-c.theta / 2 + spec["frac"] * c.theta) if k == "arc" else c.P(0.0)
            self.length = c.R * c.theta
            self.len_rtol = 1e-7  # arccos near +-1 loses half the digits
        elif k == "arc-collinear":
            self.third = self.X + spec["s"] * (self.Y - self.X)
        elif k in POINT_KINDS:
            self.entry_kind = k
            self.pts = _abs_pts(spec["pts"], X, Y)
            self.length = polyline_length([self.X, *self.pts, self.Y])
        elif k == "project":
            self.entry_kind = "project"
            self.labels = sorted(spec["labels"])
            self.length = None  # the library cannot know it; not asserted
        elif k == "curve-line":
            self.entry_kind = spec["repr"]
            self.n_points = spec["n"]
            self.len_rtol = 1e-6  # end parameters come from an iterative closest-point search (measured 1e-8)
        elif k == "curve-circle":
            self.entry_kind = spec["repr"]
            self.n_points = spec["n"]
            c = self.circle
            self.length = c.R * c.theta
            # the library sums a 100-point inscribed polygon: deficit <= (theta/198)^2/6 relative; + search error
            self.len_rtol = (c.theta / 198.0) ** 2 / 6.0 * 1.01 + 1e-6
        elif k == "curve-linear":
            self.entry_kind = spec["repr"]
            self.n_points = spec["n"]
            inner = _abs_pts(spec["pts"], X, Y)
            self.poly = [self.X, *inner, self.Y]
            self.length = None  # interpolated-curve length is C16's business (ledger F23); direction is checked
        elif k == "line":
            pass
        else:  # pragma: no cover
            raise ValueError(k)

    # ---------------------------------------------------------------------------------------------
    def edge_data(self, reverse: bool = False):
        """library EdgeData describing this curve, declared in the sense X->Y (or Y->X when reverse)"""
        import classy_blocks as cb
        from classy_blocks.construct.curves.analytic import CircleCurve, LineCurve
        from classy_blocks.construct.curves.interpolated import LinearInterpolatedCurve

        s = self.spec
        k = self.kind
        if k == "line":
            return None
        if self.chord < 1e-9:
            # zero-length edge: the payload is irrelevant but must be constructible
            if k in POINT_KINDS:
                return getattr(cb, "Spline" if k == "spline" else "PolyLine")([self.X + [0.1, 0.2, 0.3], self.X + [0.3, 0.1, 0.2]])
            if k == "project":
                return cb.Project(list(s["labels"]))
            if k == "origin":
                return cb.Origin(self.X + [0.1, 0.2, 0.3])
            if k == "angle":
                return cb.Angle(s["sign"] * s["theta"], [0.3, -0.5, 0.8])
            return cb.Arc(self.X + [0.1, 0.2, 0.3])
        if k in ("arc", "arc-collinear"):
            return cb.Arc(self.third)
        c = self.circle
        if k == "origin":
            return cb.Origin(c.C)
        if k == "angle":
            sense = -1.0 if reverse else 1.0
            sg = float(s["sign"])
            return cb.Angle(sense * sg * c.theta, sg * s.get("axis_scale", 1.0) * c.k)
        if k in POINT_KINDS:
            pts = self.pts[::-1] if reverse else self.pts
            return (cb.Spline if k == "spline" else cb.PolyLine)([list(map(float, p)) for p in pts])
        if k == "project":
            lab = list(s["labels"])
            return cb.Project(lab[0] if len(lab) == 1 else lab)
        if k == "curve-line":
            tx, ty = s["tx"], s["ty"]
            step = (self.Y - self.X) / (ty - tx)
            p1 = self.X - tx * step
            bounds = (min(tx, ty) - s["lo"], max(tx, ty) + s["hi"])
            return cb.OnCurve(LineCurve(p1, p1 + step, bounds), n_points=s["n"], representation=s["repr"])
        if k == "curve-circle":
            span = s["lead"] + c.theta + s["trail"]
            if s["reverse"]:
                rim, normal = c.P(c.theta / 2 + s["trail"]), -c.k
            else:
                rim, normal = c.P(-c.theta / 2 - s["lead"]), c.k
            return cb.OnCurve(CircleCurve(c.C, rim, normal, (0.0, span)), n_points=s["n"], representation=s["repr"])
        if k == "curve-linear":
            pts = self.full_poly()
            if s["reverse"]:
                pts = pts[::-1]
            return cb.OnCurve(LinearInterpolatedCurve([list(map(float, p)) for p in pts]), n_points=s["n"],
                              representation=s["repr"])
        raise ValueError(k)  # pragma: no cover

    def translated(self, d) -> "Truth":
        """the same curve moved by d (spline / polyLine / line / project only).  Not re-derived from the spec: the frame
        of an axis-aligned chord depends on exact zeros that a translation perturbs by rounding"""
        import copy

        assert self.kind in POINT_KINDS + ("line", "project")
        d = np.asarray(d, float)
        t = copy.copy(self)
        t.X, t.Y = self.X + d, self.Y + d
        if self.pts is not None:
            t.pts = [q + d for q in self.pts]
        return t

    def point_at(self, t: float) -> np.ndarray:
        """curve kinds: the point at coordinate t (arc length from X towards Y, 0 <= t <= span)"""
        if self.kind == "curve-line":
            return self.X + t * (self.Y - self.X) / self.chord
        if self.kind == "curve-circle":
            return self.circle.P(-self.circle.theta / 2 + t / self.circle.R)
        run = 0.0
        for a, b in zip(self.poly[:-1], self.poly[1:]):
            sl = float(np.linalg.norm(b - a))
            if t <= run + sl or b is self.poly[-1]:
                return a + (b - a) * min(1.0, max(0.0, (t - run) / sl))
            run += sl
        raise AssertionError

    def slid(self, t0: float, t1: float) -> "Truth":
        """the same user curve with the end vertices moved along it to coordinates t0 < t1"""
        import copy

        assert self.kind in CURVE_KINDS
        t = copy.copy(self)
        t.base, t.trange = self, (t0, t1)
        t.X, t.Y = self.point_at(t0), self.point_at(t1)
        t.chord = float(np.linalg.norm(t.Y - t.X))
        if self.kind == "curve-line":
            t.length = t1 - t0
        elif self.kind == "curve-circle":
            t.length = t1 - t0
            t.len_rtol = ((t1 - t0) / self.circle.R / 198.0) ** 2 / 6.0 * 1.01 + 1e-6
        return t

    def moved(self, M) -> "Truth":
        """the same curve mapped by a rigid 4x4 map (spline / polyLine / line / project only)"""
        import copy

        from vf.refmodel import apply

        assert self.kind in POINT_KINDS + ("line", "project")
        t = copy.copy(self)
        t.X, t.Y = apply(M, self.X), apply(M, self.Y)
        if self.pts is not None:
            t.pts = [apply(M, q) for q in self.pts]
        return t

    def full_poly(self) -> List[np.ndarray]:
        """curve-linear: break points including the extensions beyond X and Y, in X->Y sense"""
        s = self.spec
        pts = list(self.poly)
        if s.get("lead"):
            pts = _abs_pts([s["lead"]], self.X, self.Y) + pts
        if s.get("trail"):
            pts = pts + _abs_pts([s["trail"]], self.X, self.Y)
        return pts

    # ---------------------------------------------------------------------------------------------
    def coordinate(self, p) -> Tuple[float, float]:
        """curve kinds: (coordinate along the user's curve growing from X to Y, distance from the curve)"""
        p = np.asarray(p, float)
        if self.kind == "curve-line":
            e1 = (self.Y - self.X) / self.chord
            t = float((p - self.X) @ e1)
            return t, float(np.linalg.norm(p - self.X - t * e1))
        if self.kind == "curve-circle":
            a, dr, dz = self.circle.alpha_of(p)
            return (a + self.circle.theta / 2) * self.circle.R, math.hypot(dr, dz)
        pts = self.full_poly()
        off = -polyline_length(pts[: 1 + (1 if self.spec.get("lead") else 0)])
        best = (0.0, float("inf"))
        run = 0.0
        for i in range(len(pts) - 1):
            a, b = pts[i], pts[i + 1]
            seg = b - a
            sl = float(np.linalg.norm(seg))
            t = min(1.0, max(0.0, float((p - a) @ seg) / (sl * sl)))
            dist = float(np.linalg.norm(p - a - t * seg))
            if dist < best[1]:
                best = (run + t * sl + off, dist)
            run += sl
        return best

    def span(self) -> float:
        """coordinate of Y (coordinate of X is 0)"""
        if self.kind == "curve-line":
            return self.chord
        if self.kind == "curve-circle":
            return self.circle.R * self.circle.theta
        return polyline_length(self.poly)


# --------------------------------------------------------------------------------------------------
# oracle for one parsed entry


def close(p, q, scale: float = 1.0) -> bool:
    return float(np.linalg.norm(np.asarray(p, float) - np.asarray(q, float))) <= PRINT_TOL + 1e-9 * scale


def check_entry(entry, pa, pb, truth: Truth, facts: Dict[str, Any]) -> None:
    """entry: foamdict.Edge; pa, pb: positions of its two vertices.  Raises Violation when kind, data or direction
    differ from the user's curve `truth` (declared X->Y)."""
    forward = close(pa, truth.X) and close(pb, truth.Y)
    backward = close(pa, truth.Y) and close(pb, truth.X)
    if not (forward or backward):
        raise Violation("entry-wrong-vertices", "entry does not join the end points of the user's edge", **facts)
    facts = dict(facts, entry_forward=bool(forward))
    if entry.kind != truth.entry_kind:
        raise Violation("entry-kind", f"entry kind {entry.kind!r}, expected {truth.entry_kind!r}", **facts)
    k = truth.kind
    if k in ARC_KINDS:
        if len(entry.payload) != 3:  # `arc a b angle (axis)` form
            raise Violation("entry-data", "arc entry without a point", **facts)
        c = truth.circle
        scale = c.R + float(np.linalg.norm(c.C))
        if not close(entry.payload, truth.third, scale):
            tag = "arc-point"
            if k == "angle":
                # diagnosis only (root-cause tag): the same angle and axis evaluated from Y to X give the arc mirrored
                # across the chord; the diametrically opposite point is the reflex-arc defect (ledger F9)
                mid = 0.5 * (truth.X + truth.Y)
                if close(entry.payload, mid - c.R * (1 - math.cos(c.theta / 2)) * c.w, scale):
                    tag = "arc-on-wrong-side"
                elif close(entry.payload, c.C - c.R * c.w, scale):
                    tag = "arc-antipode"
            raise Violation(tag, f"arc point {list(entry.payload)} is not the point {truth.third.tolist()} of the user's arc",
                            **facts)
        return
    if k in POINT_KINDS:
        got = [np.asarray(p, float) for p in entry.payload]
        want = truth.pts if forward else truth.pts[::-1]
        if len(got) != len(want):
            raise Violation("point-count", f"{len(got)} points written, {len(want)} given", **facts)
        if all(close(g, w) for g, w in zip(got, want)):
            return
        if all(close(g, w) for g, w in zip(got, want[::-1])):
            raise Violation("points-against-entry-direction",
                            "the points run from the entry's second vertex to its first", **facts)
        raise Violation("points-differ", "written points are not the user's points", **facts)
    if k == "project":
        if sorted(entry.payload) != truth.labels:
            raise Violation("labels-differ", f"labels {entry.payload} != {truth.labels}", **facts)
        return
    # curve kinds: points on the user's curve, strictly between and ordered from vertex a to vertex b
    got = [np.asarray(p, float) for p in entry.payload]
    if len(got) != truth.n_points:
        raise Violation("point-count", f"{len(got)} points written, n_points = {truth.n_points}", **facts)
    base = getattr(truth, "base", truth)  # vertices slid along the curve: coordinates stay those of the user's curve
    t0, t1 = getattr(truth, "trange", (0.0, base.span()))
    span = t1 - t0
    ta, tb = (t0, t1) if forward else (t1, t0)
    sgn = 1.0 if tb > ta else -1.0
    step = span / (len(got) + 1)
    prev = ta
    scale = truth.chord + (truth.circle.R if truth.circle else 0.0)
    for i, p in enumerate(got):
        t, dist = base.coordinate(p)
        if dist > PRINT_TOL + 1e-7 * scale:  # + closest-parameter search error (measured 1e-8 relative)
            raise Violation("point-off-curve", f"point {i} is {dist:.3g} away from the user's curve", **facts)
        # uniform in parameter = uniform in arc length for these curves; 1e-3 of that spacing is the margin
        if sgn * (t - prev) < 1e-3 * step:
            raise Violation("points-against-entry-direction",
                            f"point {i} at {t:.6g} does not follow {prev:.6g} in the sense of the entry", **facts)
        prev = t
    if sgn * (tb - prev) < 1e-3 * step:
        raise Violation("points-against-entry-direction", "last point is not before the entry's second vertex", **facts)


# --------------------------------------------------------------------------------------------------
# strategies for specs

_phi = st.floats(0.0, 2 * math.pi)


def _theta(lo: float, hi: float):
    return st.floats(lo, hi)


@st.composite
def _rel_pts(draw, lo: int, hi: int, amp: float = 0.35):
    n = draw(st.integers(lo, hi))
    # front-loaded along the chord so that the reversed order is a visibly different (longer) polyline
    ss = sorted(draw(st.lists(st.floats(0.05, 0.95), min_size=n, max_size=n)))
    ss = [0.05 + 0.9 * ((s - 0.05) / 0.9) ** 2 for s in ss]
    for i in range(1, n):
        if ss[i] - ss[i - 1] < 0.02:
            ss[i] = ss[i - 1] + 0.02
    return [[ss[i], draw(st.floats(-amp, amp)), draw(st.floats(-amp, amp))] for i in range(n)]


@st.composite
def spec(draw, kind: str, reflex: bool = False):
    if kind == "line":
        return {"kind": "line"}
    if kind == "arc":
        theta = draw(_theta(0.2, 4.5 if reflex else 2.9))
        # ledger F10 (OpenFOAM's interior/exterior test) is C08's business: keep the point within pi of both ends
        # (an inverted face traverses the edge from the other end)
        fmax = min(0.9, (math.pi - 0.2) / theta)
        return {"kind": "arc", "theta": theta, "phi": draw(_phi), "frac": draw(st.floats(1.0 - fmax, fmax))}
    if kind == "arc-collinear":
        return {"kind": "arc-collinear", "s": draw(st.sampled_from([0.5, 0.25, 0.1, 0.9]) | st.floats(0.05, 0.95))}
    if kind == "origin":
        return {"kind": "origin", "theta": draw(_theta(0.2, 2.9)), "phi": draw(_phi)}
    if kind == "angle":
        return {"kind": "angle", "theta": draw(_theta(0.2, 5.5 if reflex else 2.9)), "phi": draw(_phi),
                "sign": draw(st.sampled_from([1, -1])), "axis_scale": draw(st.sampled_from([1.0, 1.0, 2.5, 0.3]))}
    if kind in POINT_KINDS:
        return {"kind": kind, "pts": draw(_rel_pts(2, 5))}
    if kind == "project":
        return {"kind": "project", "labels": draw(st.sampled_from([["geo"], ["geo", "geo2"], ["geo2"]]))}
    n = draw(st.integers(1, 8))
    rep = draw(st.sampled_from(["spline", "spline", "polyLine"]))
    if kind == "curve-line":
        tx = draw(st.floats(-1.0, 1.0))
        dt = draw(st.floats(0.3, 2.0)) * draw(st.sampled_from([1, -1]))
        return {"kind": kind, "tx": tx, "ty": tx + dt, "lo": draw(st.floats(0.05, 1.0)), "hi": draw(st.floats(0.05, 1.0)),
                "n": n, "repr": rep}
    if kind == "curve-circle":
        theta = draw(_theta(0.2, 2.9))
        # the whole parameter range stays below a full turn: the closest-parameter search of a full circle is
        # unreliable near the seam (0 == 2 pi), which is not this property's subject
        lead = draw(st.floats(0.05, 1.4))
        trail = draw(st.floats(0.05, 1.4))
        return {"kind": kind, "theta": theta, "phi": draw(_phi), "lead": lead, "trail": trail,
                "reverse": draw(st.booleans()), "n": n, "repr": rep}
    if kind == "curve-linear":
        lead = [-draw(st.floats(0.1, 0.5)), draw(st.floats(-0.2, 0.2)), draw(st.floats(-0.2, 0.2))] if draw(st.booleans()) else None
        trail = [1 + draw(st.floats(0.1, 0.5)), draw(st.floats(-0.2, 0.2)), draw(st.floats(-0.2, 0.2))] if draw(st.booleans()) else None
        return {"kind": kind, "pts": draw(_rel_pts(0, 4, amp=0.25)), "lead": lead, "trail": trail,
                "reverse": draw(st.booleans()), "n": n, "repr": rep}
    raise ValueError(kind)


def any_spec(kinds, reflex: bool = False):
    return st.sampled_from(list(kinds)).flatmap(lambda k: spec(k, reflex=reflex))
