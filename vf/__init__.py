"""Property-based verification harness for classy_blocks (see /verif/DESIGN.md)."""
