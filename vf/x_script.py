"""G-SCRIPT (C06): user programs composed from the public API, as plain JSON, plus
  * `build(case)`     : executes the program against classy_blocks (entities, chops, statements, write is left to the cell)
  * `interpret(case, ops_points)` : the script-level model - what the user declared - computed by the harness alone.

A case:
  entities : list of entity specs (kind + parameters + chop plan), entity e lives around (40 e, 0, 0) so entities
             never touch (except the two boxes of a "stacked" entity, which meet at a merged interface)
  script   : list of statements {"do": ...}; every entity is added by exactly one {"do": "add"} statement
Operations are addressed as (entity index, index into entity.operations).
"""

from __future__ import annotations

import math
import warnings
from typing import Any, Dict, List, Optional, Tuple

import numpy as np
from hypothesis import strategies as st

from vf import lattice as lt
from vf import x_sides as xs
from vf.refmodel import HEX_EDGES, HEX_SIDES, rodrigues

warnings.simplefilter("ignore")

SIDE_NAMES = ["bottom", "top", "left", "right", "front", "back"]
PATCHES = ["inlet", "outlet", "walls", "sym", "aux"]
KINDS = ["patch", "wall", "empty", "symmetry", "cyclic"]
PATCH_SETTINGS = [["neighbourPatch outlet"], ["inGroups (walls)", "transform rotational"], [], ["separation (0 0 1)"]]
ZONES = ["zoneA", "zoneB", "rotor"]
EDGE_LABELS = ["terrain", "ball"]  # at most two labels ever reach an edge (the library's limit for projected edges)
ALL_LABELS = ["terrain", "ball", "plate"]
GEOMETRY = {
    "terrain": [["type triSurfaceMesh", 'file "terrain.stl"'], ["type triSurfaceMesh", 'file "other.stl"', "scale 0.001"]],
    "ball": [["type searchableSphere", "centre (0 0 0)", "radius 2.5"], ["type searchableSphere", "centre (1 -2 0.5)", "radius 1e-3"]],
    "plate": [["type searchablePlane", "planeType pointAndNormal", "point (0 0 0)", "normal (0 1 0)"]],
}
SETTING_VALUES = {
    "scale": [0.001, 1, 2.5, 0.3048, None],
    "prescale": [2, 0.5, 1.25, None],
    "mergeType": ["points", None],
    "checkFaceCorrespondence": ["false", None],
    "verbose": ["true", None],
}


def centre(e: int, shift: Optional[List[float]] = None, kind: str = "") -> List[float]:
    """entity e lives around (40 e, 0, 0) + the program's global shift (models far from the origin).  A Wedge revolves
    about the global x axis and a Grid lies in the plane z = 0, so they only take the components that keep them valid."""
    s = list(shift or [0.0, 0.0, 0.0])
    if kind == "wedge":
        s = [s[0], 0.0, 0.0]
    elif kind == "stack":
        s = [s[0], s[1], 0.0]
    return [40.0 * e + s[0], s[1], s[2]]


def n_ops(ent) -> int:
    k = ent["kind"]
    if k in ("box", "extrude", "revolve", "wedge"):
        return 1
    if k == "cluster":
        return len(ent["lat"]["cells"])
    if k == "cylinder":
        return 12
    if k == "ring":
        return ent["nseg"]
    if k == "hemisphere":
        return 16
    if k == "stack":
        return ent["nx"] * ent["ny"] * ent["repeats"]
    if k == "stacked":
        return 2
    raise AssertionError(k)


# --------------------------------------------------------------------------------------------------
# entity strategies (geometry only; chops are planned afterwards, knowing the deletions)

_f = st.floats


def _perp_frame(draw):
    d = [draw(_f(-1.0, 1.0)) for _ in range(3)]
    n = math.sqrt(sum(x * x for x in d))
    if n < 0.3:
        d, n = [0.0, 0.0, 1.0], 1.0
    d = [x / n for x in d]
    helper = [0.0, 0.0, 0.0]
    helper[int(np.argmin(np.abs(d)))] = 1.0
    p = np.cross(d, helper)
    p = p / np.linalg.norm(p)
    p = rodrigues(d, draw(_f(0.0, 6.28))) @ p
    p = p - np.dot(p, d) * np.asarray(d)  # exactly perpendicular up to rounding (|dot| ~ 1e-17)
    p = p / np.linalg.norm(p)
    return d, [float(x) for x in p]


@st.composite
def entity(draw, e: int, kind: str, shift: Optional[List[float]] = None):
    c = centre(e, shift, kind)
    if kind == "box":
        p1 = [c[i] + draw(_f(-2.0, 2.0)) for i in range(3)]
        d = [draw(_f(0.5, 5.0)) * draw(st.sampled_from([1, -1])) for _ in range(3)]
        return {"kind": kind, "p1": p1, "p2": [p1[i] + d[i] for i in range(3)]}
    if kind == "cluster":
        lat = draw(lt.lattice(min_cells=1, max_cells=4, widths_decades=0.5))
        # geometry of the cluster only: what else the shared lattice strategy draws (merges, zones, settings, its own
        # offset / scale) belongs to other properties' scripts; here these things are statements of the program
        lat = {key: lat[key] for key in ("dims", "widths", "jitter", "cells", "orient")}
        lat["offset"] = c
        return {"kind": kind, "lat": lat}
    if kind in ("extrude", "revolve", "wedge"):
        a, b = draw(_f(0.5, 4.0)), draw(_f(0.5, 4.0))
        y0 = draw(_f(0.5, 3.0)) if kind != "extrude" else draw(_f(-2.0, 2.0))
        s = draw(_f(-0.3, 0.3)) * a if kind == "extrude" else 0.0
        zj = [draw(_f(-0.1, 0.1)) for _ in range(4)] if kind == "extrude" and draw(st.booleans()) else [0.0] * 4
        y0 += c[1]
        face = [[c[0], y0, c[2] + zj[0]], [c[0] + a, y0, c[2] + zj[1]], [c[0] + a + s, y0 + b, c[2] + zj[2]],
                [c[0] + s, y0 + b, c[2] + zj[3]]]
        if kind == "extrude":
            amount: Any = draw(_f(0.5, 3.0)) if draw(st.booleans()) else [draw(_f(-1.0, 1.0)), draw(_f(-1.0, 1.0)), draw(_f(0.5, 3.0))]
            return {"kind": kind, "face": face, "amount": amount}
        if kind == "revolve":
            return {"kind": kind, "face": face, "angle": draw(_f(0.2, 1.5)), "axis": [1.0, 0.0, 0.0], "origin": c}
        return {"kind": kind, "face": face, "angle": draw(st.one_of(st.none(), _f(0.02, 0.2)))}
    if kind in ("cylinder", "ring", "hemisphere"):
        d, p = _perp_frame(draw)
        length, radius = draw(_f(0.5, 5.0)), draw(_f(0.3, 3.0))
        ap1 = [c[i] + draw(_f(-1.0, 1.0)) for i in range(3)]
        out = {"kind": kind, "ap1": ap1, "dir": d, "perp": p, "length": length, "radius": radius}
        if kind == "ring":
            out["inner"] = radius * draw(_f(0.2, 0.8))
            out["nseg"] = draw(st.sampled_from([4, 5, 6, 8]))
        if draw(st.integers(0, 2)) == 0:
            # designed at one size, brought to another afterwards: shape.scale(ratio, origin) or transform([Scaling])
            out["scaled"] = {"ratio": draw(st.sampled_from([0.001, 0.0254, 0.5, 2.0, 3.0])), "via": draw(st.sampled_from(["scale", "transform"]))}
        return out
    if kind == "stack":
        nx, ny, rep = draw(st.sampled_from([(1, 1, 2), (2, 1, 1), (1, 2, 2), (2, 2, 1), (2, 2, 2), (3, 1, 1), (3, 2, 1), (1, 3, 2)]))
        return {"kind": kind, "nx": nx, "ny": ny, "repeats": rep, "p1": [c[0] - draw(_f(0.5, 3.0)), c[1] - draw(_f(0.5, 3.0)), 0.0],
                "p2": [c[0] + draw(_f(0.5, 3.0)), c[1] + draw(_f(0.5, 3.0)), 0.0], "amount": draw(_f(0.5, 4.0))}
    if kind == "stacked":
        p1 = [c[i] + draw(_f(-2.0, 2.0)) for i in range(3)]
        return {"kind": kind, "p1": p1, "dx": draw(_f(0.5, 4.0)), "dy": draw(_f(0.5, 4.0)), "h1": draw(_f(0.5, 3.0)),
                "h2": draw(_f(0.5, 3.0)), "master_on": draw(st.sampled_from(["lower", "upper"])), "names": ["mrgM%d" % e, "mrgS%d" % e]}
    raise AssertionError(kind)


_count = st.integers(1, 7)


def plan_chops(draw, ent, deleted: List[int], force_all: bool) -> None:
    """Adds a well-posed chop plan to the entity spec.  `deleted`: operation indices of this entity that the script
    deletes; then (and when force_all) every surviving operation is chopped in all three directions with the count of
    its edge family, which stays well-posed whatever the deletions do to connectivity."""
    k = ent["kind"]
    full = force_all or bool(deleted)
    if k in ("box", "extrude", "revolve", "wedge"):
        axes = [0, 1] if k == "wedge" else [0, 1, 2]
        chops = []
        for ax in draw(st.permutations(axes)):
            n = draw(_count)
            graded = n >= 2 and draw(st.integers(0, 3)) == 0
            chops.append([ax, n, draw(_f(0.8, 1.25)) if graded else None])
        ent["chops"] = chops
    elif k == "cluster":
        lat = ent["lat"]
        alive = [c for i, c in enumerate(lat["cells"]) if i not in deleted]
        sub = dict(lat, cells=alive)
        fams, _ = lt.lattice_families(sub)
        chops = []
        for fam in fams:
            n = draw(_count)
            members = fam if full else [draw(st.sampled_from(fam))]
            if not full and len(fam) >= 2 and draw(st.booleans()):
                members = members + [draw(st.sampled_from([m for m in fam if m != members[0]]))]
            for cell, gdir in members:
                chops.append({"cell": cell, "gdir": gdir, "args": {"count": n}})
        lat["chops"] = list(draw(st.permutations(chops))) if len(chops) > 1 else chops
    elif k == "stack":
        ent["chops"] = {"x": [draw(_count) for _ in range(ent["nx"])], "y": [draw(_count) for _ in range(ent["ny"])],
                        "z": [draw(_count) for _ in range(ent["repeats"])], "mode": "all" if full else "min"}
    elif k in ("cylinder", "ring", "hemisphere"):
        ent["chops"] = {"a": draw(_count), "r": draw(_count), "t": draw(_count), "mode": "all" if full else "api"}
    elif k == "stacked":
        ent["chops"] = [[draw(_count) for _ in range(3)], [draw(_count) for _ in range(3)]]


# --------------------------------------------------------------------------------------------------
# script strategy

KIND_WEIGHTS = ["box", "box", "cluster", "cluster", "cluster", "extrude", "revolve", "wedge", "stack", "stacked",
                "cylinder", "ring", "hemisphere"]


def internal_faces(lat) -> List[Tuple[int, int, int]]:
    """(cell a, cell b, axis) with b the +axis neighbour of a, both in the cluster"""
    dims, sel = lat["dims"], set(lat["cells"])
    out = []
    for c in sorted(sel):
        ijk = lt.cell_ijk(dims, c)
        for ax in range(3):
            n = list(ijk)
            n[ax] += 1
            if n[ax] < dims[ax] and lt.cell_index(dims, *n) in sel:
                out.append((c, lt.cell_index(dims, *n), ax))
    return out


def _ops_of(entities) -> List[Tuple[int, int]]:
    return [(e, i) for e, ent in enumerate(entities) for i in range(n_ops(ent))]


def _sides_for(ent, what: str) -> List[str]:
    """sides the generated script addresses with operation-level set_patch / project_side"""
    if ent["kind"] == "hemisphere":
        return []  # its lofts share Face objects (ledger F14): operation-level side statements would alias
    if ent["kind"] == "stacked":
        return ["left", "right", "front", "back"]  # top/bottom carry the merged interface
    return SIDE_NAMES


@st.composite
def program(draw, kinds: Optional[List[str]] = None, max_entities: int = 3, max_statements: int = 10,
            allow_delete: bool = True, sphere_copy: bool = False, only: Optional[List[str]] = None, far: bool = True,
            finishes: Optional[List[str]] = None, stage2_ok: bool = True):
    ne = draw(st.integers(1, max_entities))
    chosen: List[str] = []
    for e in range(ne):
        pool = kinds or KIND_WEIGHTS
        k = draw(st.sampled_from(pool))
        if sum(1 for x in chosen if x in ("cylinder", "hemisphere", "ring")) >= 1 and k in ("cylinder", "hemisphere", "ring"):
            k = "box"  # at most one round shape per program keeps the block count (and the cost) bounded
        chosen.append(k)
    shift = None
    size = draw(st.sampled_from([0.0, 0.0, 0.0, 1e3, 1e5, 2e6])) if far else 0.0
    if size:
        shift = [size * draw(st.sampled_from([1.0, 0.0, -1.0, 2.1])) for _ in range(3)]
        if not any(shift):
            shift = None
    entities = [draw(entity(e, k, shift)) for e, k in enumerate(chosen)]
    if sphere_copy:
        for ent in entities:
            if ent["kind"] == "hemisphere":
                ent["copy"] = True  # no transformation: a translated Hemisphere falls apart (ledger F14, C09's business)
    ops = _ops_of(entities)

    # deletions first: the chop plans depend on them
    # (a copied Hemisphere is the F15 witness; at most two operations go, so a sphere always keeps a shell block)
    deletable = [(e, i) for (e, i) in ops if entities[e]["kind"] != "stacked" and not entities[e].get("copy")]
    deleted: List[Tuple[int, int]] = []
    if allow_delete and len(ops) >= 2 and deletable and draw(st.integers(0, 3)) == 0:
        for _ in range(draw(st.integers(1, 2))):
            round_ops = [x for x in deletable if entities[x[0]]["kind"] == "hemisphere"]
            x = draw(st.sampled_from(round_ops)) if round_ops and draw(st.booleans()) else draw(st.sampled_from(deletable))
            if x not in deleted and len(deleted) < len(ops) - 1:
                deleted.append(x)
    # optional second rendering of a part of the same objects (after the main write): further operations are left
    # out - deleted + clear() + write on the same mesh, or a new Mesh built from the remaining objects
    stage2 = None
    rest = [x for x in deletable if x not in deleted]
    if stage2_ok and len(ops) - len(deleted) >= 2 and rest and draw(st.integers(0, 2)) == 0:
        drop: List[Tuple[int, int]] = []
        for _ in range(draw(st.integers(1, 2))):
            x = draw(st.sampled_from(rest))
            if x not in drop and len(deleted) + len(drop) < len(ops) - 1:
                drop.append(x)
        if drop:
            stage2 = {"kind": draw(st.sampled_from(["delete+clear", "new-mesh"])), "drop": [list(x) for x in drop]}
    touched = {e for e, _ in (stage2["drop"] if stage2 else [])}
    for e, ent in enumerate(entities):
        plan_chops(draw, ent, [i for (ee, i) in deleted if ee == e], e in touched)

    script: List[Dict[str, Any]] = []
    for (e, i) in deleted:
        script.append({"do": "delete", "ent": e, "op": i})
    used_labels: List[str] = []

    def pick_label(edge: bool) -> str:
        lb = draw(st.sampled_from(EDGE_LABELS if edge else ALL_LABELS))
        if lb not in used_labels:
            used_labels.append(lb)
        return lb

    nst = draw(st.integers(0, max_statements)) if draw(st.integers(0, 4)) == 0 else draw(st.integers(min(3, max_statements), max_statements))
    named: List[str] = ["wedge_front"] if "wedge" in chosen else []
    for _ in range(nst):
        e, i = draw(st.sampled_from(ops))
        ent = entities[e]
        menu = only or [
            "set_patch", "set_patch", "set_patch", "shape_patch", "zone", "project_side", "project_edge", "project_corner",
            "project_corner", "geometry", "merge", "default_patch", "modify_patch", "modify_patch", "setting"]
        if not only and ent["kind"] in ("cylinder", "ring", "hemisphere"):
            menu = menu + ["shape_patch"] * 4
        if ent["kind"] == "cluster" and internal_faces(ent["lat"]):
            menu = menu + ["both_sides"] * 2
        what = draw(st.sampled_from(menu))
        if what == "both_sides":
            # the two operations that share an internal face declare the same thing on it (written once)
            lat = ent["lat"]
            a, b, ax = draw(st.sampled_from(internal_faces(lat)))
            ia, ib = lat["cells"].index(a), lat["cells"].index(b)
            sa = xs.local_side_name(lat["orient"][ia], 2 * ax + 1)
            sb = xs.local_side_name(lat["orient"][ib], 2 * ax)
            if draw(st.booleans()):
                name = draw(st.sampled_from(PATCHES))
                named.append(name)
                script.append({"do": "set_patch", "ent": e, "op": ia, "sides": sa, "name": name})
                script.append({"do": "set_patch", "ent": e, "op": ib, "sides": sb, "name": name})
            else:
                lb = pick_label(False)
                pts = draw(st.booleans())
                script.append({"do": "project_side", "ent": e, "op": ia, "side": sa, "label": lb, "edges": False, "points": pts})
                script.append({"do": "project_side", "ent": e, "op": ib, "side": sb, "label": lb, "edges": False, "points": False})
        elif what == "set_patch":
            sides = _sides_for(ent, what)
            if not sides:
                continue
            if draw(st.integers(0, 3)) == 0:
                sel: Any = list(draw(st.lists(st.sampled_from(sides), min_size=1, max_size=3, unique=True)))
            else:
                sel = draw(st.sampled_from(sides))
            script.append({"do": what, "ent": e, "op": i, "sides": sel, "name": draw(st.sampled_from(PATCHES))})
            named.append(script[-1]["name"])
        elif what == "shape_patch":
            opts = {"cylinder": ["start", "end", "outer"], "ring": ["start", "end", "outer", "inner"],
                    "hemisphere": ["start", "outer"]}.get(ent["kind"])
            if not opts:
                continue
            script.append({"do": what, "ent": e, "which": draw(st.sampled_from(opts)), "name": draw(st.sampled_from(PATCHES))})
            named.append(script[-1]["name"])
        elif what == "zone":
            whole = ent["kind"] in ("cylinder", "ring", "hemisphere") and draw(st.integers(0, 3)) > 0
            script.append({"do": what, "ent": e, "op": None if whole else i, "name": draw(st.sampled_from(ZONES))})
        elif what == "project_side":
            sides = _sides_for(ent, what)
            if not sides:
                continue
            edges = draw(st.integers(0, 2)) == 0
            script.append({"do": what, "ent": e, "op": i, "side": draw(st.sampled_from(sides)), "label": pick_label(edges),
                           "edges": edges, "points": draw(st.integers(0, 2)) == 0})
        elif what == "project_edge":
            if ent["kind"] == "hemisphere":
                continue
            a, b = draw(st.sampled_from(HEX_EDGES))
            if draw(st.booleans()):
                a, b = b, a
            script.append({"do": what, "ent": e, "op": i, "c1": a, "c2": b, "label": pick_label(True)})
        elif what == "project_corner":
            if draw(st.integers(0, 3)) == 0:
                lbs = list(draw(st.lists(st.sampled_from(ALL_LABELS), min_size=1, max_size=2, unique=True)))
                for lb in lbs:
                    if lb not in used_labels:
                        used_labels.append(lb)
                label: Any = lbs
            else:
                label = pick_label(False)
            script.append({"do": what, "ent": e, "op": i, "corner": draw(st.integers(0, 7)), "label": label})
        elif what == "geometry":
            name = draw(st.sampled_from(ALL_LABELS))
            script.append({"do": what, "name": name, "props": draw(st.sampled_from(GEOMETRY[name]))})
            if draw(st.integers(0, 2)) == 0:  # declared twice
                script.append({"do": what, "name": name, "props": draw(st.sampled_from(GEOMETRY[name]))})
        elif what == "merge":
            # textual pair only: the slave name is never assigned to a side, so connectivity is not affected
            script.append({"do": what, "master": draw(st.sampled_from(PATCHES)), "slave": "ghost%d" % draw(st.integers(0, 1))})
        elif what == "default_patch":
            script.append({"do": what, "name": draw(st.sampled_from(["defaultFaces", "walls", "rest"])), "kind": draw(st.sampled_from(KINDS))})
        elif what == "modify_patch":
            target = draw(st.sampled_from(named)) if named and draw(st.integers(0, 4)) > 0 else draw(st.sampled_from(PATCHES))
            script.append({"do": what, "name": target, "kind": draw(st.sampled_from(KINDS)),
                           "settings": draw(st.one_of(st.none(), st.sampled_from(PATCH_SETTINGS)))})
            if draw(st.integers(0, 2)) == 0:  # modified again (explicit settings - also an empty list - replace, None keeps)
                script.append({"do": what, "name": target, "kind": draw(st.sampled_from(KINDS)),
                               "settings": draw(st.sampled_from([None, [], [], ["inGroups (walls)"]]))})
        elif what == "setting":
            key = draw(st.sampled_from(sorted(SETTING_VALUES)))
            script.append({"do": what, "key": key, "value": draw(st.sampled_from(SETTING_VALUES[key]))})
    # merged interface of stacked boxes: patches + pair (a real script declares them)
    for e, ent in enumerate(entities):
        if ent["kind"] == "stacked":
            m, s = ent["names"]
            lower, upper = (m, s) if ent["master_on"] == "lower" else (s, m)
            script.append({"do": "set_patch", "ent": e, "op": 0, "sides": "top", "name": lower})
            script.append({"do": "set_patch", "ent": e, "op": 1, "sides": "bottom", "name": upper})
            script.append({"do": "merge", "master": m, "slave": s})
    # every label that is used gets a geometry definition somewhere (a user who projects defines the surface)
    defined = {s["name"] for s in script if s["do"] == "geometry"}
    for lb in used_labels:
        if lb not in defined:
            script.append({"do": "geometry", "name": lb, "props": draw(st.sampled_from(GEOMETRY[lb]))})
    # shuffle, then place the add statements
    script = list(draw(st.permutations(script))) if len(script) > 1 else script
    for e in range(ne):
        script.insert(draw(st.integers(0, len(script))), {"do": "add", "ent": e})
    finish = draw(st.sampled_from(finishes or ["write", "write", "write", "assemble", "clear+assemble", "backport", "write-twice"]))
    case = {"entities": entities, "script": script, "finish": "write" if sphere_copy else finish}
    if shift:
        case["shift"] = shift
    if stage2 and not sphere_copy:
        case["stage2"] = stage2
    return case


# --------------------------------------------------------------------------------------------------
# execution against the library


class Run:
    def __init__(self) -> None:
        self.mesh = None
        self.entities: List[Any] = []  # library objects (for "cluster"/"stacked": list of operations)
        self.ops: Dict[Tuple[int, int], Any] = {}
        self.known_points: Dict[Tuple[int, int], np.ndarray] = {}  # corner positions the generator knows on its own


def _make_entity(cb, e: int, ent, run: Run):
    k = ent["kind"]
    if k == "box":
        op = cb.Box(ent["p1"], ent["p2"])
        lo = np.minimum(ent["p1"], ent["p2"])
        hi = np.maximum(ent["p1"], ent["p2"])
        run.known_points[(e, 0)] = np.array([[(hi if lt.CANON[q][a] else lo)[a] for a in range(3)] for q in range(8)])
        for ax, n, c2c in ent["chops"]:
            op.chop(ax, count=n) if c2c is None else op.chop(ax, count=n, c2c_expansion=c2c)
        return op, [op]
    if k == "cluster":
        built = lt.build(ent["lat"])
        for i, pts in enumerate(built.points):
            run.known_points[(e, i)] = np.asarray(pts)
        return list(built.ops), list(built.ops)
    if k in ("extrude", "revolve", "wedge"):
        face = cb.Face(ent["face"])
        if k == "extrude":
            op = cb.Extrude(face, ent["amount"])
            if isinstance(ent["amount"], list):
                base = np.asarray(ent["face"])
                run.known_points[(e, 0)] = np.vstack([base, base + np.asarray(ent["amount"])])
        elif k == "revolve":
            op = cb.Revolve(face, ent["angle"], ent["axis"], ent["origin"])
        else:
            op = cb.Wedge(face, ent["angle"]) if ent["angle"] is not None else cb.Wedge(face)
        for ax, n, c2c in ent["chops"]:
            op.chop(ax, count=n) if c2c is None else op.chop(ax, count=n, c2c_expansion=c2c)
        return op, [op]
    if k in ("cylinder", "ring", "hemisphere"):
        ap1 = np.asarray(ent["ap1"])
        d, p = np.asarray(ent["dir"]), np.asarray(ent["perp"])
        ap2 = ap1 + d * ent["length"]
        rp = ap1 + p * ent["radius"]
        if k == "cylinder":
            shape = cb.Cylinder(ap1, ap2, rp)
        elif k == "ring":
            shape = cb.ExtrudedRing(ap1, ap2, rp, ent["inner"], n_segments=ent["nseg"])
        else:
            shape = cb.Hemisphere(ap1, rp, d)
            if ent.get("copy"):
                shape = shape.copy()
        if ent.get("scaled"):
            if ent["scaled"]["via"] == "scale":
                shape.scale(ent["scaled"]["ratio"], ap1)
            else:
                shape.transform([cb.Scaling(ent["scaled"]["ratio"], ap1)])
        ch = ent["chops"]
        if ch["mode"] == "api":
            shape.chop_axial(count=ch["a"])
            shape.chop_radial(count=ch["r"])
            shape.chop_tangential(count=ch["t"])
        else:
            # every operation in every direction, with the count of its family: core blocks are tangential in both
            # sketch directions; every third shell block of a sphere closes the dome, its third direction is tangential
            ncore = {"cylinder": 4, "ring": 0, "hemisphere": 4}[k]
            for i, op in enumerate(shape.operations):
                if i < ncore:
                    counts = (ch["t"], ch["t"], ch["a"])
                elif k == "hemisphere" and (i - ncore + 1) % 3 == 0:
                    counts = (ch["r"], ch["t"], ch["t"])
                else:
                    counts = (ch["r"], ch["t"], ch["a"])
                for ax in range(3):
                    op.chop(ax, count=counts[ax])
        return shape, list(shape.operations)
    if k == "stack":
        stack = cb.ExtrudedStack(cb.Grid(ent["p1"], ent["p2"], ent["nx"], ent["ny"]), ent["amount"], ent["repeats"])
        ch = ent["chops"]
        nx, ny, rep = ent["nx"], ent["ny"], ent["repeats"]
        xs_ = np.linspace(ent["p1"][0], ent["p2"][0], nx + 1)
        ys_ = np.linspace(ent["p1"][1], ent["p2"][1], ny + 1)
        dz = ent["amount"] / rep
        for t in range(rep):
            for iy in range(ny):
                for ix in range(nx):
                    op = stack.grid[t][iy][ix]
                    idx = t * ny * nx + iy * nx + ix
                    run.known_points[(e, idx)] = np.array(
                        [[xs_[ix + lt.CANON[q][0]], ys_[iy + lt.CANON[q][1]], (t + lt.CANON[q][2]) * dz] for q in range(8)])
                    if ch["mode"] == "all" or iy == 0 and t == 0:
                        op.chop(0, count=ch["x"][ix])
                    if ch["mode"] == "all" or ix == 0 and t == 0:
                        op.chop(1, count=ch["y"][iy])
                    if ch["mode"] == "all":
                        op.chop(2, count=ch["z"][t])
        if ch["mode"] != "all":
            stack.chop(count=ch["z"][0])  # public API: the same count on every tier
        return stack, list(stack.operations)
    if k == "stacked":
        x0, y0, z0 = ent["p1"]
        lower = cb.Box([x0, y0, z0], [x0 + ent["dx"], y0 + ent["dy"], z0 + ent["h1"]])
        upper = cb.Box([x0, y0, z0 + ent["h1"]], [x0 + ent["dx"], y0 + ent["dy"], z0 + ent["h1"] + ent["h2"]])
        for op, counts in zip((lower, upper), ent["chops"]):
            for ax in range(3):
                op.chop(ax, count=counts[ax])
        return [lower, upper], [lower, upper]
    raise AssertionError(k)


def make_entities(case) -> Run:
    """Creates the entities of the program (with their chops); nothing is added to the mesh yet."""
    import classy_blocks as cb

    run = Run()
    run.mesh = cb.Mesh()
    for e, ent in enumerate(case["entities"]):
        obj, ops = _make_entity(cb, e, ent, run)
        run.entities.append(obj)
        for i, op in enumerate(ops):
            run.ops[(e, i)] = op
    return run


def run_script(case, run: Run, skip_modify: set, mesh: Any = None, drop: Any = ()) -> None:
    """Executes the statements up to (not including) write.  `skip_modify`: indices of modify_patch statements that
    are not executed (their patch has no face in the final model; see interpret).
    With `mesh` given: only the mesh-level statements are executed, on that mesh (the operations already carry what
    was declared on them), and the operations in `drop` are left out: not added where they are depot entries of their
    own, deleted where they are part of a shape."""
    replay = mesh is not None
    mesh = mesh if replay else run.mesh
    dropped = {tuple(x) for x in drop}
    for si, s in enumerate(case["script"]):
        do = s["do"]
        if do == "add":
            obj = run.entities[s["ent"]]
            if isinstance(obj, list):
                for i, x in enumerate(obj):
                    if (s["ent"], i) not in dropped:
                        mesh.add(x)
            elif n_ops(case["entities"][s["ent"]]) > 1 or (s["ent"], 0) not in dropped:
                mesh.add(obj)
                for (e, i) in sorted(dropped):
                    if e == s["ent"]:
                        mesh.delete(run.ops[(e, i)])
        elif replay and do in ("set_patch", "shape_patch", "zone", "project_side", "project_edge", "project_corner"):
            continue
        elif do == "set_patch":
            run.ops[(s["ent"], s["op"])].set_patch(s["sides"], s["name"])
        elif do == "shape_patch":
            getattr(run.entities[s["ent"]], "set_%s_patch" % s["which"])(s["name"])
        elif do == "zone":
            target = run.entities[s["ent"]] if s["op"] is None else run.ops[(s["ent"], s["op"])]
            target.set_cell_zone(s["name"])
        elif do == "project_side":
            run.ops[(s["ent"], s["op"])].project_side(s["side"], s["label"], edges=s["edges"], points=s["points"])
        elif do == "project_edge":
            run.ops[(s["ent"], s["op"])].project_edge(s["c1"], s["c2"], s["label"])
        elif do == "project_corner":
            run.ops[(s["ent"], s["op"])].project_corner(s["corner"], s["label"])
        elif do == "geometry":
            mesh.add_geometry({s["name"]: list(s["props"])})
        elif do == "merge":
            mesh.merge_patches(s["master"], s["slave"])
        elif do == "default_patch":
            mesh.set_default_patch(s["name"], s["kind"])
        elif do == "modify_patch":
            if si in skip_modify:
                continue
            if s["settings"] is None:
                mesh.modify_patch(s["name"], s["kind"])
            else:
                mesh.modify_patch(s["name"], s["kind"], list(s["settings"]))
        elif do == "setting":
            mesh.settings[s["key"]] = s["value"]
        elif do == "delete":
            mesh.delete(run.ops[(s["ent"], s["op"])])
        else:
            raise AssertionError(do)


# --------------------------------------------------------------------------------------------------
# the script-level model


class Model:
    def __init__(self) -> None:
        self.order: List[Tuple[int, int]] = []  # surviving operations in output order
        self.side_patch: Dict[Tuple[int, int], Dict[str, str]] = {}
        self.zone: Dict[Tuple[int, int], str] = {}
        self.side_proj: Dict[Tuple[int, int], Dict[str, str]] = {}
        self.corner_labels: Dict[Tuple[int, int], Dict[int, List[str]]] = {}
        self.edge_proj: List[Tuple[Tuple[int, int], int, int, str]] = []
        self.geometry: Dict[str, List[str]] = {}  # name -> properties of the last declaration
        self.geometry_all: Dict[str, List[List[str]]] = {}  # name -> every declaration
        self.merges: List[Tuple[str, str]] = []
        self.default: Optional[Dict[str, str]] = None
        self.patch_kind: Dict[str, str] = {}
        self.patch_settings: Dict[str, List[str]] = {}
        self.settings: Dict[str, Any] = {"scale": 1}
        self.deleted: set = set()
        self.skip_modify: set = set()
        self.kinds_used: List[str] = []


def final_size(ent) -> Dict[str, Any]:
    """radius / length / inner radius of a round shape as declared, i.e. after its scaling about the first axis point"""
    r = (ent.get("scaled") or {}).get("ratio", 1.0)
    out = dict(ent, radius=ent["radius"] * r, length=ent["length"] * r)
    if "inner" in ent:
        out["inner"] = ent["inner"] * r
    return out


def _surface_sides(ent, pts: np.ndarray, which: str) -> List[str]:
    """sides of one operation (8 corner positions) that lie on a named surface of a round shape; geometric predicate,
    tolerance 1e-6 relative to the shape's size (corners are constructed on these surfaces to rounding accuracy)"""
    ap1 = np.asarray(ent["ap1"]) + np.asarray(ent.get("translate", [0.0, 0.0, 0.0]))
    d = np.asarray(ent["dir"])
    ent = final_size(ent)
    tol = 1e-6 * max(ent["radius"], ent["length"]) + 8 * float(np.spacing(np.max(np.abs(pts))))
    rel = pts - ap1
    axial = rel @ d
    if ent["kind"] == "hemisphere":
        radial = np.linalg.norm(rel, axis=1)
    else:
        radial = np.linalg.norm(rel - np.outer(axial, d), axis=1)
    out = []
    for name in SIDE_NAMES:
        idx = list(HEX_SIDES[name])
        if which == "start":
            ok = np.all(np.abs(axial[idx]) < tol)
        elif which == "end":
            ok = np.all(np.abs(axial[idx] - ent["length"]) < tol)
        elif which == "outer":
            ok = np.all(np.abs(radial[idx] - ent["radius"]) < tol)
        else:
            ok = np.all(np.abs(radial[idx] - ent["inner"]) < tol)
        if ok:
            out.append(name)
    return out


def interpret(case, points: Dict[Tuple[int, int], np.ndarray]) -> Model:
    """What the user declared.  `points`: the 8 corner positions of every operation (needed only to resolve the
    shape-level patch statements geometrically and the built-in projections of the sphere)."""
    m = Model()
    ents = case["entities"]
    all_ops = _ops_of(ents)
    for x in all_ops:
        m.side_patch[x] = {}
        m.side_proj[x] = {}
        m.corner_labels[x] = {}
        m.zone[x] = ""
    for e, ent in enumerate(ents):
        if ent["kind"] == "wedge":
            m.side_patch[(e, 0)].update(top="wedge_front", bottom="wedge_back")  # documented behaviour of Wedge
    modify_at: List[Tuple[int, Dict[str, Any]]] = []
    added: List[int] = []
    for si, s in enumerate(case["script"]):
        do = s["do"]
        m.kinds_used.append(do)
        if do == "add":
            added.append(s["ent"])
        elif do == "set_patch":
            for side in s["sides"] if isinstance(s["sides"], list) else [s["sides"]]:
                m.side_patch[(s["ent"], s["op"])][side] = s["name"]
        elif do == "shape_patch":
            ent = ents[s["ent"]]
            for i in range(n_ops(ent)):
                for side in _surface_sides(ent, points[(s["ent"], i)], s["which"]):
                    m.side_patch[(s["ent"], i)][side] = s["name"]
        elif do == "zone":
            for i in range(n_ops(ents[s["ent"]])) if s["op"] is None else [s["op"]]:
                m.zone[(s["ent"], i)] = s["name"]
        elif do == "project_side":
            x = (s["ent"], s["op"])
            m.side_proj[x][s["side"]] = s["label"]
            if s["points"]:
                for k in HEX_SIDES[s["side"]]:
                    m.corner_labels[x].setdefault(k, []).append(s["label"])
        elif do == "project_edge":
            m.edge_proj.append(((s["ent"], s["op"]), s["c1"], s["c2"], s["label"]))
        elif do == "project_corner":
            lbs = s["label"] if isinstance(s["label"], list) else [s["label"]]
            m.corner_labels[(s["ent"], s["op"])].setdefault(s["corner"], []).extend(lbs)
        elif do == "geometry":
            m.geometry[s["name"]] = list(s["props"])
            m.geometry_all.setdefault(s["name"], []).append(list(s["props"]))
        elif do == "merge":
            m.merges.append((s["master"], s["slave"]))
        elif do == "default_patch":
            m.default = {"name": s["name"], "type": s["kind"]}
        elif do == "modify_patch":
            modify_at.append((si, s))
        elif do == "setting":
            m.settings[s["key"]] = s["value"]
        elif do == "delete":
            m.deleted.add((s["ent"], s["op"]))
    for e in added:
        for i in range(n_ops(ents[e])):
            if (e, i) not in m.deleted:
                m.order.append((e, i))
    live_names = {name for x in m.order for name in m.side_patch[x].values()}
    for si, s in modify_at:
        if s["name"] not in live_names:
            m.skip_modify.add(si)  # a patch without faces: the statement is not part of the executed program
            continue
        m.patch_kind[s["name"]] = s["kind"]
        if s["settings"] is not None:
            m.patch_settings[s["name"]] = list(s["settings"])
    m.settings = {k: v for k, v in m.settings.items() if v is not None}
    return m
