"""C02 — grading propagation terminates, completes and is order-independent (DESIGN.md section 4, C02)."""

from __future__ import annotations

import os

from hypothesis import strategies as st

from vf import fuel, schedule
from vf import lattice as lt
from vf.core import Cell, Ctx, Violation
from vf.foamdict import FoamParseError
from vf.refmodel import families

from classy_blocks.base.exceptions import InconsistentGradingsError, UndefinedGradingsError

RULE = (
    "Lattice assemblies (<= 8 hexahedra, 24 numberings, random insertion order) with chops placed per edge family by the "
    "harness's own union-find; the iteration order of every address-hashed set reachable from blocks/axes/wires is "
    "replaced by a drawn permutation (schedule); mesh.write runs under a call-count fuel limit so non-termination is a "
    "deterministic verdict. Non-trivial: >= 3 blocks with a family spanning >= 3 blocks, or >= 2 schedulable sets with "
    ">= 2 elements; distinct = distinct generated case."
)
ASSUMPTIONS = [
    "every permutation of an address-hashed set is a feasible iteration order (object addresses vary from run to run)",
    "sets of objects that are local variables of the library cannot be re-ordered by the harness: the determinism cells "
    "build every model 6 times with the allocator shifted in between, which finds address-dependent behaviour with a "
    "probability per case below 1 (measured on seeded defect C02_3: 1-2 violating shards per run at every seed tried)",
    "fuel limit = 20 000 + 40 000 library calls per block (measured: a successful write costs about 1 050 calls per block, 8 415 for 8 graded blocks; margin >= 40x)",
    "order-independence cell uses chops that state their count (count, count+ratio, count+size, multi-section), so the "
    "family count does not depend on floating-point rounding of averaged edge lengths; the curved-size cell derives the "
    "count from a cell size on the chopped block's own four edges (one of them a shared arc), which is independent of "
    "insertion order and numbering except on the measure-zero set where length/size is a whole number",
    "merged cells: a corner's identity is (lattice node, set of slave patches on the block's faces that contain it) - "
    "the library's documented duplication rule for face merging; families are computed from those identities",
    "history cell: chops of an operation are edited with Operation.unchop / chop between assemblies; Mesh.clear() and "
    "Mesh.backport() are the documented ways to re-assemble",
]

_picks = st.lists(st.integers(0, 719), min_size=1, max_size=6)


def fragile_ratio(r: float) -> float:
    """a ratio < 1 near r (or 1/r) whose reciprocal does not round-trip (1/(1/x) != x; about 37 % of the doubles in
    [0.8, 1), none in [1, 2)): a grading copied through an anti-aligned block and back then differs in the last digit
    from one copied directly, which makes any dependence on the copy path visible in the written text"""
    import math

    x = min(r, 1.0 / r)
    if x >= 1.0:
        x = 0.9
    for _ in range(400):
        if 1.0 / (1.0 / x) != x:
            return x
        x = math.nextafter(x, 0.0)
    return x


def fuel_limit(nblocks: int) -> int:
    return 20_000 + 40_000 * nblocks


def facts_of(case):
    return {"mode": case.get("mode"), "blocks": len(case["cells"]), "contacts": lt.contact_labels(case)}


def run_write(case, built, picks, path=None):
    """assemble, inject the schedule, write under fuel.  Returns ('ok', text) / ('raise', exception) / ('fuel', None)"""
    built.mesh.assemble()
    multi = schedule.inject(built.mesh, picks)
    path = path or lt.write_path()
    if os.path.exists(path):
        os.remove(path)
    try:
        _, used = fuel.run(lambda: built.mesh.write(path), fuel_limit(len(built.ops)))
    except fuel.OutOfFuel:
        return "fuel", None, multi
    except Exception as ex:  # noqa: BLE001
        return "raise", ex, multi
    with open(path) as f:
        return "ok", f.read(), multi


def family_span(case):
    fams, _ = lt.lattice_families(case)
    return max(len({c for c, _ in fam}) for fam in fams)


def livelock_shape(case) -> bool:
    """a family where the chopped block is not the first inserted member"""
    fams, _ = lt.lattice_families(case)
    order = {c: i for i, c in enumerate(case["cells"])}
    chopped = {(c["cell"], c["gdir"]) for c in case["chops"]}
    for fam in fams:
        first = min(fam, key=lambda m: order[m[0]])
        if len(fam) >= 3 and first not in chopped:
            return True
    return False


# --------------------------------------------------------------------------------------------------
# 1/2  termination and completeness on well-posed models


@st.composite
def wellposed_case(draw, graded, merge: str = "no"):
    mode = draw(st.sampled_from(["wellposed", "redundant"])) if not graded else "wellposed"
    case = draw(lt.chopped_lattice(mode, graded=graded, min_cells=2, merge=merge))
    case["picks"] = draw(_picks)
    case["rewrite"] = draw(st.integers(0, 2)) == 0
    return case


@st.composite
def merged_cross_case(draw):
    """Merged interfaces that meet.  'cross': a 2 x 2 x k arrangement (k = 2-3 cells along the crossing line) with a
    merged pair on each of the two mid planes, so the cells of one quadrant lie on the slave side of both pairs.
    'channel': a column of k = 2-3 cells whose two side walls and roof are the slave patches of three merged pairs
    (master blocks beside and above it), so both upper corners of every cross-section carry two slave patches.
    Drawn names, sides, numberings, insertion order."""
    k = draw(st.integers(2, 3))
    perm = draw(st.permutations([0, 1, 2]))
    shape = draw(st.sampled_from(["cross", "channel"]))
    base = [2, 2, k] if shape == "cross" else [3, 2, k]
    dims = [base[perm[a]] for a in range(3)]
    ax = [perm.index(0), perm.index(1), perm.index(2)]  # lattice axis of the base x, y and line directions
    ncell = dims[0] * dims[1] * dims[2]

    def cell(u, v, w):
        ijk = [0, 0, 0]
        ijk[ax[0]], ijk[ax[1]], ijk[ax[2]] = u, v, w
        return lt.cell_index(dims, *ijk)

    if shape == "cross":
        drop = draw(st.lists(st.integers(0, ncell - 1), max_size=3, unique=True))
        cells = [c for c in draw(st.permutations(list(range(ncell)))) if c not in drop]
        planes = [(ax[0], 1, draw(st.sampled_from(["low", "high"]))), (ax[1], 1, draw(st.sampled_from(["low", "high"])))]
    else:
        channel = [cell(1, 0, w) for w in range(k)]
        around = [cell(u, v, w) for w in range(k) for u, v in ((0, 0), (2, 0), (1, 1))]
        extra = [cell(u, 1, w) for w in range(k) for u in (0, 2)]
        keep = draw(st.lists(st.sampled_from(around), min_size=3, max_size=len(around), unique=True))
        keep += draw(st.lists(st.sampled_from(extra), max_size=2, unique=True))
        cells = list(draw(st.permutations(channel + keep)))
        planes = [(ax[0], 1, "low"), (ax[0], 2, "high"), (ax[1], 1, "high")]
    case = {
        "dims": dims, "widths": [[10.0 ** draw(st.floats(-0.5, 0.5)) for _ in range(dims[a])] for a in range(3)],
        "jitter": [], "cells": cells, "orient": [draw(st.integers(0, 23)) for _ in cells], "chops": [],
    }
    names = draw(st.lists(st.sampled_from(lt.PATCH_NAMES), min_size=2 * len(planes), max_size=2 * len(planes), unique=True))
    merges = []
    for i, (a, at, master) in enumerate(planes):
        low = [c for c in cells if lt.cell_ijk(dims, c)[a] == at - 1]
        high = [c for c in cells if lt.cell_ijk(dims, c)[a] == at]
        if low and high:
            merges.append({"axis": a, "at": at, "master": master, "names": names[2 * i:2 * i + 2]})
    if not merges:
        return None
    case["merges"] = merges
    fams, _ = lt.lattice_families(case)
    chops = []
    for fam in fams:
        c, d = draw(st.sampled_from(fam))
        chops.append({"cell": c, "gdir": d, "args": lt.count_chop(draw)})
    case["chops"] = list(draw(st.permutations(chops)))
    case["mode"] = "merged-" + shape
    case["picks"] = draw(_picks)
    case["rewrite"] = draw(st.integers(0, 3)) == 0
    lt.decorate(draw, case)
    return case


@st.composite
def flanked_case(draw):
    """An un-chopped block B whose four edges in direction z all belong to chopped neighbours (A and D on either
    side), plus a block C that touches B: B becomes fully defined through copied edge gradings alone - the shape on
    which propagation used to spin (ledger F2)."""
    dims = [3, 2, draw(st.integers(1, 2))]
    base = [0, 1, 2, 4]
    opt = [c for c in range(dims[0] * dims[1] * dims[2]) if c not in base]
    extra = draw(st.lists(st.sampled_from(opt), max_size=min(3, len(opt)), unique=True))
    cells = draw(st.permutations(base + extra))
    case = {
        "dims": dims,
        "widths": [[10.0 ** draw(st.floats(-0.5, 0.5)) for _ in range(dims[a])] for a in range(3)],
        "jitter": [], "cells": list(cells), "orient": [draw(st.integers(0, 23)) for _ in cells], "chops": [],
    }
    fams, _ = lt.lattice_families(case)
    n = draw(st.integers(1, 9))
    chops = [{"cell": 0, "gdir": 2, "args": {"count": n}}, {"cell": 2, "gdir": 2, "args": {"count": n}}]
    for fam in fams:
        if (0, 2) in fam:
            continue
        c, d = draw(st.sampled_from(fam))
        chops.append({"cell": c, "gdir": d, "args": lt.count_chop(draw)})
    case["chops"] = draw(st.permutations(chops))
    case["mode"] = "flanked"
    case["picks"] = draw(_picks)
    case["rewrite"] = draw(st.integers(0, 2)) == 0
    return case


@st.composite
def chain_case(draw):
    """A row of 3-6 blocks (optionally with a second, partial row) where a family is chopped in ONE block only, so the
    count has to travel along the whole chain, in a drawn insertion order."""
    k = draw(st.integers(3, 6))
    second = draw(st.booleans()) and k <= 4
    dims = [k, 2 if second else 1, 1]
    perm = draw(st.permutations([0, 1, 2]))
    dims = [dims[perm[a]] for a in range(3)]
    ncell = dims[0] * dims[1] * dims[2]
    keep = list(range(ncell))
    if second:
        drop = draw(st.lists(st.sampled_from(keep), max_size=ncell - k, unique=True))
        keep = [c for c in keep if c not in drop] or keep
    cells = draw(st.permutations(keep))
    case = {
        "dims": dims,
        "widths": [[10.0 ** draw(st.floats(-0.5, 0.5)) for _ in range(dims[a])] for a in range(3)],
        "jitter": [], "cells": list(cells), "orient": [draw(st.integers(0, 23)) for _ in cells], "chops": [],
    }
    fams, _ = lt.lattice_families(case)
    chops = []
    for fam in fams:
        c, d = draw(st.sampled_from(fam))
        chops.append({"cell": c, "gdir": d, "args": lt.count_chop(draw)})
    case["chops"] = chops
    case["mode"] = "chain"
    case["picks"] = draw(_picks)
    case["rewrite"] = draw(st.integers(0, 3)) == 0
    return case


def check_complete(case, ctx: Ctx) -> None:
    built = lt.build(case)
    outcome, payload, multi = run_write(case, built, case["picks"])
    facts = facts_of(case)
    if outcome == "fuel":
        raise Violation("non-termination", "mesh.write did not finish within the fuel limit on a well-posed model", **facts)
    if outcome == "raise":
        if case.get("graded_args_rejected_ok") or _has_size_chop(case):
            # a size/ratio combination can be unrealisable on the edge (C03's business); count-only models must write
            if isinstance(payload, (ValueError, ArithmeticError)) and not isinstance(payload, (UndefinedGradingsError, InconsistentGradingsError)):
                ctx.label("chop-rejected")
                return
        raise Violation("wellposed-rejected", f"well-posed model raised {type(payload).__name__}: {payload}",
                        error=type(payload).__name__, **facts)
    if case.get("rewrite"):
        # the same mesh is written again (after an optimisation, say): same verdicts, same file
        path = lt.write_path()
        try:
            fuel.run(lambda: built.mesh.write(path), fuel_limit(len(built.ops)))
        except fuel.OutOfFuel:
            raise Violation("non-termination", "second write did not finish within the fuel limit", **facts) from None
        except Exception as ex:  # noqa: BLE001
            raise Violation("second-write-rejected", f"second write of a well-posed model raised {type(ex).__name__}: {ex}",
                            error=type(ex).__name__, **facts) from None
        with open(path) as f:
            second = f.read()
        if second != payload:
            raise Violation("second-write-differs", "writing the same mesh again produced a different file", **facts)
        ctx.label("rewrite")
    try:
        bmd = lt.parse(payload)
    except FoamParseError as ex:
        raise Violation("unparsable", str(ex), **facts) from None
    # completeness: every (block, local axis) carries the count of its family
    fams, _ = lt.lattice_families(case)
    fam_of = {m: fi for fi, fam in enumerate(fams) for m in fam}
    fam_count = {}
    for ap in built.applied:
        fi = fam_of[(ap["cell"], ap["gdir"])]
        want = lt.chop_total_count(ap["kwargs"])
        got = bmd.blocks[ap["op"]].counts[ap["axis"]]
        if want is not None and got != want:
            raise Violation("chop-count-not-honoured", f"op {ap['op']} axis {ap['axis']}: chop says {want}, written {got}", **facts)
        fam_count.setdefault(fi, got)
    for oi, cell in enumerate(built.cells):
        for la in range(3):
            gdir = built.axes[oi][la][0]
            fi = fam_of[(cell, gdir)]
            got = bmd.blocks[oi].counts[la]
            if got != fam_count[fi]:
                raise Violation("family-count-not-propagated",
                                f"op {oi} local axis {la} (cell {cell}, dir {gdir}) has {got}, family has {fam_count[fi]}", **facts)
    span = family_span(case)
    ctx.nt((len(built.ops) >= 3 and span >= 3) or multi >= 2)
    if livelock_shape(case):
        ctx.label("chop-not-on-first-inserted")
    ctx.label(f"schedulable-sets>={min(multi, 3)}")
    ctx.label(*lt.contact_labels(case))
    if case.get("merges"):
        ctx.label(f"merged-pairs={len(case['merges'])}")


def _has_size_chop(case) -> bool:
    """a chop that names a cell size, or asks to preserve one: on a strongly distorted block the size taken from the
    average edge length can exceed the shortest edge, which the library rejects with a ValueError (C03's business)"""
    for ch in case["chops"]:
        secs = ch["args"] if isinstance(ch["args"], list) else [ch["args"]]
        for s in secs:
            if any(k.endswith("_frac") or k in ("start_size", "end_size") for k in s):
                return True
            if s.get("preserve", "c2c_expansion") != "c2c_expansion":
                return True
    return False


# --------------------------------------------------------------------------------------------------
# 3  order independence (metamorphic over insertion order, numbering, schedule)


@st.composite
def order_case(draw, merge: str = "no"):
    case = draw(lt.chopped_lattice("wellposed", min_cells=2, merge=merge))
    # replace some count chops by graded chops that state their count
    for ch in case["chops"]:
        if not isinstance(ch["args"], list) and draw(st.integers(0, 2)) == 0:
            n = draw(st.integers(2, 10))
            r = draw(st.floats(0.8, 1.25))
            kind = draw(st.sampled_from(["c2c", "total", "start", "end"]))
            args = {"count": n, "preserve": draw(st.sampled_from(["c2c_expansion", "start_size", "end_size"]))}
            if kind == "c2c":
                args["c2c_expansion"] = r
            elif kind == "total":
                args["total_expansion"] = r ** (n - 1)
            elif kind == "start":
                args["start_size_frac"] = min(0.9 / n * draw(st.floats(0.6, 1.4)), 0.45)
            else:
                args["end_size_frac"] = min(0.9 / n * draw(st.floats(0.6, 1.4)), 0.45)
            ch["args"] = args
    k = len(case["cells"])
    variants = []
    for _ in range(3):
        variants.append({
            "perm": draw(st.permutations(list(range(k)))),
            "orient": [draw(st.integers(0, 23)) for _ in range(k)],
            "picks": draw(_picks),
        })
        if case.get("merges"):
            # patch names are labels: another choice of (distinct) names must not change anything either
            nm = draw(st.lists(st.sampled_from(lt.PATCH_NAMES), min_size=2 * len(case["merges"]), max_size=2 * len(case["merges"]), unique=True))
            variants[-1]["names"] = [nm[2 * i:2 * i + 2] for i in range(len(case["merges"]))]
    case["picks"] = draw(_picks)
    case["variants"] = variants
    return case


def counts_by_cell(case, ctx_label=None):
    built = lt.build(case)
    outcome, payload, multi = run_write(case, built, case["picks"])
    if outcome != "ok":
        return outcome, payload, None
    bmd = lt.parse(payload)
    out = {}
    for oi, cell in enumerate(built.cells):
        for la in range(3):
            out[(cell, built.axes[oi][la][0])] = bmd.blocks[oi].counts[la]
    return "ok", payload, out


def check_order(case, ctx: Ctx) -> None:
    facts = facts_of(case)
    base_outcome, base_payload, base = counts_by_cell(case)
    if base_outcome == "fuel":
        raise Violation("non-termination", "base variant ran out of fuel", **facts)
    results = [(base_outcome, base_payload, base)]
    for v in case["variants"]:
        vc = dict(case)
        vc["cells"] = [case["cells"][i] for i in v["perm"]]
        if case.get("zones"):
            vc["zones"] = [case["zones"][i] for i in v["perm"]]
        vc["orient"] = list(v["orient"])
        vc["picks"] = v["picks"]
        if v.get("names") and case.get("merges"):
            vc["merges"] = [dict(mg, names=list(nm)) for mg, nm in zip(case["merges"], v["names"])]
        o, p, c = counts_by_cell(vc)
        if o == "fuel":
            raise Violation("non-termination", "a re-ordered / re-numbered variant ran out of fuel", variant=v, **facts)
        results.append((o, p, c))
    classes = {(o if o == "ok" else type(p).__name__) for o, p, _ in results}
    if len(classes) != 1:
        raise Violation("outcome-depends-on-order", f"variants end differently: {sorted(classes)}", **facts)
    if base_outcome != "ok":
        if case.get("same_outcome_suffices"):
            # several sources with different gradings: refusing is legitimate, but then in every order
            ctx.label("rejected-in-every-order:" + type(base_payload).__name__)
            ctx.nt(True)
            return
        if isinstance(base_payload, (ValueError, ArithmeticError)) and _has_size_chop(case):
            ctx.label("chop-rejected")
            return
        raise Violation("wellposed-rejected", f"well-posed model raised {type(base_payload).__name__}: {base_payload}", **facts)
    for i, (_, _, c) in enumerate(results[1:]):
        if c != base:
            diff = {str(k): (base[k], c[k]) for k in base if base[k] != c[k]}
            raise Violation("counts-depend-on-order", f"variant {i}: counts per (cell, direction) differ: {diff}", **facts)
    ctx.nt(len(case["cells"]) >= 3 or any(v["orient"] != case["orient"] for v in case["variants"]))
    ctx.label(*lt.contact_labels(case))
    if case.get("merges"):
        ctx.label(f"merged-pairs={len(case['merges'])}")


# --------------------------------------------------------------------------------------------------
# 4  under-specified models


@st.composite
def under_case(draw):
    case = draw(lt.chopped_lattice("under", min_cells=1, merge="maybe"))
    case["picks"] = draw(_picks)
    case["preexisting"] = draw(st.booleans())
    return case


def check_under(case, ctx: Ctx) -> None:
    built = lt.build(case)
    facts = facts_of(case)
    path = lt.write_path("under_blockMeshDict")
    sentinel = "// sentinel: previous content\n"
    built.mesh.assemble()
    multi = schedule.inject(built.mesh, case["picks"])
    if os.path.exists(path):
        os.remove(path)
    if case["preexisting"]:
        with open(path, "w") as f:
            f.write(sentinel)
    try:
        fuel.run(lambda: built.mesh.write(path), fuel_limit(len(built.ops)))
    except fuel.OutOfFuel:
        raise Violation("non-termination", "under-specified model: write did not finish within the fuel limit", **facts) from None
    except UndefinedGradingsError:
        pass
    except Exception as ex:  # noqa: BLE001
        raise Violation("under-wrong-error", f"under-specified model raised {type(ex).__name__}: {ex}",
                        error=type(ex).__name__, **facts) from None
    else:
        raise Violation("under-written", "a family without any chop was written", **facts)
    if case["preexisting"]:
        with open(path) as f:
            if f.read() != sentinel:
                raise Violation("partial-file", "failed write modified the existing file", **facts)
    elif os.path.exists(path):
        raise Violation("partial-file", "failed write left a file behind", **facts)
    ctx.nt(len(built.ops) >= 2)
    ctx.label(*lt.contact_labels(case))


# --------------------------------------------------------------------------------------------------
# 5  determinism of one script over schedules


@st.composite
def any_case(draw, mixed: bool):
    case = draw(lt.lattice(min_cells=2))
    fams, _ = lt.lattice_families(case)
    chops = []
    for fam in fams:
        members = draw(st.lists(st.sampled_from(fam), min_size=0, max_size=min(3, len(fam)), unique=True))
        if not members and draw(st.integers(0, 5)) > 0:
            members = [draw(st.sampled_from(fam))]
        n = draw(st.integers(1, 8))
        r = fragile_ratio(draw(st.floats(0.8, 1.25)))
        for m in members:
            if mixed:
                args = {"count": draw(st.sampled_from([n, n, n + 1])), "c2c_expansion": draw(st.sampled_from([1.0, r, 1.1]))}
            else:
                args = {"count": n, "c2c_expansion": r}
            chops.append({"cell": m[0], "gdir": m[1], "args": args})
    case["chops"] = chops
    case["mode"] = "any-mixed" if mixed else "any-uniform"
    case["schedules"] = [draw(_picks) for _ in range(3)]
    return case


@st.composite
def corner_sources_case(draw):
    """Three blocks round a corner: B touches A on one side and D on another; A and D carry the same chop in the
    direction of the corner edge, B has one edge in that direction that belongs to neither - its grading is taken
    from whichever neighbour the library looks at first."""
    dims = [2, 2, 1]
    perm = draw(st.permutations([0, 1, 2]))
    pdims = [dims[perm[a]] for a in range(3)]
    inv = [perm.index(a) for a in range(3)]

    def idx(i, j, k=0):
        c = [i, j, k]
        q = [c[perm[a]] for a in range(3)]
        return q[0] + pdims[0] * (q[1] + pdims[1] * q[2])

    a_cell, b_cell, d_cell = idx(0, 0), idx(1, 0), idx(1, 1)
    shared_dir = inv[2]  # the direction of the corner edge in the permuted lattice
    cells = draw(st.permutations([a_cell, b_cell, d_cell]))
    case = {
        "dims": pdims, "widths": [[1.0] * pdims[a] for a in range(3)], "jitter": [], "cells": list(cells),
        "orient": [draw(st.integers(0, 23)) for _ in cells], "chops": [],
    }
    fams, _ = lt.lattice_families(case)
    n = draw(st.integers(2, 8))
    r = fragile_ratio(draw(st.floats(0.8, 1.25)))
    chops = []
    for fam in fams:
        if (a_cell, shared_dir) in fam:
            chops.append({"cell": a_cell, "gdir": shared_dir, "args": {"count": n, "c2c_expansion": r}})
            chops.append({"cell": d_cell, "gdir": shared_dir, "args": {"count": n, "c2c_expansion": r}})
        else:
            c, d = draw(st.sampled_from(fam))
            chops.append({"cell": c, "gdir": d, "args": {"count": draw(st.integers(1, 6))}})
    case["chops"] = chops
    case["mode"] = "corner-sources"
    case["schedules"] = [draw(_picks) for _ in range(3)]
    return case


@st.composite
def two_sources_case(draw):
    """A row of 3-6 blocks whose two END blocks are chopped across the row with the same count but different
    expansions: the un-chopped blocks in between have edges that can be graded from either end, so the written file
    depends on the order in which they are visited - which must be a function of the script."""
    if draw(st.booleans()):
        return draw(corner_sources_case())
    k = draw(st.integers(3, 6))
    dims = [k, 1, 1]
    perm = draw(st.permutations([0, 1, 2]))
    dims = [dims[perm[a]] for a in range(3)]
    row_axis = dims.index(k)
    cells = draw(st.permutations(list(range(k))))
    case = {
        "dims": dims, "widths": [[1.0] * dims[a] for a in range(3)], "jitter": [], "cells": list(cells),
        "orient": [draw(st.integers(0, 23)) for _ in cells], "chops": [],
    }
    fams, _ = lt.lattice_families(case)
    n = draw(st.integers(2, 8))
    shared_dir = draw(st.sampled_from([a for a in range(3) if a != row_axis]))
    chops = []
    for fam in fams:
        if (0, shared_dir) in fam:
            if draw(st.integers(0, 2)) == 0:
                # the same specification at both ends: any path of copies must give the same text
                r = fragile_ratio(draw(st.floats(0.8, 1.25)))
                chops.append({"cell": 0, "gdir": shared_dir, "args": {"count": n, "c2c_expansion": r}})
                chops.append({"cell": k - 1, "gdir": shared_dir, "args": {"count": n, "c2c_expansion": r}})
            else:
                chops.append({"cell": 0, "gdir": shared_dir, "args": {"count": n, "c2c_expansion": 1.0}})
                chops.append({"cell": k - 1, "gdir": shared_dir, "args": {"count": n, "c2c_expansion": draw(st.sampled_from([1.1, 1.2, 0.9]))}})
        else:
            c, d = draw(st.sampled_from(fam))
            chops.append({"cell": c, "gdir": d, "args": {"count": draw(st.integers(1, 6))}})
    case["chops"] = chops
    case["mode"] = "two-sources"
    case["schedules"] = [draw(_picks) for _ in range(3)]
    return case


@st.composite
def order_two_sources_case(draw):
    """two_sources model (possibly with an un-chopped block between sources that share count but not grading) under
    4 (insertion order, numbering, schedule) variants"""
    case = draw(two_sources_case())
    if draw(st.booleans()):
        # three blocks in a row are enough for 'un-chopped block between two sources'
        k = max(case["dims"])
        axis = case["dims"].index(k)
        keep = [0, 1, k - 1] if k > 3 else list(range(k))
        case["cells"] = [c for c in case["cells"] if c in keep]
        case["orient"] = case["orient"][: len(case["cells"])]
        case["chops"] = [ch for ch in case["chops"] if ch["cell"] in keep]
        fams, _ = lt.lattice_families(case)
        chopped = {(ch["cell"], ch["gdir"]) for ch in case["chops"]}
        for fam in fams:
            if not any(m in chopped for m in fam):
                case["chops"].append({"cell": fam[0][0], "gdir": fam[0][1], "args": {"count": 2}})
    n = len(case["cells"])
    case["variants"] = [
        {"perm": draw(st.permutations(list(range(n)))), "orient": [draw(st.integers(0, 23)) for _ in range(n)], "picks": draw(_picks)}
        for _ in range(3)
    ]
    case["picks"] = draw(_picks)
    case["same_outcome_suffices"] = True
    return case


def check_determinism(case, ctx: Ctx) -> None:
    facts = facts_of(case)
    outs = []
    multi = 0
    keep = []
    for i, picks in enumerate(case["schedules"] * 2):
        # shift the allocator between builds: iteration over any set of objects the library may build internally
        # (which the harness cannot re-order) depends on object addresses
        keep.append([object() for _ in range(37 * (i + 1) + 11 * (sum(picks) % 97))])
        if i % 2:
            keep.pop(0)
        built = lt.build(case)
        o, p, multi = run_write(case, built, picks)
        if o == "fuel":
            raise Violation("non-termination", "write did not finish within the fuel limit", schedule=picks, **facts)
        outs.append((o, p if o == "ok" else f"{type(p).__name__}"))
    if len({o for o in outs}) != 1:
        kinds = sorted({o[0] if o[0] != "ok" else "ok" for o in outs} | {o[1] for o in outs if o[0] != "ok"})
        same_class = len({(o[0], None if o[0] == "ok" else o[1]) for o in outs}) == 1
        raise Violation(
            "schedule-dependent-file" if same_class else "schedule-dependent-outcome",
            f"the same script ends differently under different set iteration orders: {kinds}",
            **facts,
        )
    ctx.nt(multi >= 2 and len(case["cells"]) >= 3)
    ctx.label("outcome:" + (outs[0][0] if outs[0][0] == "ok" else outs[0][1]))


# --------------------------------------------------------------------------------------------------
# 6  scripts that assemble more than once (clear / backport between writes, chops edited in between)


@st.composite
def history_case(draw):
    """A well-posed count-only model written, then 1-3 further rounds: optionally one family's chop is replaced by
    another count or removed (or a removed one is put back), the mesh is cleared or back-ported (optionally after moving
    a vertex, as an optimiser would), and written again.  A model of {family: count or None} says how each write ends."""
    if draw(st.booleans()):
        case = draw(chain_case())
    else:
        case = draw(lt.chopped_lattice("wellposed", min_cells=2))
        case["picks"] = draw(_picks)
    for ch in case["chops"]:
        if isinstance(ch["args"], list):
            ch["args"] = {"count": lt.chop_total_count(ch["args"])}
    nf = len(case["chops"])
    rounds = []
    for _ in range(draw(st.integers(1, 3))):
        edit = None
        kind = draw(st.sampled_from(["none", "rechop", "rechop", "unchop"]))
        if kind != "none":
            edit = {"kind": kind, "chop": draw(st.integers(0, nf - 1)), "count": draw(st.integers(1, 12))}
        rounds.append({"edit": edit, "between": draw(st.sampled_from(["clear", "backport", "backport-moved"])),
                       "vertex": draw(st.integers(0, 63)), "shift": [draw(st.floats(-0.05, 0.05)) for _ in range(3)],
                       "picks": draw(_picks)})
    case["rounds"] = rounds
    case["mode"] = "history"
    return case


def check_history(case, ctx: Ctx) -> None:
    import numpy as np

    built = lt.build(case)
    facts = facts_of(case)
    mesh = built.mesh
    fams, _ = lt.lattice_families(case)
    fam_of = {m: fi for fi, fam in enumerate(fams) for m in fam}
    # model: family -> count (None = no chop); one chop per family by construction
    holder = {}
    model = {}
    for ap in built.applied:
        fi = fam_of[(ap["cell"], ap["gdir"])]
        holder[fi] = ap
        model[fi] = lt.chop_total_count(ap["kwargs"])
    path = lt.write_path("history_blockMeshDict")

    def write_and_judge(step: str, picks) -> None:
        if os.path.exists(path):
            os.remove(path)
        if not mesh.is_assembled:
            mesh.assemble()
        schedule.inject(mesh, picks)
        want_ok = all(v is not None for v in model.values())
        try:
            fuel.run(lambda: mesh.write(path), fuel_limit(len(built.ops)))
        except fuel.OutOfFuel:
            raise Violation("non-termination", f"{step}: write did not finish within the fuel limit", step=step, **facts) from None
        except UndefinedGradingsError as ex:
            if want_ok:
                raise Violation("wellposed-rejected", f"{step}: every family has a chop, write raised {type(ex).__name__}: {ex}",
                                error=type(ex).__name__, step=step, **facts) from None
            if os.path.exists(path):
                raise Violation("partial-file", f"{step}: failed write left a file behind", step=step, **facts) from None
            ctx.label("round-undefined")
            return
        except Exception as ex:  # noqa: BLE001
            raise Violation("wellposed-rejected" if want_ok else "under-wrong-error",
                            f"{step}: write raised {type(ex).__name__}: {ex}", error=type(ex).__name__, step=step, **facts) from None
        if not want_ok:
            raise Violation("under-written", f"{step}: a family whose only chop was removed was written", step=step, **facts)
        with open(path) as f:
            text = f.read()
        try:
            bmd = lt.parse(text)
        except FoamParseError as ex:
            raise Violation("unparsable", f"{step}: {ex}", step=step, **facts) from None
        if len(bmd.blocks) != len(built.ops):
            raise Violation("block-count", f"{step}: {len(bmd.blocks)} hex entries for {len(built.ops)} operations", step=step, **facts)
        for oi, cell in enumerate(built.cells):
            for la in range(3):
                fi = fam_of[(cell, built.axes[oi][la][0])]
                got = bmd.blocks[oi].counts[la]
                if got != model[fi]:
                    raise Violation("family-count-not-propagated",
                                    f"{step}: op {oi} local axis {la} (cell {cell}) has {got}, its family's chop says {model[fi]}",
                                    step=step, **facts)

    write_and_judge("first write", case["picks"])
    for ri, rnd in enumerate(case["rounds"]):
        step = f"round {ri + 1} ({rnd['between']}"
        edit = rnd["edit"]
        if edit is not None:
            ap = holder[sorted(holder)[edit["chop"] % len(holder)]]
            fi = fam_of[(ap["cell"], ap["gdir"])]
            op = built.ops[ap["op"]]
            op.unchop(ap["axis"])
            if edit["kind"] == "rechop":
                op.chop(ap["axis"], count=edit["count"])
                model[fi] = edit["count"]
            else:
                model[fi] = None
            step += ", " + edit["kind"]
            ctx.label("edit:" + edit["kind"])
        step += ")"
        if rnd["between"] == "clear":
            mesh.clear()
        else:
            if not mesh.is_assembled:
                mesh.assemble()
            if rnd["between"] == "backport-moved":
                v = mesh.vertices[rnd["vertex"] % len(mesh.vertices)]
                scale = min(min(w) for w in case["widths"])
                v.move_to(v.position + np.array(rnd["shift"]) * scale)
            mesh.backport()
        ctx.label("between:" + rnd["between"])
        write_and_judge(step, rnd["picks"])
    ctx.nt(len(built.ops) >= 2)
    ctx.label(f"rounds={len(case['rounds'])}")


# --------------------------------------------------------------------------------------------------
# 7  order independence when the count is derived from a cell size on curved shared edges


@st.composite
def curved_order_case(draw):
    """A family whose only chop names a cell size (the count follows from the edge lengths of the chopped block), with a
    circular arc on an edge of that direction which the chopped block shares with another block - and which either of
    them may declare.  3 further (insertion order, numbering, schedule) variants: same counts everywhere."""
    case = draw(lt.lattice(min_cells=2, max_cells=6, jitter="maybe"))
    case.pop("offset", None)
    gdir = draw(st.integers(0, 2))
    shared = lt.shared_edges(case, gdir) or lt.shared_edges(case)
    if not shared:
        return None
    n1, n2, cells = draw(st.sampled_from(shared))
    dims = case["dims"]
    nodes0 = lt.cell_nodes(dims, cells[0])
    from vf.refmodel import HEX_EDGES_BY_AXIS

    gdir = [ax for ax in range(3) for i, j in HEX_EDGES_BY_AXIS[ax] if {nodes0[i], nodes0[j]} == {n1, n2}][0]
    owner = draw(st.sampled_from(cells))
    others = [c for c in cells if c != owner]
    chopped = draw(st.sampled_from(others)) if draw(st.integers(0, 3)) > 0 else draw(st.sampled_from(cells))
    case["arcs_request"] = {"nodes": [n1, n2] if draw(st.booleans()) else [n2, n1], "owner_cell": owner,
                            "frac": draw(st.floats(0.15, 0.3)) * draw(st.sampled_from([1, -1])),
                            "helper": draw(st.sampled_from([[1.0, 0.3, 0.2], [0.2, 1.0, 0.3], [0.3, 0.2, 1.0]]))}
    fams, _ = lt.lattice_families(case)
    chops = []
    for fam in fams:
        if (chopped, gdir) in fam:
            key = draw(st.sampled_from(["start_size_frac", "end_size_frac"]))
            chops.append({"cell": chopped, "gdir": gdir, "args": {
                key: draw(st.floats(0.02, 0.12)), "c2c_expansion": draw(st.sampled_from([1.0, 1.0, 1.05, 0.95])),
                "preserve": draw(st.sampled_from(["c2c_expansion", "start_size", "end_size"]))}})
        else:
            c, d = draw(st.sampled_from(fam))
            chops.append({"cell": c, "gdir": d, "args": {"count": draw(st.integers(1, 6))}})
    case["chops"] = chops
    case["mode"] = "curved-order"
    k = len(case["cells"])
    case["variants"] = [{"perm": draw(st.permutations(list(range(k)))), "orient": [draw(st.integers(0, 23)) for _ in range(k)],
                         "picks": draw(_picks)} for _ in range(3)]
    case["picks"] = draw(_picks)
    return case


def check_curved_order(case, ctx: Ctx) -> None:
    import numpy as np

    rq = case["arcs_request"]
    pos = lt.node_positions(case)
    n1, n2 = rq["nodes"]
    chord = pos[n2] - pos[n1]
    perp = np.cross(chord, np.array(rq["helper"]))
    if np.linalg.norm(perp) < 0.1 * np.linalg.norm(chord):
        perp = np.cross(chord, np.array(rq["helper"])[::-1])
    perp = perp / np.linalg.norm(perp)
    case = dict(case)
    case["arcs"] = [{"nodes": [n1, n2], "bulge": (perp * rq["frac"] * np.linalg.norm(chord)).tolist(), "owner": 0,
                     "owner_cell": rq["owner_cell"]}]
    check_order(case, ctx)
    order = {c: i for i, c in enumerate(case["cells"])}
    sized = [ch for ch in case["chops"] if "count" not in ch["args"]][0]
    ctx.label("arc-declared-by-later-block" if order[rq["owner_cell"]] > order[sized["cell"]] else
              ("arc-declared-by-chopped-block" if rq["owner_cell"] == sized["cell"] else "arc-declared-by-earlier-block"))


# the 4-box model of DESIGN.md appendix A (F2): A(0,0) D(2,0) B(1,0) C(1,1) inserted in that order, A and D chopped in z;
# all 6 orders of the 3-element neighbour set of C's z direction are enumerated
_LIVELOCK = [
    {
        "dims": [3, 2, 1], "widths": [[1.0, 1.0, 1.0], [1.0, 1.0], [1.0]], "jitter": [], "cells": [0, 2, 1, 4],
        "orient": [0, 0, 0, 0], "mode": "redundant", "picks": [k],
        "chops": [
            {"cell": 0, "gdir": 2, "args": {"count": 5}}, {"cell": 2, "gdir": 2, "args": {"count": 5}},
            {"cell": 0, "gdir": 0, "args": {"count": 2}}, {"cell": 2, "gdir": 0, "args": {"count": 2}},
            {"cell": 1, "gdir": 0, "args": {"count": 2}}, {"cell": 0, "gdir": 1, "args": {"count": 3}},
            {"cell": 4, "gdir": 1, "args": {"count": 3}},
        ],
    }
    for k in range(6)
]

CELLS = [
    Cell("C02/complete/flanked", flanked_case(), check_complete, 150, 6000,
         "an un-chopped block flanked by two identically chopped blocks plus a neighbour of it (livelock shape), drawn "
         "insertion order / numbering / schedule"),
    Cell("C02/complete/chain", chain_case(), check_complete, 150, 6000,
         "rows of 3-6 blocks with a single chop per family: the count travels along the chain in any insertion order"),
    Cell("C02/complete/count", wellposed_case(False), check_complete, 200, 8000,
         "well-posed / redundant count chops + drawn schedule: terminates, writes, every block direction has its family's count",
         fixed_cases=_LIVELOCK),
    Cell("C02/complete/graded", wellposed_case(True), check_complete, 120, 6000,
         "well-posed graded chops (sizes, ratios, preserve) + drawn schedule"),
    Cell("C02/complete/merged-cross", merged_cross_case().filter(lambda c: c is not None), check_complete, 150, 5000,
         "2 x 2 x k cells with a merged pair on each of the two mid planes, or a channel of k cells whose walls and roof "
         "are slave patches of three pairs (corners carrying two slave patches, drawn names): every block direction "
         "gets its family's count"),
    Cell("C02/complete/merged", wellposed_case(False, merge="yes").filter(lambda c: bool(c.get("merges"))), check_complete, 200, 6000,
         "as complete/count with 1-2 merged (master / slave) patch pairs on lattice planes: corners on a slave patch are "
         "separate vertices, so families end at the interface - every block direction still gets its family's count"),
    Cell("C02/order-independence/merged", order_case(merge="yes").filter(lambda c: bool(c.get("merges"))), check_order, 120, 4000,
         "as order-independence with 1-2 merged patch pairs; the variants also re-draw the (distinct) patch names"),
    Cell("C02/order-independence", order_case(), check_order, 100, 4000,
         "same lattice model under 4 (insertion order, numbering, schedule) triples: same outcome, same counts per (cell, direction)"),
    Cell("C02/order-independence/two-sources", order_two_sources_case(), check_order, 80, 3000,
         "a family chopped at both ends of a row with the same count and different expansions, under 4 (insertion "
         "order, numbering, schedule) triples: same outcome class, same counts per (cell, direction)"),
    Cell("C02/order-independence/curved-size", curved_order_case().filter(lambda c: c is not None), check_curved_order, 120, 4000,
         "a family chopped by cell size on a block that shares a circular-arc edge with another block; the arc is declared "
         "by a drawn one of the blocks that share it; 4 (insertion order, numbering, schedule) triples: same counts"),
    Cell("C02/history", history_case(), check_history, 200, 6000,
         "write, then 1-3 rounds of (replace / remove a family's chop) + clear / backport (optionally after moving a "
         "vertex) + write: each write ends as the current chops say (counts per family, or UndefinedGradingsError, no file)"),
    Cell("C02/under-specified", under_case(), check_under, 150, 6000,
         "one family without chop: UndefinedGradingsError within fuel; no file left / existing file untouched"),
    Cell("C02/determinism/uniform", any_case(False), check_determinism, 120, 5000,
         "arbitrary chop placement (possibly redundant / under-specified), one specification per family, 3 schedules: "
         "same outcome class and byte-identical file"),
    Cell("C02/determinism/two-sources", two_sources_case(), check_determinism, 160, 5000,
         "row of 3-6 blocks, both ends chopped with the same count and the same or different expansions, drawn insertion order and "
         "numbering; 6 builds with shifted allocator and 3 schedules: same outcome class and byte-identical file"),
    Cell("C02/determinism/mixed", any_case(True), check_determinism, 120, 5000,
         "as uniform but members of a family may carry different counts / expansions, 3 schedules"),
]
