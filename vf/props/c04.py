"""C04 — cell-size distribution matches on shared edges and honours 'preserve' (DESIGN.md section 4, C04)."""

from __future__ import annotations

import numpy as np
from hypothesis import strategies as st

from vf import lattice as lt
from vf.core import Cell, Ctx, Violation
from vf.foamdict import EDGE_GRADING_ORDER, FoamParseError, hex_edge_gradings
from vf.refmodel import families, multi_sizes

from classy_blocks.base.exceptions import InconsistentGradingsError, UndefinedGradingsError

RULE = (
    "Jittered lattice assemblies (unequal edge lengths, 24 numberings so neighbours are anti-aligned about half the "
    "time) with one graded chop per edge family (all preserve modes, 1-3 sections). Every hex entry of the parsed file is "
    "expanded to 12 per-edge gradings; the blockMesh size sequence of each (vf.refmodel.multi_sizes) is compared across "
    "all blocks sharing the edge, and first/last cell sizes are compared over the family for preserve=start/end size. "
    "Non-trivial: >= 2 blocks, >= 1 shared edge traversed in opposite senses, family edge lengths differing by > 5 %."
)
ASSUMPTIONS = [
    "edge lengths are taken from the parsed file: vertex distance for straight edges, R * theta of the circle through "
    "the three points of an `arc` entry for curved ones (arc points 5-30 % of the chord off the edge)",
    "size sequences compare with relative tolerance 1e-6; preserved sizes with 1e-6 relative plus the effect of the 8 printed "
    "decimals of the vertices on the edge's length (4e-8 / L; twice when the reference value itself is read off an edge)",
    "a chop whose size/ratio combination cannot be realised on some edge may be rejected with a ValueError (counted)",
]

TOLR = 1e-6


def facts_of(case):
    return {"mode": case.get("mode"), "blocks": len(case["cells"]), "contacts": lt.contact_labels(case)}


def spec_of(entry):
    """a grading entry of the file -> list of (length ratio, count, expansion) given the block's count"""
    return entry


def edge_sequences(bmd):
    """{frozenset(vertex pair): [(block, axis, (a, b), sizes list in a->b order)]}"""
    pos = [np.array(v.pos) for v in bmd.vertices]
    arcs = arc_lengths(bmd)
    out = {}
    for bi, h in enumerate(bmd.blocks):
        grads = hex_edge_gradings(h)
        for k, (i, j) in enumerate(EDGE_GRADING_ORDER):
            a, b = h.ids[i], h.ids[j]
            if a == b:
                continue
            ax = k // 4
            g = grads[k]
            spec = g if isinstance(g, list) else [[1.0, h.counts[ax], g]]
            length = arcs.get(frozenset((a, b)), float(np.linalg.norm(pos[b] - pos[a])))
            sizes = multi_sizes(length, spec)
            out.setdefault(frozenset((a, b)), []).append((bi, ax, (a, b), sizes, spec))
    return out


def arc_lengths(bmd):
    """{vertex pair: analytic length R * theta} for the `arc a b (p)` entries of the file (circle through a, p, b)"""
    from vf.refmodel import arc_angle_through

    pos = [np.array(v.pos) for v in bmd.vertices]
    out = {}
    for e in bmd.edges:
        if e.kind == "arc" and not isinstance(e.payload[0], tuple):
            theta, _centre, radius, _n = arc_angle_through(pos[e.a], np.array(e.payload), pos[e.b])
            out[frozenset((e.a, e.b))] = radius * theta
    return out


def same_seq(x, y) -> bool:
    return len(x) == len(y) and all(abs(p - q) <= TOLR * max(abs(p), abs(q)) for p, q in zip(x, y))


def check_written(case, built, text, ctx: Ctx, check_preserve: bool):
    facts = facts_of(case)
    try:
        bmd = lt.parse(text)
    except FoamParseError as ex:
        raise Violation("unparsable", str(ex), **facts) from None
    seqs = edge_sequences(bmd)
    anti = 0
    for edge, users in seqs.items():
        for u in users:
            # the sections of one edge add up to the block's count in that direction
            if len(u[3]) != bmd.blocks[u[0]].counts[u[1]]:
                raise Violation("section-counts", f"block {u[0]} edge {sorted(edge)}: {len(u[3])} cells in the grading, "
                                f"count {bmd.blocks[u[0]].counts[u[1]]}", **facts)
        first = users[0]
        for u in users[1:]:
            same_sense = u[2] == first[2]
            if not same_sense:
                anti += 1
            want = first[3] if same_sense else first[3][::-1]
            if not same_seq(u[3], want):
                raise Violation(
                    "shared-edge-sizes-differ",
                    f"edge {sorted(edge)}: block {first[0]} {first[4]} vs block {u[0]} {u[4]} "
                    f"({'same' if same_sense else 'opposite'} sense)",
                    same_sense=same_sense, **facts,
                )
    # (c) file vs live wires: what is printed for an edge is that wire's grading
    for bi, block in enumerate(built.mesh.blocks):
        h = bmd.blocks[bi]
        grads = hex_edge_gradings(h)
        for ax in range(3):
            for wire in block.axes[ax].wires:
                pair = tuple(wire.corners)
                k = EDGE_GRADING_ORDER.index(pair) if pair in EDGE_GRADING_ORDER else None
                if k is None:
                    raise Violation("wire-corners", f"wire corners {pair} are not a hexahedron edge in blockMesh order", **facts)
                g = grads[k]
                spec = g if isinstance(g, list) else [[1.0, h.counts[ax], g]]
                live = [[float(s[0]), int(s[1]), float(s[2])] for s in wire.grading.specification]
                ok = len(live) == len(spec) and all(
                    int(a[1]) == int(b[1]) and abs(a[2] - b[2]) <= TOLR * max(abs(a[2]), abs(b[2]))
                    for a, b in zip(live, spec)
                )
                if not ok:
                    raise Violation(
                        "printed-grading-differs-from-wire",
                        f"block {bi} ({h.grading_kind}) edge {pair}: printed {spec}, wire holds {live}",
                        grading_kind=h.grading_kind, **facts,
                    )
    # (b) preserve
    fams, _ = lt.lattice_families(case)
    fam_of = {m: fi for fi, fam in enumerate(fams) for m in fam}
    pos = [np.array(v.pos) for v in bmd.vertices]
    arcs = arc_lengths(bmd)
    # the library writes a straight line for an arc whose three points are collinear within its absolute tolerance
    # (|(a - p) x (b - p)| <= 1e-7, a recorded finding of C08 for tiny models): such arcs may be missing
    must, may = 0, 0
    for arc in built.arcs:
        pts = built.points[arc["op"]]
        a, b_ = pts[arc["corners"][0]], pts[arc["corners"][1]]
        cross = float(np.linalg.norm(np.cross(a - np.array(arc["point"]), b_ - np.array(arc["point"]))))
        if cross > 2e-7:
            must += 1
        elif cross >= 0.5e-7:
            may += 1
    if not must <= len(arcs) <= must + may:
        raise Violation("arc-entries", f"{len(built.arcs)} arc edges declared ({must} well above the collinearity "
                        f"tolerance, {may} near it), {len(arcs)} written", **facts)
    if len(arcs) < len(built.arcs):
        ctx.label("arc-below-tolerance-written-as-line")
    if arcs:
        ctx.label("curved-edges")
    spread = 0.0
    if check_preserve:
        for ap in built.applied:
            kws = ap["kwargs"]  # sections in the chopped block's own sense
            # the first section may ask to keep the first cell, the last section the last cell (a single section: either)
            asked = []
            if kws[0].get("preserve") == "start_size":
                asked.append(("start_size", kws[0].get("start_size"), ap["sign"] > 0))
            if kws[-1].get("preserve") == "end_size":
                asked.append(("end_size", kws[-1].get("end_size"), ap["sign"] < 0))
            if not asked:
                continue
            fi = fam_of[(ap["cell"], ap["gdir"])]
            for pres, named, at_low in asked:
                sizes_at_end = []
                lengths = []
                for oi, cell in enumerate(built.cells):
                    for la in range(3):
                        gdir, sign = built.axes[oi][la]
                        if fam_of[(cell, gdir)] != fi:
                            continue
                        h = bmd.blocks[oi]
                        grads = hex_edge_gradings(h)
                        for k in range(4 * la, 4 * la + 4):
                            i, j = EDGE_GRADING_ORDER[k]
                            a, b = h.ids[i], h.ids[j]
                            g = grads[k]
                            spec = g if isinstance(g, list) else [[1.0, h.counts[la], g]]
                            length = arcs.get(frozenset((a, b)), float(np.linalg.norm(pos[b] - pos[a])))
                            seq = multi_sizes(length, spec)
                            first_is_low = sign > 0
                            val = seq[0] if first_is_low == at_low else seq[-1]
                            sizes_at_end.append((oi, la, k, val))
                            lengths.append(length)
                vals = [v[3] for v in sizes_at_end]
                ref = named if named is not None else vals[0]
                # vertices are printed with 8 decimals: allow that rounding of the edge length
                tol = lambda L: TOLR + 4e-8 / L  # noqa: E731
                # a reference value read off the first edge carries that edge's rounding as well
                ref_tol = 0.0 if named is not None else tol(lengths[0])
                for (oi, la, k, v), L in zip(sizes_at_end, lengths):
                    if abs(v - ref) > (tol(L) + ref_tol) * max(abs(ref), abs(v)):
                        raise Violation(
                            "preserved-size-not-realised",
                            f"preserve={pres}: block {oi} axis {la} edge #{k} has {v} at the preserved end, expected {ref}"
                            f" ({'named by the chop' if named is not None else 'value on the first edge'}; "
                            f"{len(kws)} section(s))",
                            preserve=pres, named=named is not None, sections=len(kws), **facts,
                        )
                ctx.label("preserve:" + pres + ("/multi-section" if len(kws) > 1 else ""))
                spread = max(spread, max(lengths) / min(lengths) - 1)
    shared = sum(1 for u in seqs.values() if len(u) >= 2)
    return bmd, shared, anti, spread


def check_wellposed(case, ctx: Ctx) -> None:
    built = lt.build(case)
    facts = facts_of(case)
    try:
        if case.get("jitter_after_assembly"):
            if case.get("write_before_move"):
                lt.write_text(built.mesh)
            lt.move_after_assembly(case, built)
            ctx.label("moved-after-assembly")
        text, _ = lt.write_text(built.mesh)
        if case.get("history") == "write-write":
            # the file of a second write of the same mesh is judged (nothing may have been turned round by the first)
            text, _ = lt.write_text(built.mesh)
            ctx.label("second-write-judged")
    except (UndefinedGradingsError, InconsistentGradingsError) as ex:
        raise Violation("wellposed-rejected", f"{type(ex).__name__}: {ex}", **facts) from None
    except (ValueError, ArithmeticError):  # a size/ratio combination that cannot be realised on some edge
        ctx.label("chop-rejected")
        return
    bmd, shared, anti, spread = check_written(case, built, text, ctx, True)
    ctx.nt(len(built.ops) >= 2 and anti >= 1 and (spread > 0.05 or bool(case["jitter"])))
    ctx.label("anti-aligned" if anti else "aligned-only")
    if any(h.grading_kind == "edgeGrading" for h in bmd.blocks):
        ctx.label("edgeGrading")
    if any(isinstance(c["args"], list) for c in case["chops"]):
        ctx.label("multi-section")


@st.composite
def graded_case(draw, multi: bool, curved: bool = False):
    case = draw(lt.chopped_lattice("wellposed", graded=True, jitter="yes", min_cells=2))
    # one case in four: the blocks are built regular and the vertices are moved after assembly (optimiser-style)
    case["jitter_after_assembly"] = draw(st.integers(0, 3)) == 0 and not curved
    case["write_before_move"] = draw(st.booleans())
    case["history"] = draw(st.sampled_from(["write", "write", "write-write"]))
    if curved and draw(st.booleans()):
        # small models (millimetres and below, in metres): the library's absolute tolerances come into play
        case["scale"] = draw(st.sampled_from([1e-2, 1e-3, 5e-4]))
        case.pop("offset", None)
    if not case["jitter_after_assembly"]:
        case["arcs"] = lt.draw_arcs(draw, case, prefer_shared=True, min_arcs=1 if curved else 0, max_arcs=3 if curved else 2)
    if multi:
        # replace some chops by 2-3 section graded chops
        for ch in case["chops"]:
            if draw(st.booleans()):
                k = draw(st.integers(2, 3))
                lrs = draw(st.sampled_from({2: [[0.5, 0.5], [0.3, 0.7]], 3: [[0.25, 0.5, 0.25], [0.2, 0.3, 0.5]]}[k]))
                # boundary layers: the first section keeps the first cell's size, the last section the last cell's
                walls = draw(st.sampled_from(["none", "both", "low", "high"]))
                secs = []
                for si, lr in enumerate(lrs):
                    n = draw(st.integers(1, 6))
                    r = draw(st.floats(0.8, 1.25))
                    sec = {"length_ratio": lr, "count": n}
                    if n > 1 and draw(st.booleans()):
                        sec["c2c_expansion"] = r
                    if si == 0 and walls in ("both", "low"):
                        sec = {"length_ratio": lr, "start_size_frac": draw(st.floats(0.05, 0.3)),
                               "c2c_expansion": draw(st.floats(1.0, 1.25)), "preserve": "start_size"}
                    if si == len(lrs) - 1 and walls in ("both", "high"):
                        sec = {"length_ratio": lr, "end_size_frac": draw(st.floats(0.05, 0.3)),
                               "c2c_expansion": draw(st.floats(0.8, 1.0)), "preserve": "end_size"}
                    secs.append(sec)
                ch["args"] = secs
    return case


@st.composite
def redundant_case(draw):
    case = draw(lt.chopped_lattice("wellposed", graded=False, jitter="yes", min_cells=2))
    fams, _ = lt.lattice_families(case)
    big = [fi for fi, fam in enumerate(fams) if len(fam) >= 2]
    if not big:
        return None
    new = []
    for ch in case["chops"]:
        if isinstance(ch["args"], list):
            ch["args"] = {"count": draw(st.integers(2, 8))}
    for fi in big:
        base = [ch for ch in case["chops"] if (ch["cell"], ch["gdir"]) in fams[fi]][0]
        n = max(2, base["args"]["count"])
        base["args"] = {"count": n, "c2c_expansion": draw(st.sampled_from([1.0, 1.1, 0.9]))}
        if draw(st.booleans()):
            rest = [m for m in fams[fi] if m != (base["cell"], base["gdir"])]
            # prefer a second source that does not touch the first: their different gradings then meet inside
            # the un-chopped blocks between them (touching sources are refused outright)
            base_nodes = set(lt.cell_nodes(case["dims"], base["cell"]))
            apart = [m for m in rest if not (base_nodes & set(lt.cell_nodes(case["dims"], m[0])))]
            if apart and draw(st.integers(0, 3)) > 0:
                rest = apart
            c, d = draw(st.sampled_from(rest))
            new.append({"cell": c, "gdir": d, "args": {"count": n, "c2c_expansion": draw(st.sampled_from([1.0, 1.1, 1.2, 0.9]))}})
    case["chops"] = case["chops"] + new
    case["mode"] = "redundant-graded"
    case["extra"] = len(new)
    return case


def check_redundant(case, ctx: Ctx) -> None:
    built = lt.build(case)
    try:
        text, _ = lt.write_text(built.mesh)
    except InconsistentGradingsError:
        ctx.label("rejected-inconsistent")
        ctx.nt(case["extra"] >= 1)
        return
    except (ValueError, ArithmeticError):  # a size/ratio combination that cannot be realised on some edge
        ctx.label("chop-rejected")
        return
    check_written(case, built, text, ctx, False)
    ctx.label("written")
    ctx.nt(case["extra"] >= 1)


CELLS = [
    Cell("C04/wellposed/single", graded_case(False), check_wellposed, 600, 12000,
         "one graded chop per family, all preserve modes; shared-edge sequences, printed = wire grading, preserved sizes"),
    Cell("C04/wellposed/multi", graded_case(True), check_wellposed, 600, 12000,
         "as single, with 2-3 section chops in some families (first / last section may preserve the wall cell's size)"),
    Cell("C04/wellposed/curved", graded_case(False, curved=True), check_wellposed, 600, 12000,
         "as single, with 1-3 circular arcs, mostly on edges shared by several blocks and declared by a drawn one of them "
         "(either direction, any insertion order): preserved sizes are realised on the arc's true length"),
    Cell("C04/redundant", redundant_case().filter(lambda c: c is not None), check_redundant, 400, 8000,
         "two chopped blocks in one family, same count, possibly different expansion: InconsistentGradingsError or "
         "matching sequences on every shared edge"),
]
