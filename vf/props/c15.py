"""C15 — smoothing moves only free interior points, to their neighbours' average (DESIGN.md section 4, C15)."""

from __future__ import annotations

import itertools
import math
import warnings
from typing import Dict, List, Set

import numpy as np
from hypothesis import strategies as st

from vf import fuel
from vf.core import Cell, Ctx, Violation
from vf.refmodel import HEX_EDGES, HEX_SIDES, hex_rotations, rodrigues

warnings.simplefilter("ignore")

import classy_blocks as cb  # noqa: E402
from classy_blocks.construct.flat.sketches.mapped import MappedSketch  # noqa: E402
from classy_blocks.optimize.smoother import MeshSmoother, SketchSmoother  # noqa: E402

RULE = (
    "Quad maps (structured nx x ny <= 5 x 5 with per-column widths and shear; unstructured: 3-, 5-, 6-gon fans and a "
    "core+shell disk map, optionally refined 1:4, giving 3-, 5-, 6-valent interior points; the library's own disk "
    "sketches) and hexahedral assemblies "
    "cut from a 1..3 ^3 node lattice (0-2 cells dropped, each block in one of the 24 numberings, any insertion order) "
    "get their interior points jittered; quads are cyclically renumbered, faces and point ids permuted, the plane "
    "optionally tilted. Points are fixed by a drawn sequence of 1-3 fix_indexes / fix_points calls (any mix and order, "
    "possibly overlapping; their union must stay put); iterations n in 1..200. The "
    "library smooths a fresh build n-1 and another n times. Oracles use the harness's own topology (an edge/face is "
    "boundary iff it belongs to exactly one cell; neighbours = points joined by a cell edge). Non-trivial: >= 1 free "
    "interior point that has >= 1 fixed or boundary neighbour; distinct = distinct generated case."
)
ASSUMPTIONS = [
    "boundary / fixed points: compared bit-for-bit with the generated input",
    "one sweep: state(n) of a free point equals the mean of its edge-neighbours taken from state(n-1) or state(n) "
    "(all 2^k combinations of the free neighbours, so no sweep order is assumed); tolerance 1e-11 * largest |coordinate| "
    "(rounding of a mean of <= 6 points is ~1e-15 relative)",
    "fix point: asserted when n >= ln(1e-13)/ln(rho) with rho the spectral radius of the Jacobi matrix of the harness's "
    "own free-point graph (Gauss-Seidel in any order is not slower, Stein-Rosenberg); residual and distance to the "
    "harness's direct linear solve <= 1e-9 * size + 1e-12 * largest |coordinate|; with fewer iterations the case is only "
    "counted",
    "placement: the whole sketch plane / mesh is shifted by 0, 1e3, 1e5 or 2e6 cell sizes in a general direction "
    "(largest |coordinate| about 8e7, spacing of doubles 1.5e-8, still below the library's TOL = 1e-7 used for vertex "
    "merging and fix_points); static points remain bit-identical, the sweep tolerance 1e-11 * largest |coordinate| "
    "scales with it",
    "start positions of sketch interior points: jittered, all placeholders at one spot (the usage of "
    "examples/shape/custom.py and the cyclone example; cells are zero-sized at the start), or one point exactly on a "
    "neighbour; meshes only jittered (coincident mesh points are merged by the library, a different topology)",
    "fixed by position means every grid point within the library's TOL = 1e-7 of the given place (so placeholders "
    "sharing the spot are held too); a case with a point between 0.9 and 1.1 TOL from a given place is not judged; the "
    "regular lattice is asserted only when every held interior point sits on the lattice",
    "second stage (about 1/3 of non-regular cases): after the first smooth() more points are fixed at the place they "
    "have then (by index or by position read from sketch.positions / mesh.vertices) and n2 more sweeps are run on the "
    "same smoother; they must stay bit-identical to that place, and sweep / fix-point oracles apply to the last stage",
    "work bound: every smooth() runs under call-count fuel 4 x (sweeps x (valence + 3) per interior point + copy-back) "
    "(unchanged library: <= 0.15 of it); running out is labelled inconclusive, never a verdict",
    "mesh histories: the n sweeps are spread over 1-3 smooth() calls of one smoother with mesh.backport() or nothing in "
    "between; judged on mesh.vertices after the last call exactly as a single smooth(n)",
    "regular lattice: boundary (and fixed points) on an affine image of the integer lattice, so the integer lattice is "
    "the unique discrete-harmonic solution",
    "fixed-by-position uses the exact generated coordinates (the library matches within TOL = 1e-7; generated points "
    "are >= 0.05 apart)",
    "mesh vertices are matched to lattice nodes by initial position (nearest, must be < 1e-9)",
]

ROT = hex_rotations()
CANON = [(0, 0, 0), (1, 0, 0), (1, 1, 0), (0, 1, 0), (0, 0, 1), (1, 0, 1), (1, 1, 1), (0, 1, 1)]
QUAD_EDGES = [(0, 1), (1, 2), (2, 3), (3, 0)]

# --------------------------------------------------------------------------------------------------
# the harness's own topology


class Topo:
    def __init__(self, cells: List[List[int]], npoints: int):
        self.cells = cells
        self.n = npoints
        hexa = len(cells[0]) == 8
        self.nbrs: Dict[int, Set[int]] = {i: set() for i in range(npoints)}
        sides: Dict[frozenset, int] = {}
        for c in cells:
            for i, j in HEX_EDGES if hexa else QUAD_EDGES:
                self.nbrs[c[i]].add(c[j])
                self.nbrs[c[j]].add(c[i])
            side_list = [tuple(s) for s in HEX_SIDES.values()] if hexa else QUAD_EDGES
            for s in side_list:
                key = frozenset(c[k] for k in s)
                sides[key] = sides.get(key, 0) + 1
        self.boundary: Set[int] = set()
        for key, count in sides.items():
            if count == 1:
                self.boundary |= set(key)
        used = set(itertools.chain.from_iterable(cells))
        self.interior = sorted(used - self.boundary)


def jacobi_radius(free: List[int], topo: Topo) -> float:
    if not free:
        return 0.0
    pos = {p: k for k, p in enumerate(free)}
    J = np.zeros((len(free), len(free)))
    for p in free:
        nb = sorted(topo.nbrs[p])
        for q in nb:
            if q in pos:
                J[pos[p], pos[q]] = 1.0 / len(nb)
    return float(max(abs(np.linalg.eigvals(J)))) if len(free) > 1 else 0.0


def harmonic_solution(initial: np.ndarray, free: List[int], topo: Topo) -> np.ndarray:
    """direct solve of 'every free point is the mean of its edge-neighbours', all other points held"""
    out = initial.copy()
    if not free:
        return out
    pos = {p: k for k, p in enumerate(free)}
    A = np.zeros((len(free), len(free)))
    b = np.zeros((len(free), 3))
    for p in free:
        nb = sorted(topo.nbrs[p])
        A[pos[p], pos[p]] = len(nb)
        for q in nb:
            if q in pos:
                A[pos[p], pos[q]] -= 1.0
            else:
                b[pos[p]] += initial[q]
    out[free] = np.linalg.solve(A, b)
    return out


# --------------------------------------------------------------------------------------------------
# generators: every case carries "points" implicitly through a builder below


_unit = st.floats(-1.0, 1.0)
_iters = st.one_of(st.integers(1, 3), st.integers(1, 200), st.just(200))


PLACE_RATIOS = [0.0, 0.0, 1e3, 1e5, 2e6]  # distance from the origin in cell sizes
PLACE_DIRS = [[0.6, -0.5, 0.6245], [-0.48, 0.64, 0.6], [0.7071, 0.7071, 0.0], [0.2, 0.3, -0.9327]]


@st.composite
def _place(draw):
    return {"ratio": draw(st.sampled_from(PLACE_RATIOS)), "dir": draw(st.integers(0, len(PLACE_DIRS) - 1))}


def placement(case, cell_size: float) -> np.ndarray:
    """where the whole sketch plane / mesh is put (georeferenced coordinates: large compared with a cell)"""
    pl = case.get("place")
    if not pl or not pl["ratio"]:
        return np.zeros(3)
    return pl["ratio"] * cell_size * np.array(PLACE_DIRS[pl["dir"]])


@st.composite
def _history(draw):
    """how the n sweeps are spread over 1-3 smooth() calls on one smoother, and what happens in between"""
    k = draw(st.sampled_from([0, 0, 1, 2]))
    return {"cuts": [draw(st.integers(0, 200)) for _ in range(k)],
            "ops": [draw(st.sampled_from(["backport", "backport", "noop"])) for _ in range(k)]}


def split_iterations(n: int, history) -> List[int]:
    cuts = sorted(c % (n + 1) for c in history["cuts"]) if history else []
    bounds = [0, *cuts, n]
    return [bounds[i + 1] - bounds[i] for i in range(len(bounds) - 1)]


@st.composite
def _then(draw, npoints: int):
    """an optional second stage on the same smoother: more points are fixed where they are now, then n more sweeps"""
    if draw(st.integers(0, 2)) > 0:
        return None
    return {"fixed": draw(st.lists(st.integers(0, npoints - 1), max_size=2, unique=True)),
            "fixed_inner": draw(st.lists(st.integers(0, 63), min_size=1, max_size=2, unique=True)),
            "mode": draw(st.sampled_from(MODES)), "container": draw(st.sampled_from(CONTAINERS)),
            "n": draw(st.one_of(st.integers(1, 3), st.integers(1, 200)))}


@st.composite
def _init(draw, regular: bool = False):
    """where the interior points start: jittered, all at one spot (placeholders, as in examples/shape/custom.py),
    or one of them exactly on a neighbour"""
    kind = draw(st.sampled_from(["jitter", "jitter", "collapsed"] if regular else ["jitter", "jitter", "collapsed", "pair"]))
    return {"init": kind, "pair": [draw(st.integers(0, 63)), draw(st.integers(0, 7))]}


@st.composite
def _tilt(draw):
    if draw(st.booleans()):
        return None
    axis = draw(st.sampled_from([[1.0, 0.0, 0.0], [0.0, 1.0, 0.0], [0.3, -0.5, 0.8]]))
    return {"axis": axis, "angle": draw(st.floats(-3.0, 3.0))}


@st.composite
def _fixing(draw, npoints: int):
    """fixed = any point ids; fixed_inner = selectors resolved to interior points (k-th interior point, modulo)"""
    fixed = draw(st.lists(st.integers(0, npoints - 1), max_size=3, unique=True))
    inner = draw(st.lists(st.integers(0, 63), max_size=2, unique=True))
    mode = draw(st.sampled_from(MODES))
    # 0-2 further fixing calls after the first one (any mix of fix_indexes / fix_points, possibly overlapping)
    more = [
        {"fixed": draw(st.lists(st.integers(0, npoints - 1), max_size=2, unique=True)),
         "fixed_inner": draw(st.lists(st.integers(0, 63), max_size=1)),
         "mode": draw(st.sampled_from(MODES)), "container": draw(st.sampled_from(CONTAINERS))}
        for _ in range(draw(st.sampled_from([0, 0, 1, 2])))
    ]
    return {"fixed": fixed, "fixed_inner": inner, "mode": mode, "container": draw(st.sampled_from(CONTAINERS)), "more": more}


MODES = ["index", "position", "both", "position-array", "both-reversed"]


def resolve_calls(case, interior: List[int], modulo=None, stage: int = 1) -> List[list]:
    """the sequence of fixing calls of a stage as [mode, point ids]"""
    out = []
    for call in ([case, *case.get("more", [])] if stage == 1 else [case["then"]] if case.get("then") else []):
        ids = call["fixed"] if modulo is None else sorted({f % modulo for f in call["fixed"]})
        out.append([call["mode"], resolve_fixed(ids, call.get("fixed_inner", []), interior), call.get("container", "list")])
    return out


def union(calls) -> List[int]:
    return sorted(set(itertools.chain.from_iterable(call[1] for call in calls)))


def resolve_fixed(anywhere: List[int], selectors: List[int], interior: List[int]) -> List[int]:
    out = list(anywhere)
    for k in selectors:
        if interior:
            p = interior[k % len(interior)]
            if p not in out:
                out.append(p)
    return out


@st.composite
def grid_case(draw, regular: bool = False):
    nx, ny = draw(st.integers(2, 5)), draw(st.integers(2, 5))
    base = 10.0 ** draw(st.floats(-1.0, 1.0))
    if regular or draw(st.integers(0, 3)) == 0:
        wx, wy = [base] * nx, [base * draw(st.sampled_from([1.0, 0.5, 2.0]))] * ny
    else:
        wx = [base * draw(st.floats(0.5, 2.0)) for _ in range(nx)]
        wy = [base * draw(st.floats(0.5, 2.0)) for _ in range(ny)]
    npts = (nx + 1) * (ny + 1)
    ninner = (nx - 1) * (ny - 1)
    amp = 0.35 if regular else draw(st.sampled_from([0.0, 0.1, 0.35]))
    case = {
        "kind": "grid", "nx": nx, "ny": ny, "wx": wx, "wy": wy, "shear": draw(st.floats(-0.5, 0.5)),
        "amp": amp, "jit": [draw(_unit) for _ in range(2 * ninner)] if amp else [],
        "shifts": [draw(st.integers(0, 3)) for _ in range(nx * ny)],
        "qperm": draw(st.one_of(st.none(), st.permutations(list(range(nx * ny))))),
        "pperm": draw(st.one_of(st.none(), st.permutations(list(range(npts))))),
        "tilt": draw(_tilt()), "drop": 0 if regular else draw(st.sampled_from([0, 0, 1, 2])),
        "place": draw(_place()),
    }
    case.update(draw(_init(regular)))
    case.update(draw(_fixing(npts)))
    case["n"] = 200 if regular else draw(_iters)
    if regular:
        case["regular"] = True
        case["more"] = []
    else:
        case["then"] = draw(_then(npts))
    return case


@st.composite
def unstructured_case(draw):
    kind = draw(st.sampled_from(["fan3", "fan5", "fan6", "disk"]))
    refine = draw(st.integers(0, 1))
    pts, quads = base_map(kind, refine, 1.0)
    npts = len(pts)
    topo = Topo(quads, npts)
    amp = draw(st.sampled_from([0.0, 0.1, 0.3]))
    return {
        **draw(_fixing(npts)),
        "kind": kind, "refine": refine, "radius": 10.0 ** draw(st.floats(-1.0, 1.0)),
        "amp": amp, "jit": [draw(_unit) for _ in range(2 * len(topo.interior))] if amp else [],
        "shifts": [draw(st.integers(0, 3)) for _ in range(len(quads))],
        "qperm": draw(st.one_of(st.none(), st.permutations(list(range(len(quads)))))),
        "pperm": draw(st.one_of(st.none(), st.permutations(list(range(npts))))),
        "tilt": draw(_tilt()), "drop": draw(st.sampled_from([0, 0, 0, 1, 2])), "n": draw(_iters),
        "place": draw(_place()), "then": draw(_then(npts)), **draw(_init()),
    }


HEX_DIMS = [(2, 2, 2), (3, 3, 3), (2, 2, 3), (3, 2, 2), (2, 3, 2), (3, 3, 2), (3, 2, 3), (2, 2, 2), (3, 3, 1), (2, 1, 2)]


@st.composite
def mesh_case(draw, regular: bool = False):
    dims = draw(st.sampled_from(HEX_DIMS[:2] if regular else HEX_DIMS))
    ncell = dims[0] * dims[1] * dims[2]
    base = 10.0 ** draw(st.floats(-1.0, 1.0))
    if regular or draw(st.integers(0, 3)) == 0:
        widths = [[base * f] * dims[a] for a, f in enumerate([1.0, draw(st.sampled_from([1.0, 2.0])), 1.0])]
    else:
        widths = [[base * draw(st.floats(0.5, 2.0)) for _ in range(dims[a])] for a in range(3)]
    nn = (dims[0] + 1) * (dims[1] + 1) * (dims[2] + 1)
    ninner = max(dims[0] - 1, 0) * max(dims[1] - 1, 0) * max(dims[2] - 1, 0)
    amp = 0.35 if regular else draw(st.sampled_from([0.0, 0.1, 0.35]))
    order = draw(st.one_of(st.none(), st.permutations(list(range(ncell)))))
    drop = 0 if regular else draw(st.sampled_from([0, 0, 1, 2]))
    case = {
        "kind": "mesh", "dims": list(dims), "widths": widths, "shear": [draw(st.floats(-0.4, 0.4)) for _ in range(3)],
        "amp": amp, "jit": [draw(_unit) for _ in range(3 * ninner)] if amp else [],
        "order": order, "drop": min(drop, ncell - 1), "rots": [draw(st.integers(0, 23)) for _ in range(ncell)],
        "place": draw(_place()), "history": draw(_history()),
        # vertices projected to a named surface (an attribute smoothing has nothing to do with)
        "project": [{"node": draw(st.integers(0, 63)), "how": draw(st.sampled_from(["corner", "side"]))}
                    for _ in range(draw(st.sampled_from([0, 0, 1, 2])))],
    }
    case.update(draw(_fixing(nn)))
    case["n"] = 200 if regular else draw(_iters)
    if regular:
        case["regular"] = True
        case["more"] = []
        if ninner == 1:
            case["fixed_inner"] = []  # keep the only interior point free
    else:
        case["then"] = draw(_then(nn))
    return case


# --------------------------------------------------------------------------------------------------
# maps


def base_map(kind: str, refine: int, radius: float):
    """unstructured planar quad maps (points (n,2), counter-clockwise quads)"""
    pts: List[List[float]] = []
    quads: List[List[int]] = []
    if kind.startswith("fan"):
        n = int(kind[3:])
        pts.append([0.0, 0.0])
        for i in range(n):  # corners 1..n
            a = 2 * math.pi * i / n
            pts.append([radius * math.cos(a), radius * math.sin(a)])
        for i in range(n):  # mid-points n+1..2n: between corner i and i+1
            p, q = pts[1 + i], pts[1 + (i + 1) % n]
            pts.append([(p[0] + q[0]) / 2, (p[1] + q[1]) / 2])
        for i in range(n):
            quads.append([0, 1 + n + (i - 1) % n, 1 + i, 1 + n + i])
    else:  # core square + 4 shell quads
        for r in (0.45 * radius, radius):
            for i in range(4):
                a = math.pi / 4 + math.pi / 2 * i
                pts.append([r * math.cos(a), r * math.sin(a)])
        quads.append([0, 1, 2, 3])
        for i in range(4):
            quads.append([i, 4 + i, 4 + (i + 1) % 4, (i + 1) % 4])
    for _ in range(refine):
        pts, quads = refine_map(pts, quads)
    return pts, quads


def refine_map(pts, quads):
    pts = [list(p) for p in pts]
    mids: Dict[frozenset, int] = {}

    def mid(a: int, b: int) -> int:
        key = frozenset((a, b))
        if key not in mids:
            pts.append([(pts[a][0] + pts[b][0]) / 2, (pts[a][1] + pts[b][1]) / 2])
            mids[key] = len(pts) - 1
        return mids[key]

    out = []
    for q in quads:
        e = [mid(q[k], q[(k + 1) % 4]) for k in range(4)]
        pts.append([sum(pts[i][0] for i in q) / 4, sum(pts[i][1] for i in q) / 4])
        c = len(pts) - 1
        out += [[q[0], e[0], c, e[3]], [e[0], q[1], e[1], c], [c, e[1], q[2], e[2]], [e[3], c, e[2], q[3]]]
    return pts, out


def local_spacing(pts: np.ndarray, topo: Topo) -> Dict[int, float]:
    return {p: min(float(np.linalg.norm(pts[p] - pts[q])) for q in topo.nbrs[p]) for p in topo.nbrs if topo.nbrs[p]}


def sketch_input(case):
    """-> (points (n,3), quads, lattice positions, fixed point ids), all in the numbering handed to the library"""
    if case["kind"] == "grid":
        nx, ny = case["nx"], case["ny"]
        xs = np.concatenate([[0.0], np.cumsum(case["wx"])])
        ys = np.concatenate([[0.0], np.cumsum(case["wy"])])
        pts = np.array([[xs[i] + case["shear"] * ys[j], ys[j]] for j in range(ny + 1) for i in range(nx + 1)])
        quads = [[i + (nx + 1) * j, i + 1 + (nx + 1) * j, i + 1 + (nx + 1) * (j + 1), i + (nx + 1) * (j + 1)]
                 for j in range(ny) for i in range(nx)]
    else:
        p, quads = base_map(case["kind"], case["refine"], case["radius"])
        pts = np.array(p)
    full = Topo(quads, len(pts))
    space = local_spacing(pts, full)
    # cyclic shift per quad, order of quads, the last `drop` quads are left out (re-entrant boundaries)
    quads = [[q[(k + s) % 4] for k in range(4)] for q, s in zip(quads, case["shifts"])]
    if case["qperm"]:
        quads = [quads[i] for i in case["qperm"]]
    quads = quads[: len(quads) - min(case.get("drop", 0), len(quads) - 1)]
    # library numbering: the used points, ordered by the drawn permutation
    key = case["pperm"] or list(range(len(pts)))
    order = sorted(set(itertools.chain.from_iterable(quads)), key=lambda i: key[i])
    lib = {base: k for k, base in enumerate(order)}
    quads = [[lib[i] for i in q] for q in quads]
    topo = Topo(quads, len(order))
    calls = resolve_calls(case, topo.interior, len(order))
    fixed = union(calls)
    lattice = np.column_stack([pts, np.zeros(len(pts))])
    pts = pts.copy()
    # in 'regular' cases the fixed points stay on the lattice
    keep = {p for p in full.interior if case.get("regular") and lib.get(p) in fixed}
    if case["amp"] and case["jit"]:
        jit = np.array(case["jit"]).reshape(-1, 2)
        for k, p in enumerate(full.interior):
            if p not in keep:
                pts[p] += case["amp"] * space[p] * jit[k]
    init = case.get("init", "jitter")
    if init == "collapsed":
        spot = lattice[:, :2].mean(axis=0)
        for p in full.interior:
            if p not in keep:
                pts[p] = spot
    elif init == "pair" and full.interior:
        p = full.interior[case["pair"][0] % len(full.interior)]
        nb = sorted(full.nbrs[p])
        pts[p] = pts[nb[case["pair"][1] % len(nb)]]
    p3 = np.column_stack([pts, np.zeros(len(pts))])
    if case["tilt"]:
        R = rodrigues(case["tilt"]["axis"], case["tilt"]["angle"])
        p3, lattice = p3 @ R.T, lattice @ R.T
    off = placement(case, float(min(space.values())))
    p3, lattice = p3 + off, lattice + off
    return np.array(p3[order]), quads, lattice[order], [calls, resolve_calls(case, topo.interior, len(order), stage=2)]


def mesh_input(case):
    """-> (node positions, cells as node ids in each block's numbering (insertion order), lattice positions, fixed)"""
    dims = case["dims"]
    axes = [np.concatenate([[0.0], np.cumsum(case["widths"][a])]) for a in range(3)]
    sxy, sxz, syz = case["shear"]
    S = np.array([[1.0, sxy, sxz], [0.0, 1.0, syz], [0.0, 0.0, 1.0]])

    def nid(i, j, k):
        return i + (dims[0] + 1) * (j + (dims[1] + 1) * k)

    nn = (dims[0] + 1) * (dims[1] + 1) * (dims[2] + 1)
    pos = np.zeros((nn, 3))
    inner = []
    for k in range(dims[2] + 1):
        for j in range(dims[1] + 1):
            for i in range(dims[0] + 1):
                pos[nid(i, j, k)] = S @ np.array([axes[0][i], axes[1][j], axes[2][k]])
                if 0 < i < dims[0] and 0 < j < dims[1] and 0 < k < dims[2]:
                    inner.append(nid(i, j, k))
    lattice = pos.copy()
    calls = resolve_calls(case, inner)
    fixed = union(calls)
    if case["amp"] and case["jit"]:
        jit = np.array(case["jit"]).reshape(-1, 3)
        wmin = min(min(w) for w in case["widths"])
        keep = set(fixed) if case.get("regular") else set()  # 'regular': fixed points stay on the lattice
        for m, p in enumerate(inner):
            if p not in keep:
                pos[p] += case["amp"] * wmin * 0.5 * jit[m]
    cells = []
    ncell = dims[0] * dims[1] * dims[2]
    order = case["order"] or list(range(ncell))
    for c in order[: ncell - case["drop"]]:
        i, j, k = c % dims[0], (c // dims[0]) % dims[1], c // (dims[0] * dims[1])
        nodes = [nid(i + dx, j + dy, k + dz) for dx, dy, dz in CANON]
        perm = ROT[case["rots"][c]]
        cells.append([nodes[perm[m]] for m in range(8)])
    off = placement(case, float(min(min(w) for w in case["widths"])))
    return pos + off, cells, lattice + off, [calls, resolve_calls(case, inner, stage=2)]


# --------------------------------------------------------------------------------------------------
# running the library


class Stalled(Exception):
    """the library spent more than the call budget in smooth(): inconclusive, never a verdict"""


def smooth(smoother, count: int, budget: int) -> None:
    try:
        fuel.run(lambda: smoother.smooth(count), budget)
    except fuel.OutOfFuel:
        raise Stalled() from None


def call_budget(topo: Topo, n: int) -> int:
    """library calls allowed for smooth(n): 4 x (sweeps x (valence + 3) per interior point + copy-back); the unchanged
    library uses at most 0.15 of this (measured over 200 cases per cell)"""
    per_sweep = sum(len(topo.nbrs[p]) + 3 for p in topo.interior)
    return 4 * (n * per_sweep + 60 * len(topo.cells) + 200)


CONTAINERS = ["list", "tuple", "set", "array", "range-or-list", "generator", "iterator", "map"]


def as_iterable(ids: List[int], container: str):
    """the indexes in one of the forms an Iterable[int] parameter accepts"""
    ids = [int(i) for i in ids]
    if container == "tuple":
        return tuple(ids)
    if container == "set":
        return set(ids)
    if container == "array":
        return np.array(ids, dtype=int)
    if container == "range-or-list":
        return range(ids[0], ids[-1] + 1) if ids and ids == list(range(ids[0], ids[-1] + 1)) else list(ids)
    if container == "generator":
        return (i for i in ids)
    if container == "iterator":
        return iter(ids)
    if container == "map":
        return map(int, ids)
    return list(ids)


def _fix(smoother, calls, positions_lib, to_lib=None):
    """replays a drawn sequence of fix_indexes / fix_points calls (positions as the user reads them at that moment)"""
    for mode, ids, container in calls:
        ids = list(ids) if to_lib is None else [to_lib[p] for p in ids if p in to_lib]
        by_position = [positions_lib[i].tolist() for i in ids]
        if mode in ("index", "both"):
            smoother.fix_indexes(as_iterable(ids, container))
        if mode in ("position", "both", "both-reversed"):
            smoother.fix_points(by_position)
        if mode == "both-reversed":
            smoother.fix_indexes(as_iterable(ids, container))
        if mode == "position-array":
            smoother.fix_points(np.array(by_position).reshape(-1, 3))


def run_sketch(case, points, quads, stages, n, facts, topo, n2=None):
    """fresh sketch; stage 1: fix, n sweeps; optional stage 2: fix at the current place, n2 sweeps.
    -> (final sketch.positions, sketch, smoother, positions between the stages)"""
    try:
        if case["kind"] in DISKS:
            sketch = make_disk(case)
        else:
            sketch = MappedSketch([p.tolist() for p in points], [list(q) for q in quads])
        smoother = SketchSmoother(sketch)
        _fix(smoother, stages[0], points)
        if n > 0:
            smooth(smoother, n, call_budget(topo, n))
        between = np.array(sketch.positions, dtype=float)
        if n2 is not None:
            _fix(smoother, stages[1], between)
            if n2 > 0:
                smooth(smoother, n2, call_budget(topo, n2))
        return np.array(sketch.positions, dtype=float), sketch, smoother, between
    except Stalled:
        raise
    except Exception as ex:
        raise Violation("smoothing-raises", f"{type(ex).__name__}: {ex}", **facts) from None


def run_mesh(case, pos, cells, stages, n, facts, topo, history=None, n2=None):
    """fresh mesh; stage 1: fix, n sweeps spread over the calls of `history` on one smoother; optional stage 2: fix at
    the current place, n2 sweeps -> (positions per node id as found in mesh.vertices after the last call, mesh,
    smoother, node -> vertex index, positions between the stages)"""
    try:
        mesh = cb.Mesh()
        ops = [cb.Loft(cb.Face(pos[c[:4]]), cb.Face(pos[c[4:]])) for c in cells]
        for spec in case.get("project", []):
            pool = topo.interior or sorted(set(itertools.chain.from_iterable(cells)))
            node = pool[spec["node"] % len(pool)]
            k = next(i for i, c in enumerate(cells) if node in c)
            corner = cells[k].index(node)
            if spec["how"] == "corner":
                ops[k].project_corner(corner, "surface")
            else:
                ops[k].project_side("bottom" if corner < 4 else "top", "surface", points=True)
        for op in ops:
            mesh.add(op)
        mesh.assemble()
        vpos = np.array([v.position for v in mesh.vertices])
    except Exception as ex:
        raise Violation("smoothing-raises", f"building the mesh: {type(ex).__name__}: {ex}", **facts) from None
    used = sorted(set(itertools.chain.from_iterable(cells)))
    node_to_vertex = {}
    for p in used:
        d = np.linalg.norm(vpos - pos[p], axis=1)
        v = int(np.argmin(d))
        if d[v] > 1e-9:
            return None  # vertex bookkeeping is C05's subject, not judged here
        node_to_vertex[p] = v
    if len(set(node_to_vertex.values())) != len(used) or len(vpos) != len(used):
        return None

    def in_nodes(vertex_positions):
        out = pos.copy()
        for p, v in node_to_vertex.items():
            out[p] = vertex_positions[v]
        return out

    try:
        smoother = MeshSmoother(mesh)
        _fix(smoother, stages[0], vpos, node_to_vertex)
        parts = split_iterations(n, history)
        for i, count in enumerate(parts):
            if count > 0 or len(parts) > 1:
                smooth(smoother, count, call_budget(topo, count))
            if i < len(parts) - 1 and history["ops"][i] == "backport":
                mesh.backport()  # pushes the vertices to the operations and re-assembles the mesh
        between = np.array([v.position for v in mesh.vertices], dtype=float)
        if n2 is not None and len(between) == len(vpos):
            _fix(smoother, stages[1], between, node_to_vertex)
            if n2 > 0:
                smooth(smoother, n2, call_budget(topo, n2))
        after = np.array([v.position for v in mesh.vertices], dtype=float)
    except Stalled:
        raise
    except Exception as ex:
        raise Violation("smoothing-raises", f"{type(ex).__name__}: {ex}", **facts) from None
    if len(after) != len(vpos) or len(between) != len(vpos):
        raise Violation("vertex-count-changed", f"{len(vpos)} vertices before, {len(after)} after the history", **facts)
    return in_nodes(after), mesh, smoother, node_to_vertex, in_nodes(between)


# --------------------------------------------------------------------------------------------------
# oracles (all in the harness's point numbering)


def check_static(initial, after, topo: Topo, fixed: Set[int], facts):
    for p in sorted(topo.boundary | fixed):
        if not np.array_equal(initial[p], after[p]):
            what = "fixed" if p in fixed and p not in topo.boundary else "boundary"
            raise Violation(f"{what}-point-moved", f"{what} point {p}: {initial[p].tolist()} -> {after[p].tolist()}",
                            point=p, role=what, fixed_in_boundary=p in topo.boundary and p in fixed, **facts)


def check_sweep(before, after, topo: Topo, free: List[int], extent: float, facts):
    """state(n) of every free point = mean of its neighbours, each taken from state(n-1) or state(n)"""
    tol = 1e-11 * extent
    free_set = set(free)
    for p in free:
        nb = sorted(topo.nbrs[p])
        moving = [q for q in nb if q in free_set]
        static_sum = sum((after[q] for q in nb if q not in free_set), np.zeros(3))
        best = math.inf
        for pick in itertools.product((0, 1), repeat=len(moving)):
            s = static_sum.copy()
            for q, late in zip(moving, pick):
                s = s + (after[q] if late else before[q])
            best = min(best, float(np.linalg.norm(after[p] - s / len(nb))))
            if best <= tol:
                break
        if best > tol:
            moved = float(np.linalg.norm(after[p] - before[p]))
            raise Violation("not-neighbour-average",
                            f"free interior point {p} (valence {len(nb)}) is {best:.3g} away from every mean of its "
                            f"edge-neighbours (moved {moved:.3g} in this sweep)",
                            point=p, valence=len(nb), off=best, moved=moved, **facts)


def check_fixpoint(initial, after, topo: Topo, free: List[int], size: float, facts):
    tol = 1e-9 * size
    for p in free:
        nb = sorted(topo.nbrs[p])
        r = float(np.linalg.norm(after[p] - np.mean([after[q] for q in nb], axis=0)))
        if r > tol:
            raise Violation("fixpoint-residual", f"free point {p}: residual {r:.3g} after {facts['n']} iterations",
                            point=p, residual=r, **facts)
    want = harmonic_solution(initial, free, topo)
    d = float(np.max(np.linalg.norm(after - want, axis=1))) if len(after) else 0.0
    if d > tol:
        raise Violation("not-harmonic-solution", f"positions differ from the direct solve by {d:.3g}", off=d, **facts)


def check_regular(after, lattice, used, size, facts):
    d = float(max(np.linalg.norm(after[p] - lattice[p]) for p in used))
    if d > 1e-9 * size:
        raise Violation("not-regular-lattice", f"regular boundary, but a point is {d:.3g} off the lattice", off=d, **facts)


def needed_iterations(free, topo) -> int:
    rho = jacobi_radius(free, topo)
    if rho <= 0.0:
        return 1
    if rho >= 1.0:
        return 10**9
    return max(1, math.ceil(math.log(1e-13) / math.log(rho)))


LIB_TOL = 1e-7  # classy_blocks.util.constants.TOL: fix_points pins every grid point closer than this


def effective_fixed(calls, positions: np.ndarray, topo: Topo):
    """points the user fixed: the listed ones, and for calls by position every point at (within TOL of) that place.
    None when a point sits so close to TOL from a given place that rounding decides"""
    out: Set[int] = set()
    for mode, ids, _ in calls:
        ids = [p for p in ids if topo.nbrs.get(p)]
        out |= set(ids)
        if mode == "index":
            continue
        for i in ids:
            d = np.linalg.norm(positions - positions[i], axis=1)
            if np.any((d > 0.9 * LIB_TOL) & (d < 1.1 * LIB_TOL)):
                return None
            out |= {int(p) for p in np.nonzero(d < LIB_TOL)[0] if topo.nbrs.get(int(p))}
    return out


def common(case, topo: Topo, stages, initial, between, after, before, size, extent, lattice, ctx: Ctx, facts):
    """stages = [fixing calls before the first smoothing, fixing calls of the optional second stage];
    between = positions when the second stage's points were fixed; before/after = around the last sweep"""
    staged = bool(case.get("then"))
    fixed1 = effective_fixed(stages[0], initial, topo)
    fixed2 = effective_fixed(stages[1], between, topo) if staged else set()
    if fixed1 is None or fixed2 is None:
        ctx.label("point-at-TOL-from-a-fixed-place(not judged)")
        return
    fixed = fixed1 | fixed2
    facts["calls"] = "+".join(call[0] for call in stages[0]) + ("|" + stages[1][0][0] if staged else "")
    free = [p for p in topo.interior if p not in fixed]
    # where every static point has to be: boundary and first-stage points where they started, second-stage points
    # where they were when the user fixed them
    held = initial.copy()
    for p in fixed2 - fixed1 - topo.boundary:
        held[p] = between[p]
    if staged:
        check_static(initial, between, topo, fixed1, {**facts, "stage": 1})
    check_static(held, after, topo, fixed, facts)
    check_sweep(before, after, topo, free, extent, facts)
    n = case["then"]["n"] if staged else case["n"]
    need = needed_iterations(free, topo)
    # far from the origin the rounding of a coordinate (not the cell size) limits what a fix point can reach
    size = size + 1e-3 * extent
    if n >= need:
        check_fixpoint(held, after, topo, free, size, facts)
        ctx.label("fixpoint-asserted")
        if case.get("regular"):
            # the lattice is the solution only if every point that is held sits on the lattice (a point fixed by
            # position also holds the placeholders that start at the same spot)
            if all(np.linalg.norm(initial[p] - lattice[p]) <= 1e-12 * extent for p in fixed - topo.boundary):
                used = sorted(p for p in topo.nbrs if topo.nbrs[p])
                check_regular(after, lattice, used, size, facts)
                ctx.label("regular-lattice-asserted")
            else:
                ctx.label("held-point-off-the-lattice(lattice not asserted)")
    else:
        ctx.label("fixpoint-not-asserted(few iterations)")
    static = topo.boundary | fixed
    ctx.nt(any(topo.nbrs[p] & static for p in free))
    ctx.label(f"free={min(len(free), 9) if len(free) < 9 else '9+'}")
    ctx.label("n=1" if n == 1 else "n=2..20" if n <= 20 else "n>20")
    regular_valence = 6 if len(topo.cells[0]) == 8 else 4
    if any(len(topo.nbrs[p]) != regular_valence for p in free):
        ctx.label("irregular-valence")
    if fixed - topo.boundary:
        ctx.label("fixed-interior:" + case["mode"])
    for mode, ids, container in [*stages[0], *(stages[1] if staged else [])]:
        if mode != "position" and mode != "position-array" and set(ids) - topo.boundary:
            ctx.label("interior-fixed-by-index-given-as:" + container)
    inner_sets = [set(call[1]) - topo.boundary for call in stages[0]]
    ctx.label(f"fixing-calls={len(stages[0])}")
    if any(inner_sets[i] - inner_sets[j] for j in range(len(inner_sets)) for i in range(j)):
        ctx.label("later-call-omits-earlier-interior-point")
    if staged:
        ctx.label("second-stage")
        newly = fixed2 - fixed1 - topo.boundary
        if newly and case["n"] > 0 and any(not np.array_equal(initial[p], between[p]) for p in newly):
            ctx.label("second-stage-fixes-a-moved-interior-point:" + stages[1][0][0])
    ctx.label("start=" + case.get("init", "jitter"))
    moved = [p for p in free if not np.array_equal(initial[p], after[p])]
    ctx.label("some-point-moved" if moved else "nothing-moved")
    ratio = (case.get("place") or {}).get("ratio", 0.0)
    ctx.label(f"placed-at={ratio:g}-cell-sizes")
    ctx.info = {"need": need, "free": len(free)}


DISKS = ["OneCoreDisk", "FourCoreDisk", "HalfDisk", "QuarterDisk", "WrappedDisk", "Oval"]


def make_disk(case):
    """the library's own unstructured sketches, as a user creates them"""
    from classy_blocks.construct.flat.sketches import disk

    c = np.array(case["center"]) + placement(case, 0.5 * case["radius"])
    R = np.eye(3) if case["tilt"] is None else rodrigues(case["tilt"]["axis"], case["tilt"]["angle"])
    e1, e2, normal = R[:, 0], R[:, 1], R[:, 2]
    r = case["radius"]
    kind = case["kind"]
    if kind == "WrappedDisk":
        return disk.WrappedDisk(c, c + 2 * r * (e1 + e2), r, normal)
    if kind == "Oval":
        return disk.Oval(c, c + 2.5 * r * e1, normal, r)
    return getattr(disk, kind)(c, c + r * e1, normal)


@st.composite
def disk_case(draw):
    case = {
        "kind": draw(st.sampled_from(DISKS)), "radius": 10.0 ** draw(st.floats(-1.0, 1.0)),
        "center": [draw(st.floats(-10.0, 10.0)) for _ in range(3)], "tilt": draw(_tilt()), "n": draw(_iters),
        "place": draw(_place()), "then": draw(_then(22)),
    }
    case.update(draw(_fixing(22)))
    return case


def disk_input(case):
    sketch = make_disk(case)
    points = np.array(sketch.positions, dtype=float)
    quads = [[int(i) for i in q] for q in sketch.indexes]
    topo = Topo(quads, len(points))
    return points, quads, points.copy(), [resolve_calls(case, topo.interior, len(points)),
                                           resolve_calls(case, topo.interior, len(points), stage=2)]


def check_sketch(case, ctx: Ctx) -> None:
    if case["kind"] in DISKS:
        try:
            points, quads, lattice, fixed = disk_input(case)
        except Exception as ex:
            raise Violation("smoothing-raises", f"creating the sketch: {type(ex).__name__}: {ex}", map=case["kind"]) from None
    else:
        points, quads, lattice, fixed = sketch_input(case)
    topo = Topo(quads, len(points))
    n = case["n"]
    facts = {"map": case["kind"], "n": n, "mode": case["mode"], "quads": len(quads)}
    n2 = case["then"]["n"] if case.get("then") else None
    try:
        after, sketch, smoother, between = run_sketch(case, points, quads, fixed, n, facts, topo, n2)
        if n2 is None:
            before = points if n == 1 else run_sketch(case, points, quads, fixed, n - 1, facts, topo)[0]
        else:
            before = between if n2 == 1 else run_sketch(case, points, quads, fixed, n, facts, topo, n2 - 1)[0]
    except Stalled:
        ctx.label("out-of-fuel(inconclusive)")
        return
    if after.shape != points.shape:
        raise Violation("positions-shape", f"sketch.positions has shape {after.shape}", **facts)
    # copy-back: every face holds, at each of its corners, the coordinates of that point
    grid_points = np.array(smoother.grid.points, dtype=float)
    for f, quad in enumerate(quads):
        fp = np.array(sketch.faces[f].point_array, dtype=float)
        for k, p in enumerate(quad):
            if not np.array_equal(fp[k], after[p]) or not np.array_equal(fp[k], grid_points[p]):
                raise Violation("faces-disagree",
                                f"face {f} corner {k} (point {p}) holds {fp[k].tolist()}, sketch.positions {after[p].tolist()}, "
                                f"smoother {grid_points[p].tolist()}", face=f, corner=k, point=p, **facts)
    size = float(np.mean([np.linalg.norm(points[q[1]] - points[q[0]]) for q in quads]))
    extent = float(np.abs(points).max()) + size
    common(case, topo, fixed, points, between, after, before, size, extent, lattice, ctx, facts)
    ctx.label("tilted" if case["tilt"] else "xy-plane", f"dropped={case.get('drop', 0)}")
    if case["kind"] in DISKS:
        ctx.label(case["kind"])


def check_mesh(case, ctx: Ctx) -> None:
    pos, cells, lattice, fixed = mesh_input(case)
    topo = Topo(cells, len(pos))
    n = case["n"]
    facts = {"map": "mesh", "n": n, "mode": case["mode"], "blocks": len(cells), "dims": case["dims"]}
    history = case.get("history")
    facts["calls_to_smooth"] = split_iterations(n, history)
    facts["between"] = history["ops"] if history else []
    n2 = case["then"]["n"] if case.get("then") else None
    try:
        result = run_mesh(case, pos, cells, fixed, n, facts, topo, history, n2)
        if result is None:
            earlier = None
        elif n2 is None:
            earlier = (pos,) if n == 1 else run_mesh(case, pos, cells, fixed, n - 1, facts, topo)
        else:
            earlier = (result[4],) if n2 == 1 else run_mesh(case, pos, cells, fixed, n, facts, topo, history, n2 - 1)
    except Stalled:
        ctx.label("out-of-fuel(inconclusive)")
        return
    if result is None or earlier is None:
        ctx.label("mesh-vertices-not-one-per-node(not judged)")
        return
    after, mesh, smoother, node_to_vertex, between = result
    before = earlier[0]
    # copy-back: mesh vertices = smoother's points; every block corner refers to the moved vertex
    grid_points = np.array(smoother.grid.points, dtype=float)
    for p, v in node_to_vertex.items():
        if not np.array_equal(grid_points[v], after[p]):
            raise Violation("vertex-not-updated", f"vertex {v}: mesh {after[p].tolist()} smoother {grid_points[v].tolist()}",
                            vertex=v, **facts)
    for b, (block, cell) in enumerate(zip(mesh.blocks, cells)):
        for k, p in enumerate(cell):
            if not np.array_equal(np.array(block.vertices[k].position, dtype=float), after[p]):
                raise Violation("block-corner-stale", f"block {b} corner {k} is not at the smoothed position of its point",
                                block=b, corner=k, **facts)
    size = float(min(min(w) for w in case["widths"]))
    extent = float(np.abs(pos).max()) + size
    common(case, topo, fixed, pos, between, after, before, size, extent, lattice, ctx, facts)
    ctx.label(f"dims={'x'.join(map(str, case['dims']))}", f"dropped={case['drop']}")
    ctx.label(f"smooth-calls={len(facts['calls_to_smooth'])}")
    if case.get("project") and topo.interior:
        ctx.label("interior-vertex-projected-to-a-surface")
    if "backport" in facts["between"]:
        ctx.label("mesh.backport-between-calls")


# --------------------------------------------------------------------------------------------------

_FIXTURE_3X3 = {  # the repo's own smoother fixture: one displaced interior point of a 2 x 2 map
    "kind": "grid", "nx": 2, "ny": 2, "wx": [1.0, 1.0], "wy": [1.0, 1.0], "shear": 0.0, "amp": 0.6, "jit": [0.33, 1.0],
    "shifts": [0, 0, 0, 0], "qperm": None, "pperm": None, "tilt": None, "fixed": [], "fixed_inner": [], "mode": "index",
    "n": 5, "drop": 0,
}

CELLS = [
    Cell("C15/sketch/grid", grid_case(), check_sketch, 400, 12000,
         "structured nx x ny quad map (2..5), interior jitter; boundary/fixed bit-identical, one-sweep relation between "
         "n-1 and n iterations, fix point when n is large enough, faces consistent", fixed_cases=[_FIXTURE_3X3]),
    Cell("C15/sketch/unstructured", unstructured_case(), check_sketch, 400, 12000,
         "3-/5-/6-fans and core+shell disk maps, optionally refined 1:4 (3-, 5-, 6-valent interior points); same oracles"),
    Cell("C15/sketch/disks", disk_case(), check_sketch, 160, 5000,
         "the library's OneCoreDisk, FourCoreDisk, HalfDisk, QuarterDisk, WrappedDisk, Oval at a drawn place, size and "
         "orientation (3-valent interior points, curved outer edges); same oracles, topology from sketch.indexes"),
    Cell("C15/mesh/lattice", mesh_case(), check_mesh, 200, 6000,
         "hexahedral assemblies up to 3x3x3 with dropped cells, 24 numberings, any insertion order; same oracles on mesh "
         "vertices"),
    Cell("C15/sketch/regular", grid_case(regular=True), check_sketch, 100, 3000,
         "regular (affine) boundary, strongly jittered interior, up to 2 fixed points that sit on the lattice; "
         "200 iterations give the regular lattice"),
    Cell("C15/mesh/regular", mesh_case(regular=True), check_mesh, 40, 1500,
         "2x2x2 and 3x3x3 blocks with a regular boundary: 200 iterations give the regular lattice"),
]
