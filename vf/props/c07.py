"""C07 — curved-edge entries are unique, on real block edges and correctly directed (DESIGN.md section 4, C07)."""

from __future__ import annotations

import math
import warnings
from typing import Any, Dict, List, Optional, Tuple

import numpy as np
from hypothesis import strategies as st

from vf import lattice as lt
from vf import x_edges as xe
from vf.core import Cell, Ctx, Violation
from vf.foamdict import FoamParseError
from vf.refmodel import HEX_EDGES, HEX_SIDES, rodrigues
from classy_blocks.construct.edges import Line

warnings.simplefilter("ignore")

import classy_blocks as cb  # noqa: E402

RULE = (
    "One or two hexahedra cut from a jittered, rigidly rotated node lattice. A user edge is a curve specification "
    "relative to its two end points (vf.x_edges: circle frame, relative control points, analytic curves), declared either "
    "on a Face before that face is manipulated (history of invert / shift / reorient steps; the harness reads the final "
    "corner order back from the face and builds the block around it, so every one of the 12 positions occurs), on the "
    "opposite face, or as a side edge. The written file is read by the independent parser; ground truth is geometric "
    "(positions of the two end points, the curve in the user's sense). Non-trivial: a direction-dependent edge (spline, "
    "polyLine, angle, curve) or an edge on a closing position (3-0, 7-4) is present and written; distinct = distinct "
    "generated case. Small-model cell: the same models multiplied by 1e-2 ... 1e-4. Projection cell: 2-6 "
    "project_side / project_edge calls in drawn order on one or two plain operations, expected labels per edge from the "
    "call list alone; non-trivial: >= 2 calls and >= 1 projected edge. Shared-array cell: one float64 array of "
    "spline/polyLine points given to the edges of several holders that are translated in place by different offsets."
)
ASSUMPTIONS = [
    "Face.point_array after the manipulations is trusted for the corner order (face re-indexing is C10's subject); "
    "where the user's edge ends is decided by positions, not by that order",
    "the length of a spline/polyLine edge is the polygon through vertex, points, vertex (the library's documented "
    "convention); the length of a projected edge and of an edge on an interpolated curve is not asserted",
    "3-point arcs keep their point within pi of both ends (ledger F10, whose effect depends on the traversal sense, is decided in C08); circle curves cover less than "
    "a full turn (closest-parameter search near the 0 = 2 pi seam is C16's subject)",
    "written coordinates carry 8 decimals: positions are compared with 1e-7 absolute + 1e-9 relative to the radius",
    "blocks with a zero-length edge cannot be graded by the library (count chop on zero length raises), so for them "
    "the edges section is taken from Mesh.assemble() (vertex_list/edge_list descriptions) inside a scaffold file",
    "when two operations give different curves (or different projection labels) for one geometric edge the statement "
    "does not say which wins: the entry must equal one of them (labelled conflict)",
    "small models: every vertex distance stays >= 1.2e-5 (100 x the library's merge tolerance 1e-7); arc kinds are left "
    "out there because the library's absolute collinearity tolerance drops small arcs (known finding C08-N2)",
    "predefined shapes: the sketch is read as the user's description - someone who asks for a Cylinder describes smooth "
    "core curves - so the clause on the point order of spline/polyLine entries applies to them; what the smooth curve "
    "is, is not modelled: the polygon first vertex - points - second vertex has to be shorter (by > 1e-6 size) than "
    "with the points reversed, and the first point nearer to the first vertex than the last point is (not: nearer "
    "to the first vertex than to the second - ovals with long straight sides list points on the bend only)",
    "write histories (write twice / assemble+backport / assemble+clear / write+clear, then the judged write) are drawn in "
    "every model cell; the slid-vertices cell keeps new vertex positions inside the original edge (first 35 % / last "
    "35 % of the curve between the old vertices)",
    "shared-array cell: the expected curve of a holder is the user's points plus that holder's own displacement "
    "(in-place translate() of the operation / face), then optionally mapped by an in-place rotate() of the holder about "
    "a point within one diagonal of it, axis given with any length (vf.refmodel normalises it); holders are 10 block "
    "diagonals apart so no vertices coincide",
    "projection sequences: labels(edge) = surfaces of all sides projected with edges=True that contain the edge + "
    "surfaces given to project_edge for that edge; the four edges of a side come from the blockMesh sketch (R-HEX)",
]

POS_CORNERS = [(0, 1), (1, 2), (2, 3), (3, 0), (4, 5), (5, 6), (6, 7), (7, 4), (0, 4), (1, 5), (2, 6), (3, 7)]
SIDES = ["bottom", "top", "left", "right", "front", "back"]
CANON = np.array(lt.CANON, dtype=float)


# --------------------------------------------------------------------------------------------------
# building


def positions(case) -> np.ndarray:
    pos = lt.node_positions(case)
    rot = case.get("rot")
    if rot:
        pos = pos @ rodrigues(rot[:3], rot[3]).T
    pos = pos * case.get("model_scale", 1.0)
    col = case.get("collapse")
    if col:
        pos = pos.copy()
        pos[col[1]] = pos[col[0]]
    return pos


class Decl:
    """one declaration of a user edge: by operation `op` at final position `p`, declared from node x to node y"""

    def __init__(self, op: int, p: int, x: int, y: int, truth: xe.Truth, where: str):
        self.op, self.p, self.x, self.y, self.truth, self.where = op, p, x, y, truth, where


class Built:
    def __init__(self) -> None:
        self.mesh = None
        self.ops: List[Any] = []
        self.nodes: List[List[int]] = []  # per op: lattice node of each of the 8 corners
        self.decls: List[Dict[int, Decl]] = []  # per op: position -> declaration
        self.pos: np.ndarray = None
        self.flipped: List[bool] = []  # per op: net effect of the face history is an inversion
        self.face_role: List[str] = []


def _opposite(q: int, axis: int) -> int:
    c = list(lt.CANON[q])
    c[axis] = 1 - c[axis]
    return lt.CANON.index(tuple(c))


def _position_of(nodes: List[int], a: int, b: int) -> Tuple[int, bool]:
    for p, (c1, c2) in enumerate(POS_CORNERS):
        if (nodes[c1], nodes[c2]) == (a, b):
            return p, True
        if (nodes[c1], nodes[c2]) == (b, a):
            return p, False
    raise AssertionError("not an edge of this operation")


def _declare(op, p: int, data) -> None:
    if p < 4:
        op.bottom_face.add_edge(p, data)
    elif p < 8:
        op.top_face.add_edge(p - 4, data)
    else:
        op.add_side_edge(p - 8, data if data is not None else Line())


def build(case) -> Built:
    dims = case["dims"]
    pos = positions(case)
    pos0 = positions({k: v for k, v in case.items() if k != "collapse"})
    b = Built()
    b.pos = pos
    b.mesh = cb.Mesh()
    for oi, o in enumerate(case["ops"]):
        cn = lt.cell_nodes(dims, o["cell"])
        cyc = list(HEX_SIDES[o["side"]])
        old = cyc[o["start"]:] + cyc[: o["start"]]
        if o["dir"] < 0:
            old = old[::-1]
        pre_truth: List[Optional[Tuple[int, int, xe.Truth]]] = []
        pre_data = []
        for m in range(4):
            sp = o["pre"][m]
            if sp is None:
                pre_truth.append(None)
                pre_data.append(None)
                continue
            x, y = cn[old[m]], cn[old[(m + 1) % 4]]
            t = xe.Truth(sp, pos[x], pos[y])
            pre_truth.append((x, y, t))
            pre_data.append(t.edge_data())
        face = cb.Face([pos[cn[q]] for q in old], pre_data)
        # with a collapsed edge two corners coincide and the order cannot be read back by position: a second face
        # without the collapse goes through the same (position-independent) steps
        shadow = cb.Face([pos0[cn[q]] for q in old]) if case.get("collapse") else None
        for step in o["history"]:
            for fc in (face, shadow):
                if fc is None:
                    continue
                if step[0] == "invert":
                    fc.invert()
                elif step[0] == "shift":
                    fc.shift(step[1])
                else:
                    q = old[step[1] % 4]
                    fc.reorient(0.9 * pos[cn[q]] + 0.1 * np.mean([pos[cn[r]] for r in old], axis=0))
        # read the corner order back (exact copies of the lattice positions)
        final = []
        ref = pos if shadow is None else pos0
        for p in (face if shadow is None else shadow).point_array:
            d = [float(np.linalg.norm(p - ref[cn[q]])) for q in old]
            if min(d) > 1e-9:
                raise Violation("face-points-lost", "a manipulated face no longer has its four points", history=o["history"])
            final.append(old[int(np.argmin(d))])
        if sorted(final) != sorted(old):
            raise Violation("face-points-lost", "a manipulated face no longer has its four points", history=o["history"])
        axis = [a for a in range(3) if len({lt.CANON[q][a] for q in old}) == 1][0]
        fp = CANON[final]
        normal = np.cross(fp[1] - fp[0], fp[3] - fp[0])
        inward = float(normal @ (np.array([0.5, 0.5, 0.5]) - fp[0])) > 0
        other_q = [_opposite(q, axis) for q in final]
        other = cb.Face([pos[cn[q]] for q in other_q])
        if inward:
            op = cb.Loft(face, other)
            corners = final + other_q
        else:
            op = cb.Loft(other, face)
            corners = other_q + final
        nodes = [cn[q] for q in corners]
        decls: Dict[int, Decl] = {}
        for m, pt in enumerate(pre_truth):
            if pt is not None:
                p, _ = _position_of(nodes, pt[0], pt[1])
                decls[p] = Decl(oi, p, pt[0], pt[1], pt[2], "pre")
        base_other = 4 if inward else 0
        for d in o.get("post", []):
            w = d["where"]
            if w[0] == "opp":
                p = base_other + w[1]
            elif w[0] == "side":
                p = 8 + w[1]
            else:  # ["pair", q1, q2]: canonical corners of the lattice cell, natural sense of wherever it ended up
                p, _ = _position_of(nodes, cn[w[1]], cn[w[2]])
            c1, c2 = POS_CORNERS[p]
            x, y = nodes[c1], nodes[c2]
            if "same_as" in d:
                src = next(iter(b.decls[d["same_as"]].values()))
                rev = not (src.x == x and src.y == y)
                t = src.truth
                _declare(op, p, t.edge_data(reverse=rev))
                decls[p] = Decl(oi, p, src.x, src.y, t, "same")
            else:
                t = xe.Truth(d["spec"], pos[x], pos[y])
                _declare(op, p, t.edge_data())
                decls[p] = Decl(oi, p, x, y, t, w[0])
        b.ops.append(op)
        b.nodes.append(nodes)
        b.decls.append(decls)
        b.flipped.append(sum(1 for s in o["history"] if s[0] == "invert") % 2 == 1)
        b.face_role.append("bottom" if inward else "top")
    for oi in case.get("order") or range(len(b.ops)):
        op = b.ops[oi]
        if not case.get("collapse"):
            for ax in range(3):
                op.chop(ax, count=2)
        b.mesh.add(op)
    b.mesh.add_geometry({"geo": ["type sphere", "origin (0 0 0)", "radius 1"]})
    b.mesh.add_geometry({"geo2": ["type sphere", "origin (0 0 0)", "radius 2"]})
    return b


HEADER = "FoamFile\n{\n version 2.0;\n format ascii;\n class dictionary;\n object blockMeshDict;\n}\n"


def written_text(case, b: Built, facts) -> str:
    if case.get("collapse"):
        # a block with a zero-length edge cannot be graded (see ASSUMPTIONS): edges section as assembled
        try:
            b.mesh.assemble()
            blocks = "blocks\n(\n" + "".join(
                "hex (%s) (1 1 1) simpleGrading (1 1 1)\n" % " ".join(str(v.index) for v in blk.vertices)
                for blk in b.mesh.blocks) + ");\n"
            return HEADER + b.mesh.vertex_list.description + blocks + b.mesh.edge_list.description
        except Exception as ex:
            raise Violation("assemble-failed", f"{type(ex).__name__}: {ex}", **facts) from None
    try:
        # history before the judged write: the same Mesh is assembled / written more than once
        hist = case.get("write_history", "once")
        if hist == "backport":
            b.mesh.assemble()
            b.mesh.backport()
        elif hist == "clear":
            b.mesh.assemble()
            b.mesh.clear()
        elif hist == "write-clear":
            lt.write_text(b.mesh)
            b.mesh.clear()
        elif hist == "twice":
            lt.write_text(b.mesh)
        text, _ = lt.write_text(b.mesh)
    except Exception as ex:
        raise Violation("write-failed", f"a well-posed model was not written: {type(ex).__name__}: {ex}", **facts) from None
    return text


WRITE_HISTORIES = ["once", "once", "twice", "backport", "clear", "write-clear"]


def slide_vertices(case, b: Built, facts) -> None:
    """the two mesh vertices of operation 0's (only) curve edge are moved along the user's curve with move_to"""
    d = next(iter(b.decls[0].values()))
    old = d.truth
    span = old.span()
    new = old.slid(case["slide"][0] * span, case["slide"][1] * span)
    try:
        for target, where in ((old.X, new.X), (old.Y, new.Y)):
            hit = [v for v in b.mesh.vertices if np.linalg.norm(np.asarray(v.position) - target) < 1e-9]
            if len(hit) != 1:
                raise Violation("vertex-off-lattice", "no single mesh vertex at the end of the curve edge", **facts)
            hit[0].move_to(where)
    except Violation:
        raise
    except Exception as ex:
        raise Violation("move-failed", f"{type(ex).__name__}: {ex}", **facts) from None
    b.pos = b.pos.copy()
    b.pos[d.x], b.pos[d.y] = new.X, new.Y
    for decls in b.decls:
        for dd in decls.values():
            if dd.truth is old:
                dd.truth = new


# --------------------------------------------------------------------------------------------------
# oracle


def case_facts(case, b: Optional[Built] = None) -> Dict[str, Any]:
    f: Dict[str, Any] = {"ops": len(case["ops"]), "order": case.get("order"), "mode": (case.get("share") or {}).get("mode")}
    if b is not None:
        f["flipped"] = b.flipped
    return f


def check_model(case, ctx: Ctx) -> None:
    b = build(case)
    facts = case_facts(case, b)
    text = written_text(case, b, facts)
    if case.get("slide"):
        judge(case, b, text, facts, None)
        slide_vertices(case, b, facts)
        facts = dict(facts, after_slide=True)
        try:
            text, _ = lt.write_text(b.mesh)  # the assembled mesh is written again, no re-assembly
        except Exception as ex:
            raise Violation("write-failed", f"second write after moving vertices: {type(ex).__name__}: {ex}", **facts) from None
    judge(case, b, text, facts, ctx)


def judge(case, b: Built, text: str, facts, ctx: Optional[Ctx]) -> None:
    try:
        bmd = lt.parse(text)
    except FoamParseError as ex:
        raise Violation("unparsable", f"written file does not parse: {ex}", **facts) from None
    pos = b.pos
    vpos = [np.array(v.pos) for v in bmd.vertices]
    used = sorted({n for nodes in b.nodes for n in nodes})

    def node_of(p) -> int:
        d = [float(np.linalg.norm(np.asarray(p) - pos[n])) for n in used]
        k = int(np.argmin(d))
        if d[k] > 1e-6:  # nodes are >= 1e-5 apart at every model scale; the file carries 8 decimals
            raise Violation("vertex-off-lattice", "a vertex is not at a corner of any operation", **facts)
        return rep[used[k]]

    # nodes that coincide (collapsed edge) are one point
    rep = {n: n for n in used}
    for i, n in enumerate(used):
        for m in used[:i]:
            if np.linalg.norm(pos[n] - pos[m]) < 1e-9:
                rep[n] = rep[m]
                break
    vnode = [node_of(p) for p in vpos]

    order = list(case.get("order") or range(len(case["ops"])))
    rank = {oi: r for r, oi in enumerate(order)}  # insertion rank of each operation

    # ground truth per geometric edge
    truth: Dict[frozenset, List[Decl]] = {}
    for oi in order:
        for p in sorted(b.decls[oi]):
            d = b.decls[oi][p]
            truth.setdefault(frozenset((rep[d.x], rep[d.y])), []).append(d)

    hex_pairs = set()
    for h in bmd.blocks:
        for i, j in HEX_EDGES:
            hex_pairs.add(frozenset((vnode[h.ids[i]], vnode[h.ids[j]])))

    entries: Dict[frozenset, List[Any]] = {}
    for e in bmd.edges:
        for vid in (e.a, e.b):
            if not 0 <= vid < len(vpos):
                raise Violation("entry-bad-vertex", f"edge entry refers to vertex {vid}", **facts)
        key = frozenset((vnode[e.a], vnode[e.b]))
        if key not in hex_pairs:
            raise Violation("entry-not-a-block-edge", f"entry {e.kind} {e.a} {e.b} joins no edge of any hex", **facts)
        entries.setdefault(key, []).append(e)

    matched: Dict[frozenset, Decl] = {}
    for key in sorted(truth, key=sorted):
        decls = truth[key]
        valid = [d for d in decls if not d.truth.degenerate]
        f2 = dict(facts, kinds=[d.truth.kind for d in decls], positions=[d.p for d in decls],
                  where=[d.where for d in decls], flipped_decl=[b.flipped[d.op] and d.where == "pre" for d in decls])
        got = entries.get(key, [])
        if not valid:
            if got:
                raise Violation("degenerate-written", f"{[d.truth.kind for d in decls]} edge written as {got[0].kind} "
                                f"{got[0].a} {got[0].b}", **f2)
            continue
        if len(got) == 0:
            raise Violation("entry-missing", f"user edge {valid[0].truth.kind} at position {valid[0].p} is not written", **f2)
        if len(got) > 1:
            raise Violation("entry-duplicated", f"{len(got)} entries for one geometric edge", **f2)
        e = got[0]
        first_err = None
        for d in valid:
            try:
                xe.check_entry(e, vpos[e.a], vpos[e.b], d.truth, dict(f2, edge_kind=d.truth.kind, position=d.p,
                                                                      decl_flipped=bool(b.flipped[d.op] and d.where == "pre")))
                matched[key] = d
                break
            except Violation as v:
                first_err = first_err or v
        if key not in matched:
            raise first_err
    for key in sorted(entries, key=sorted):
        if key not in truth:
            e = entries[key][0]
            raise Violation("phantom-entry", f"entry {e.kind} {e.a} {e.b} was never declared", **facts)

    # Edge.length of every wire is the length of the user's curve (or of the straight segment)
    for bi, blk in enumerate(b.mesh.blocks):
        oi = order[bi]
        for wire in blk.wire_list:
            pa, pb = (np.asarray(v.position, float) for v in wire.vertices)
            key = frozenset((node_of(pa), node_of(pb)))
            d = matched.get(key)
            chord = float(np.linalg.norm(pa - pb))
            if chord < 1e-9:
                continue  # a curve declared between coincident corners has no defined length; only its omission is asserted
            if d is None:
                want, rtol = chord, 1e-9
            elif d.truth.length is None:
                continue
            else:
                want, rtol = d.truth.length, d.truth.len_rtol
            try:
                got_len = float(wire.edge.length)
            except Exception as ex:
                raise Violation("length-raised", f"Edge.length raised {type(ex).__name__}: {ex}", **facts) from None
            if abs(got_len - want) > rtol * want + 1e-12:
                definer = min((rank[x.op] for x in truth[key] if not x.truth.degenerate), default=None) if d else None
                raise Violation(
                    "wire-length",
                    f"block {bi} wire {wire.corners}: Edge.length {got_len:.9g}, the user's curve "
                    f"({d.truth.kind if d else 'straight'}) is {want:.9g} long",
                    **dict(facts, edge_kind=d.truth.kind if d else "line", wire_edge_kind=str(wire.edge.kind),
                           owner_before_definer=bool(definer is not None and bi < definer)))

    if ctx is None:
        return
    # bookkeeping
    nt = False
    for key, d in matched.items():
        k = d.truth.kind
        closing = d.p in (3, 7)
        nt = nt or closing or k in xe.DIRECTIONAL or k in xe.CURVE_KINDS
        ctx.label("kind:" + k, "pos:%d" % d.p)
        if closing and (k in xe.DIRECTIONAL):
            ctx.label("closing+directional")
    for decls in truth.values():
        if len(decls) > 1:
            ctx.label("declared-twice")
            if len({id(d.truth) for d in decls}) > 1 and all(not d.truth.degenerate for d in decls):
                ctx.label("conflict")
        if all(d.truth.degenerate for d in decls):
            nt = True  # an omission was checked
            ctx.label("omitted:" + decls[0].truth.kind + ("/zero-length" if decls[0].truth.chord < 1e-9 else ""))
    for o in case["ops"]:
        ctx.label("hist:" + ("+".join(s[0] for s in o["history"]) or "given"))
    for r in b.face_role:
        ctx.label("face-as-" + r)
    ctx.label("write:" + case.get("write_history", "once"))
    if case.get("slide"):
        ctx.label("slid:" + ("both" if case["slide"][0] > 0 and case["slide"][1] < 1 else "one-end"))
    if "model_scale" in case:
        ctx.label("scale=%g" % case["model_scale"])
        lens = [d.truth.chord for d in matched.values()]
        if lens and min(lens) < 3e-4:
            ctx.label("written-edge-shorter-than-3e-4")
    ctx.nt(nt)


# --------------------------------------------------------------------------------------------------
# generators


@st.composite
def _lattice(draw, dims):
    nn = (dims[0] + 1) * (dims[1] + 1) * (dims[2] + 1)
    widths = [[10.0 ** draw(st.floats(-0.7, 0.7)) for _ in range(dims[a])] for a in range(3)]
    jit = [draw(st.floats(-1.0, 1.0)) for _ in range(3 * nn)] if draw(st.booleans()) else []
    rot = None
    if draw(st.booleans()):
        ax = [draw(st.floats(-1, 1)) for _ in range(3)]
        if max(abs(x) for x in ax) < 0.1:
            ax[0] = 1.0
        rot = [*ax, draw(st.floats(-math.pi, math.pi))]
    return {"dims": list(dims), "widths": widths, "jitter": jit, "rot": rot,
            "offset": [draw(st.floats(-5, 5)) for _ in range(3)]}


_step = st.one_of(
    st.tuples(st.just("shift"), st.sampled_from([1, 2, 3, -1, 5])).map(list),
    st.tuples(st.just("reorient"), st.integers(0, 3)).map(list),
)


@st.composite
def _history(draw, inverts: str):
    """inverts: 'even' (0 or 2 inversions: the face ends up as the user drew it) or 'odd'"""
    steps = draw(st.lists(_step, min_size=0, max_size=2))
    n_inv = draw(st.sampled_from([0, 0, 0, 2])) if inverts == "even" else draw(st.sampled_from([1, 1, 1, 3]))
    for _ in range(n_inv):
        steps.insert(draw(st.integers(0, len(steps))), ["invert"])
    return steps


@st.composite
def _op(draw, cell, inverts="even", with_face=True):
    return {"cell": cell, "side": draw(st.sampled_from(SIDES)), "start": draw(st.integers(0, 3)),
            "dir": draw(st.sampled_from([1, -1])), "history": draw(_history(inverts)) if with_face else [],
            "pre": [None] * 4, "post": []}


@st.composite
def single_case(draw, kinds, inverts="even", pre_only=False, degenerate=(), max_edges=3):
    case = draw(_lattice((1, 1, 1)))
    op = draw(_op(0, inverts))
    slots = [("pre", m) for m in range(4)]
    if not pre_only:
        slots += [("opp", i) for i in range(4)] + [("side", i) for i in range(4)]
    n = draw(st.integers(1, max_edges))
    chosen = draw(st.permutations(slots))[:n]
    for j, (w, i) in enumerate(chosen):
        pool = kinds if (j == 0 or not degenerate) else tuple(kinds) + tuple(degenerate)
        sp = draw(xe.any_spec(pool, reflex=True))
        if w == "pre":
            op["pre"][i] = sp
        else:
            op["post"].append({"where": [w, i], "spec": sp})
    case["ops"] = [op]
    case["order"] = [0]
    case["write_history"] = draw(st.sampled_from(WRITE_HISTORIES))
    return case


@st.composite
def zero_length_case(draw):
    case = draw(_lattice((1, 1, 1)))
    op = draw(_op(0, "even"))
    op["history"] = [s for s in op["history"] if s[0] != "reorient"]  # position-independent steps only
    cn = lt.cell_nodes([1, 1, 1], 0)
    q1 = draw(st.integers(0, 7))
    q2 = _opposite(q1, draw(st.integers(0, 2)))
    case["collapse"] = [cn[q1], cn[q2]]
    kinds = ("arc", "angle", "origin", "spline", "polyLine", "project")
    op["post"].append({"where": ["pair", q1, q2], "spec": draw(xe.any_spec(kinds))})
    # a second, ordinary edge somewhere else
    q3 = draw(st.integers(0, 7))
    q4 = _opposite(q3, draw(st.integers(0, 2)))
    if {q3, q4} != {q1, q2}:
        op["post"].append({"where": ["pair", q3, q4], "spec": draw(xe.any_spec(("arc", "spline", "angle")))})
    case["ops"] = [op]
    case["order"] = [0]
    return case


def _shared_pairs(dims, ca, cb_):
    na, nb = lt.cell_nodes(dims, ca), lt.cell_nodes(dims, cb_)
    out = []
    for q1 in range(8):
        for ax in range(3):
            q2 = _opposite(q1, ax)
            if q1 < q2 and na[q1] in nb and na[q2] in nb:
                out.append(((q1, q2), (nb.index(na[q1]), nb.index(na[q2]))))
    return out


@st.composite
def shared_case(draw, mode, order=None, kinds=xe.ALL_VALID, first_kinds=None):
    """two operations with a common geometric edge; operation 0 declares it; operation 1 declares nothing / the same
    curve in its own sense / another curve.  first_kinds: kinds of operation 0's declaration (default `kinds`)."""
    contact = draw(st.sampled_from(["face", "face", "edge"]))
    perm = draw(st.permutations([0, 1, 2]))
    base = (2, 1, 1) if contact == "face" else (2, 2, 1)
    dims = [0, 0, 0]
    for a, s in zip(perm, base):
        dims[a] = s
    case = draw(_lattice(tuple(dims)))
    ncell = dims[0] * dims[1] * dims[2]
    pairs_of_cells = [(x, y) for x in range(ncell) for y in range(ncell) if x != y and
                      len(_shared_pairs(dims, x, y)) == (4 if contact == "face" else 1)]
    ca, cb_ = draw(st.sampled_from(pairs_of_cells))
    qa, qb = draw(st.sampled_from(_shared_pairs(dims, ca, cb_)))
    if draw(st.booleans()):
        qa, qb = qa[::-1], qb[::-1]
    a = draw(_op(ca, "even"))
    b_ = draw(_op(cb_, "even"))
    a["post"].append({"where": ["pair", *qa], "spec": draw(xe.any_spec(first_kinds or kinds, reflex=True))})
    if mode == "same":
        b_["post"].append({"where": ["pair", *qb], "same_as": 0})
    elif mode == "different":
        ka = a["post"][0]["spec"]["kind"]
        b_["post"].append({"where": ["pair", *qb], "spec": draw(xe.any_spec([k for k in kinds if k != ka]))})
    case["ops"] = [a, b_]
    case["order"] = list(order) if order else draw(st.sampled_from([[0, 1], [1, 0]]))
    case["share"] = {"mode": mode, "contact": contact}
    case["write_history"] = draw(st.sampled_from(WRITE_HISTORIES))
    return case


# --------------------------------------------------------------------------------------------------
# enumerated grid: kind x declaration slot x history (fixed geometry per kind)

GRID_SPECS = {
    "arc": {"kind": "arc", "theta": 1.3, "phi": 0.7, "frac": 0.3},
    "origin": {"kind": "origin", "theta": 1.1, "phi": 2.1},
    "angle": {"kind": "angle", "theta": 0.9, "phi": 4.0, "sign": 1, "axis_scale": 1.0},
    "spline": {"kind": "spline", "pts": [[0.1, 0.2, 0.1], [0.2, 0.3, -0.1], [0.8, 0.1, 0.05]]},
    "polyLine": {"kind": "polyLine", "pts": [[0.15, -0.2, 0.1], [0.3, -0.3, 0.2], [0.7, 0.1, 0.1]]},
    "project": {"kind": "project", "labels": ["geo"]},
    "curve-line": {"kind": "curve-line", "tx": 0.4, "ty": -0.8, "lo": 0.3, "hi": 0.2, "n": 4, "repr": "spline"},
    "curve-circle": {"kind": "curve-circle", "theta": 1.2, "phi": 5.0, "lead": 0.4, "trail": 0.3, "reverse": True, "n": 5,
                     "repr": "spline"},
    "curve-linear": {"kind": "curve-linear", "pts": [[0.2, 0.1, 0.1], [0.6, -0.1, 0.15]], "lead": [-0.2, 0.05, 0.0],
                     "trail": None, "reverse": False, "n": 3, "repr": "polyLine"},
}
GRID_HISTORIES = {
    "even": [[], [["shift", 1]], [["reorient", 2]], [["invert"], ["shift", 1], ["invert"]]],
    "odd": [[["invert"]], [["shift", 1], ["invert"]], [["invert"], ["reorient", 1]]],
}


def grid(kinds, inverts: str, slots) -> List[dict]:
    out = []
    n = 0
    for kind in kinds:
        for hist in GRID_HISTORIES[inverts][: 2 if kind in xe.CURVE_KINDS else None]:
            for w, i in slots:
                n += 1
                jit = [math.sin(1.7 * k + 0.37 * n) for k in range(24)]
                op = {"cell": 0, "side": SIDES[n % 6], "start": n % 4, "dir": 1 if (n // 4) % 2 else -1,
                      "history": hist, "pre": [None] * 4, "post": []}
                if w == "pre":
                    op["pre"][i] = GRID_SPECS[kind]
                else:
                    op["post"].append({"where": [w, i], "spec": GRID_SPECS[kind]})
                out.append({"dims": [1, 1, 1], "widths": [[1.0], [1.3], [0.8]], "jitter": jit,
                            "rot": [0.3, -0.5, 0.8, 0.1 * n], "offset": [0.5, -1.0, 2.0], "ops": [op], "order": [0]})
    return out


ALL_SLOTS = [("pre", m) for m in range(4)] + [("opp", i) for i in range(4)] + [("side", i) for i in range(4)]
PRE_SLOTS = [("pre", m) for m in range(4)]
# kinds that survive in a small model: the library's absolute collinearity tolerance drops small arcs (known finding
# C08-N2), which is not this property's subject
SMALL_KINDS = ("spline", "polyLine", "project", "curve-linear", "curve-line")
SCALES = [1e-2, 1e-3, 3e-4, 1e-4]


@st.composite
def small_case(draw):
    """whole model given in small units: vertex distances down to 1.2e-5 (>= 100 x TOL)"""
    if draw(st.booleans()):
        case = draw(single_case(SMALL_KINDS))
    else:
        case = draw(shared_case(draw(st.sampled_from(["nothing", "same"])), kinds=SMALL_KINDS))
    case["model_scale"] = draw(st.sampled_from(SCALES))
    return case


@st.composite
def slide_case(draw):
    """exactly one geometric edge, snapped to a curve; after the first write its vertices move along the curve"""
    if draw(st.booleans()):
        case = draw(single_case(xe.CURVE_KINDS, max_edges=1))
    else:
        case = draw(shared_case(draw(st.sampled_from(["nothing", "same"])), kinds=xe.CURVE_KINDS))
    a = draw(st.sampled_from([0.0, 0.1, 0.2, 0.35]) | st.floats(0.0, 0.35))
    b_ = draw(st.sampled_from([1.0, 0.9, 0.8, 0.65]) | st.floats(0.65, 1.0))
    if a == 0.0 and b_ == 1.0:
        a = 0.25
    case["slide"] = [a, b_]
    case["write_history"] = "once"
    return case


def small_grid() -> List[dict]:
    out = []
    for k, case in enumerate(grid(("spline", "polyLine", "project"), "even", ALL_SLOTS)):
        if k % 4 == 0:  # one history per (kind, slot)
            out.append(dict(case, model_scale=SCALES[(k // 4) % len(SCALES)]))
    return out


# --------------------------------------------------------------------------------------------------
# sequences of projection calls: the labels of each of the 12 edges follow from the call list alone

LABELS = ["geo", "geo2", "wall", "roof"]
PROJ_GEOMETRY = {name: ["type sphere", "origin (0 0 0)", f"radius {i + 1}"] for i, name in enumerate(LABELS)}


def side_positions(side: str) -> List[int]:
    """positions (0..11) of the four edges of a side, from the blockMesh sketch (R-HEX), not from the library"""
    corners = set(HEX_SIDES[side])
    return [p for p, (c1, c2) in enumerate(POS_CORNERS) if c1 in corners and c2 in corners]


def expected_projection(calls, n_ops: int) -> List[Dict[int, set]]:
    exp: List[Dict[int, set]] = [{p: set() for p in range(12)} for _ in range(n_ops)]
    for c in calls:
        if c[0] == "side":
            if c[4]:
                for p in side_positions(c[2]):
                    exp[c[1]][p].add(c[3])
        else:
            p, _ = _position_of(list(range(8)), c[2], c[3])
            exp[c[1]][p].add(c[4])
    return exp


@st.composite
def projection_case(draw):
    two = draw(st.booleans())
    if two:
        case = draw(shared_case("nothing"))
        for o in case["ops"]:
            o["post"] = []
        case.pop("share")
    else:
        case = draw(_lattice((1, 1, 1)))
        case["ops"] = [draw(_op(0, "even"))]
        case["order"] = [0]
        case["write_history"] = draw(st.sampled_from(WRITE_HISTORIES))
    n_ops = len(case["ops"])
    calls: List[list] = []
    labels = [{p: set() for p in range(12)} for _ in range(n_ops)]
    for _ in range(draw(st.integers(2, 6))):
        oi = draw(st.integers(0, n_ops - 1))
        lab = draw(st.sampled_from(LABELS))
        if draw(st.integers(0, 2)) == 0:
            p = draw(st.integers(0, 11))
            c1, c2 = POS_CORNERS[p]
            if draw(st.booleans()):
                c1, c2 = c2, c1
            touched, call = [p], ["edge", oi, c1, c2, lab]
        else:
            # bottom / top twice as likely: Face.project and the side faces take different paths in the library
            side = draw(st.sampled_from(["bottom", "top", "bottom", "top", "front", "right", "back", "left"]))
            with_edges = draw(st.sampled_from([True, True, True, False]))
            touched, call = (side_positions(side) if with_edges else []), ["side", oi, side, lab, with_edges]
        if any(len(labels[oi][p] | {lab}) > 2 for p in touched):
            continue  # an edge is the intersection of at most two surfaces
        for p in touched:
            labels[oi][p].add(lab)
        calls.append(call)
    case["calls"] = calls
    return case


def check_projection(case, ctx: Ctx) -> None:
    b = build(case)
    facts: Dict[str, Any] = {"ops": len(case["ops"]), "calls": case["calls"], "order": case["order"]}
    for c in case["calls"]:
        op = b.ops[c[1]]
        try:
            if c[0] == "side":
                op.project_side(c[2], c[3], edges=c[4])
            else:
                op.project_edge(c[2], c[3], c[4])
        except Exception as ex:
            raise Violation("projection-rejected", f"valid call {c} raised {type(ex).__name__}: {ex}", **facts) from None
    for name in LABELS[2:]:
        b.mesh.add_geometry({name: PROJ_GEOMETRY[name]})
    text = written_text(case, b, facts)
    try:
        bmd = lt.parse(text)
    except FoamParseError as ex:
        raise Violation("unparsable", f"written file does not parse: {ex}", **facts) from None
    exp = expected_projection(case["calls"], len(case["ops"]))
    used = sorted({n for nodes in b.nodes for n in nodes})

    def node_of(p) -> int:
        d = [float(np.linalg.norm(np.asarray(p) - b.pos[n])) for n in used]
        k = int(np.argmin(d))
        if d[k] > 1e-6:
            raise Violation("vertex-off-lattice", "a vertex is not at a corner of any operation", **facts)
        return used[k]

    vnode = [node_of(v.pos) for v in bmd.vertices]
    # per geometric edge: the label sets the operations give it (in insertion order, empty ones dropped)
    want: Dict[frozenset, List[List[str]]] = {}
    for oi in case["order"]:
        for p, (c1, c2) in enumerate(POS_CORNERS):
            if exp[oi][p]:
                want.setdefault(frozenset((b.nodes[oi][c1], b.nodes[oi][c2])), []).append(sorted(exp[oi][p]))
    got: Dict[frozenset, List[Any]] = {}
    for e in bmd.edges:
        got.setdefault(frozenset((vnode[e.a], vnode[e.b])), []).append(e)
    for key in sorted(set(want) | set(got), key=sorted):
        es = got.get(key, [])
        ws = want.get(key, [])
        f2 = dict(facts, edge_nodes=sorted(key), expected=ws, written=[[e.kind, e.payload] for e in es])
        if not ws:
            raise Violation("phantom-entry", f"entry {es[0].kind} {es[0].a} {es[0].b} ({es[0].payload}) on an edge no call projected", **f2)
        if len(es) != 1:
            raise Violation("entry-missing" if not es else "entry-duplicated",
                            f"{len(es)} entries for an edge projected to {ws}", **f2)
        e = es[0]
        if e.kind != "project":
            raise Violation("entry-kind", f"entry kind {e.kind!r}, expected 'project'", **f2)
        if sorted(e.payload) not in ws:
            raise Violation("labels-differ", f"edge written as project ({' '.join(e.payload)}), the calls give {ws}", **f2)
    n_two = sum(1 for ws in want.values() for w in ws if len(w) == 2)
    # the order class in which aliasing between the four edges of a face would show: a face projected with its edges,
    # later one of those edges gets a second surface
    seen: List[Dict[int, set]] = [{p: set() for p in range(12)} for _ in case["ops"]]
    face_then_more = False
    for c in case["calls"]:
        ps = (side_positions(c[2]) if c[4] else []) if c[0] == "side" else [_position_of(list(range(8)), c[2], c[3])[0]]
        lab = c[3] if c[0] == "side" else c[4]
        for p in ps:
            for prev_side in ("bottom", "top"):
                if p in side_positions(prev_side) and ("F" + prev_side) in seen[c[1]][p] and lab not in seen[c[1]][p] \
                        and not (c[0] == "side" and c[2] == prev_side):
                    face_then_more = True
        for p in ps:
            seen[c[1]][p].add(lab)
            if c[0] == "side" and c[2] in ("bottom", "top"):
                seen[c[1]][p].add("F" + c[2])
    ctx.nt(len(want) >= 1 and len(case["calls"]) >= 2)
    ctx.label("calls=%d" % len(case["calls"]), "ops=%d" % len(case["ops"]), "write:" + case.get("write_history", "once"))
    ctx.label("two-label-edges" if n_two else "single-label-only")
    if face_then_more:
        ctx.label("face-with-edges-then-second-surface")
    for c in case["calls"]:
        ctx.label("call:" + (c[0] + ":" + (c[2] if c[2] in ("bottom", "top") else "lateral") if c[0] == "side" else "edge"))
    if any(len(ws) > 1 for ws in want.values()):
        ctx.label("edge-projected-by-both-operations")


# --------------------------------------------------------------------------------------------------
# one float64 array of spline / polyLine points given to several edges whose holders are translated in place


@st.composite
def shared_array_case(draw):
    case = draw(_lattice((1, 1, 1)))
    case["rotation"] = draw(st.integers(0, 23))
    case["position"] = draw(st.integers(0, 11))
    case["spec"] = draw(xe.any_spec(xe.POINT_KINDS))
    case["variant"] = draw(st.sampled_from(["stations", "stations", "two-faces"]))
    n = draw(st.integers(2, 3)) if case["variant"] == "stations" else 2
    # offsets in units of the block's diagonal: stations 10 diagonals apart along one direction plus an own part
    case["direction"] = draw(st.sampled_from([[1, 0, 0], [0, 1, 0], [0, 0, 1], [1, 1, 0], [-1, 0, 1]]))
    case["offsets"] = [[draw(st.floats(-1, 1)) for _ in range(3)] for _ in range(n)]
    case["first_stays"] = draw(st.booleans())  # station 0 is not translated at all
    case["interleaved"] = draw(st.booleans())  # build + translate one after the other, or build all, then translate all
    case["as_array"] = draw(st.sampled_from([True, True, True, False]))  # False: a list of lists (always copied)
    # after the translations a holder may also be turned in place: angle, axis as the user would give it (any length,
    # e.g. the difference of two points), origin relative to the holder's centre in block diagonals
    turn = st.tuples(st.floats(0.2, 3.0), st.sampled_from([1, -1]),
                     st.tuples(st.floats(-1, 1), st.floats(-1, 1), st.floats(0.2, 1)), st.sampled_from([1.0, 2.5, 0.3, 7.0]),
                     st.tuples(st.floats(-1, 1), st.floats(-1, 1), st.floats(-1, 1)))
    case["turns"] = [None if draw(st.integers(0, 2)) == 0 else
                     (lambda t: [t[0] * t[1], [t[3] * x / math.sqrt(sum(y * y for y in t[2])) for x in t[2]], list(t[4])])(draw(turn))
                     for _ in range(n)]
    return case


def check_shared_array(case, ctx: Ctx) -> None:
    pos = positions(case)
    perm = lt.ROT[case["rotation"]]
    nodes = lt.cell_nodes([1, 1, 1], 0)
    P = np.array([pos[nodes[perm[i]]] for i in range(8)])
    diag = float(np.linalg.norm(P.max(axis=0) - P.min(axis=0)))
    p = case["position"] % (4 if case["variant"] == "two-faces" else 12)
    c1, c2 = POS_CORNERS[p]
    base = xe.Truth(case["spec"], P[c1], P[c2])
    user_points = np.array([list(map(float, q)) for q in base.pts], dtype=float)
    given = user_points.copy() if case["as_array"] else user_points.tolist()
    make = cb.Spline if case["spec"]["kind"] == "spline" else cb.PolyLine
    facts: Dict[str, Any] = {"variant": case["variant"], "position": p, "edge_kind": case["spec"]["kind"],
                             "interleaved": case["interleaved"], "as_array": case["as_array"], "holders": len(case["offsets"])}
    direction = np.array(case["direction"], float)
    direction /= np.linalg.norm(direction)
    offsets = [10.0 * diag * k * direction + diag * np.array(o) for k, o in enumerate(case["offsets"])]
    if case["first_stays"]:
        offsets[0] = np.zeros(3)
    mesh = cb.Mesh()
    truths: List[xe.Truth] = []
    try:
        if case["variant"] == "stations":
            ops = []
            for d in offsets:
                edges_b = [make(given) if p == i else None for i in range(4)]
                edges_t = [make(given) if p == i + 4 else None for i in range(4)]
                op = cb.Loft(cb.Face(P[:4], edges_b), cb.Face(P[4:], edges_t))
                if p >= 8:
                    op.add_side_edge(p - 8, make(given))
                ops.append(op)
                if case["interleaved"] and np.any(d != 0):
                    op.translate(d)
                truths.append(base.translated(d))
            if not case["interleaved"]:
                for op, d in zip(ops, offsets):
                    if np.any(d != 0):
                        op.translate(d)
        else:
            # the same profile on edge i of the bottom face and of the top face, the top face moved to its place
            i = p
            h = P[4:] - P[:4]
            lift = h.mean(axis=0)
            bottom = cb.Face(P[:4], [make(given) if j == i else None for j in range(4)])
            top = cb.Face(P[:4], [make(given) if j == i else None for j in range(4)])
            top.translate(lift)
            ops = [cb.Loft(bottom, top)]
            truths = [base, base.translated(lift)]
            if np.any(offsets[1] != 0):
                ops[0].translate(offsets[1])
                truths = [t.translated(offsets[1]) for t in truths]
        # holders turned in place about their own neighbourhood (axis of any length)
        from vf.refmodel import m_rotate

        centre = P.mean(axis=0)
        for k, turn in enumerate(case.get("turns") or []):
            if turn is None or (case["variant"] == "two-faces" and k == 0):
                continue
            origin = centre + offsets[k] + diag * np.array(turn[2])
            M = m_rotate(turn[0], turn[1], origin)
            if case["variant"] == "stations":
                ops[k].rotate(turn[0], turn[1], origin)
                truths[k] = truths[k].moved(M)
            else:
                ops[0].rotate(turn[0], turn[1], origin)
                truths = [t.moved(M) for t in truths]
            facts["turned"] = True
    except Exception as ex:
        raise Violation("construction-raised", f"{type(ex).__name__}: {ex}", **facts) from None
    for op in ops:
        for ax in range(3):
            op.chop(ax, count=2)
        mesh.add(op)
    try:
        text, _ = lt.write_text(mesh)
        bmd = lt.parse(text)
    except FoamParseError as ex:
        raise Violation("unparsable", f"written file does not parse: {ex}", **facts) from None
    except Exception as ex:
        raise Violation("write-failed", f"{type(ex).__name__}: {ex}", **facts) from None
    vpos = [np.array(v.pos) for v in bmd.vertices]
    if len(bmd.edges) != len(truths):
        raise Violation("entry-count", f"{len(bmd.edges)} entries for {len(truths)} declared edges", **facts)
    for k, t in enumerate(truths):
        mine = [e for e in bmd.edges
                if {True} == {any(xe.close(vpos[v], q) for q in (t.X, t.Y)) for v in (e.a, e.b)} and e.a != e.b]
        if len(mine) != 1:
            raise Violation("entry-missing" if not mine else "entry-duplicated",
                            f"{len(mine)} entries between the end points of holder {k}", **dict(facts, holder=k))
        xe.check_entry(mine[0], vpos[mine[0].a], vpos[mine[0].b], t, dict(facts, holder=k))
    for bi, blk in enumerate(mesh.blocks):
        for wire in blk.wire_list:
            pa, pb = (np.asarray(v.position, float) for v in wire.vertices)
            for k, t in enumerate(truths):
                if (xe.close(pa, t.X) and xe.close(pb, t.Y)) or (xe.close(pa, t.Y) and xe.close(pb, t.X)):
                    got_len = float(wire.edge.length)
                    if abs(got_len - t.length) > 1e-9 * t.length + 1e-12:
                        raise Violation("wire-length", f"block {bi} wire {wire.corners}: Edge.length {got_len:.9g}, the user's "
                                        f"curve is {t.length:.9g} long", **dict(facts, holder=k))
    if case["as_array"] and not np.array_equal(given, user_points):
        raise Violation("caller-array-changed", "the array of points given by the caller was modified", **facts)
    ctx.nt(case["as_array"])
    ctx.label("variant:" + case["variant"], "kind:" + case["spec"]["kind"], "pos:%d" % p,
              "given-as-float64-array" if case["as_array"] else "given-as-list",
              "interleaved" if case["interleaved"] else "built-then-translated", "holders=%d" % len(truths))
    if facts.get("turned"):
        ctx.label("holder-turned(non-unit-axis)" if any(t and abs(np.linalg.norm(t[1]) - 1) > 1e-9 for t in case["turns"])
                  else "holder-turned")


# --------------------------------------------------------------------------------------------------
# predefined sketches that carry spline / polyLine edges: the points run with the entry

PREDEFINED = ["Cylinder", "Frustum", "Elbow", "SemiCylinder", "Hemisphere", "QuarterDisk", "HalfDisk", "FourCoreDisk",
              "SplineDisk", "HalfSplineDisk", "QuarterSplineDisk", "SplineRing", "HalfSplineRing", "QuarterSplineRing"]


@st.composite
def predefined_case(draw):
    ax = [draw(st.floats(-1, 1)) for _ in range(3)]
    if max(abs(x) for x in ax) < 0.1:
        ax[2] = 1.0
    step = st.one_of(
        st.just(["invert"]),
        st.tuples(st.just("mirror"), st.sampled_from([[1, 0, 0], [0, 0, 1], [0.3, -0.5, 0.8]]),
                  st.tuples(st.floats(-2, 2), st.floats(-2, 2), st.floats(-2, 2)).map(list)).map(list),
        st.tuples(st.just("rotate"), st.floats(-3, 3), st.sampled_from([[0, 0, 2.5], [1, 1, 0.5], [0, 1, 0]]),
                  st.tuples(st.floats(-2, 2), st.floats(-2, 2), st.floats(-2, 2)).map(list)).map(list),
    )
    return {"shape": draw(st.sampled_from(PREDEFINED)), "size": 10.0 ** draw(st.floats(-1.0, 1.5)),
            "centre": [draw(st.floats(-5, 5)) for _ in range(3)], "rot": [*ax, draw(st.floats(-math.pi, math.pi))],
            "ratio": draw(st.floats(0.6, 1.8)),  # second radius / corner relative to the first
            "length": draw(st.floats(0.3, 3.0)),
            "sides": [draw(st.sampled_from([0.0, 0.0, 0.2, 0.45]) | st.floats(0.05, 0.5)) for _ in range(2)],
            "widths": [draw(st.floats(0.15, 0.4)) for _ in range(2)],
            "after": draw(st.lists(step, min_size=0, max_size=2))}


def build_predefined(case):
    from classy_blocks.construct.flat.sketches import disk as dk
    from classy_blocks.construct.flat.sketches import spline_round as sr

    S = case["size"]
    R = rodrigues(case["rot"][:3], case["rot"][3])
    c = np.array(case["centre"], float) * S

    def P(x, y, z):  # local frame: e1, e2 in the sketch plane, e3 the normal
        return c + S * (R @ np.array([x, y, z], float))

    def V(x, y, z):
        return R @ np.array([x, y, z], float)

    name, q, ln = case["shape"], case["ratio"], case["length"]
    s1, s2 = case["sides"][0], case["sides"][1] * q
    w1, w2 = case["widths"][0] * (1 - case["sides"][0]), case["widths"][1] * (q - s2)
    if name == "Cylinder":
        return cb.Cylinder(P(0, 0, 0), P(0, 0, ln), P(1, 0, 0))
    if name == "Frustum":
        return cb.Frustum(P(0, 0, 0), P(0, 0, ln), P(1, 0, 0), S * q)
    if name == "Elbow":
        return cb.Elbow(P(0, 0, 0), P(1, 0, 0), V(0, 0, 1), math.pi / 3 * min(ln, 2.5), P(3, 0, 0), V(0, 1, 0), S * q)
    if name == "SemiCylinder":
        return cb.SemiCylinder(P(0, 0, 0), P(0, 0, ln), P(1, 0, 0))
    if name == "Hemisphere":
        return cb.Hemisphere(P(0, 0, 0), P(1, 0, 0), V(0, 0, 1))
    if name in ("QuarterDisk", "HalfDisk", "FourCoreDisk"):
        sketch = getattr(dk, name)(P(0, 0, 0), P(1, 0, 0), V(0, 0, 1))
    elif name.endswith("Ring"):
        sketch = getattr(sr, name)(P(0, 0, 0), P(1, 0, 0), P(0, q, 0), S * s1, S * s2, S * w1, S * w2)
    else:
        sketch = getattr(sr, name)(P(0, 0, 0), P(1, 0, 0), P(0, q, 0), S * s1, S * s2)
    return cb.ExtrudedShape(sketch, S * ln)


def check_predefined(case, ctx: Ctx) -> None:
    facts: Dict[str, Any] = {"shape": case["shape"], "after": [a[0] for a in case["after"]], "sides": case["sides"]}
    try:
        shape = build_predefined(case)
        S = case["size"]
        for a in case["after"]:
            if a[0] == "invert":
                for op in shape.operations:
                    op.invert()
            elif a[0] == "mirror":
                shape.mirror(a[1], S * np.array(a[2]))
            else:
                shape.rotate(a[1], a[2], S * np.array(a[3]))
        for op in shape.operations:
            for ax in range(3):
                op.chop(ax, count=2)
        mesh = cb.Mesh()
        mesh.add(shape)
        text, _ = lt.write_text(mesh)
    except Exception as ex:
        raise Violation("write-failed", f"predefined shape was not written: {type(ex).__name__}: {ex}", **facts) from None
    try:
        bmd = lt.parse(text)
    except FoamParseError as ex:
        raise Violation("unparsable", f"written file does not parse: {ex}", **facts) from None
    n = 0
    for e in bmd.edges:
        if e.kind not in xe.POINT_KINDS:
            continue
        n += 1
        a, b = np.array(bmd.vertices[e.a].pos), np.array(bmd.vertices[e.b].pos)
        pts = [np.array(q) for q in e.payload]
        forward = xe.polyline_length([a, *pts, b])
        backward = xe.polyline_length([a, *pts[::-1], b])
        f2 = dict(facts, entry=[e.kind, e.a, e.b], forward=forward, backward=backward)
        # 8 printed decimals: each of the <= 25 segments is off by at most 2e-8
        if not forward < backward - 1e-6 * case["size"]:
            raise Violation("points-against-entry-direction",
                            f"{e.kind} {e.a} {e.b}: the polygon vertex-points-vertex is {forward:.6g} long, with the points "
                            f"reversed {backward:.6g}: the points run from the second vertex to the first", **f2)
        # (a first point nearer to the second vertex than to the first is legitimate: ovals list points on the bend only)
        if len(pts) > 1 and not np.linalg.norm(pts[0] - a) < np.linalg.norm(pts[-1] - a):
            raise Violation("points-against-entry-direction", f"{e.kind} {e.a} {e.b}: the last point is nearer to the "
                            "entry's first vertex than the first point", **f2)
    ctx.nt(n > 0)
    ctx.label("shape:" + case["shape"], "entries=%d" % n)
    for a in case["after"]:
        ctx.label("after:" + a[0])
    if case["shape"].startswith(("Spline", "HalfSpline", "QuarterSpline")):
        ctx.label("sides:" + "/".join("zero" if x == 0 else "nonzero" for x in case["sides"]))


PREDEFINED_GRID = [{"shape": name, "size": 1.0, "centre": [0.0, 0.0, 0.0], "rot": [0.3, -0.5, 0.8, 0.4 * i], "ratio": 1.5,
                    "length": 1.0, "sides": sides, "widths": [0.3, 0.3], "after": []}
                   for i, name in enumerate(PREDEFINED) for sides in ([0.0, 0.0], [0.3, 0.2])
                   if sides[0] == 0.0 or "Spline" in name]


CELLS = [
    Cell("C07/single/as-drawn", single_case(xe.ALL_VALID), check_model, 300, 12000,
         "one operation, 1-3 user edges of any kind on face (before shift/reorient/double-invert), opposite face, "
         "sides; grid kind x slot x history enumerated first",
         fixed_cases=grid(xe.ALL_VALID, "even", ALL_SLOTS)),
    Cell("C07/single/inverted-face", single_case(xe.ALL_VALID, inverts="odd"), check_model, 300, 9000,
         "as above with an odd number of Face.invert() in the history (every kind: spline/polyLine points and the angle's "
         "sense have to follow the inversion)",
         fixed_cases=grid(xe.ALL_VALID, "odd", PRE_SLOTS)),
    Cell("C07/shared/declared-once", shared_case("nothing"), check_model, 300, 10000,
         "two operations share the edge (face or edge-only contact, any relative numbering); one declares it, the other "
         "declares nothing; both insertion orders"),
    Cell("C07/shared/declared-twice", shared_case("same"), check_model, 200, 8000,
         "both operations declare the same curve, each in its own sense; both insertion orders"),
    Cell("C07/shared/conflicting", shared_case("different", kinds=("arc", "origin", "angle", "spline", "polyLine", "project")),
         check_model, 120, 5000, "the operations declare different kinds for one edge: one entry, equal to one of them"),
    Cell("C07/degenerate/omitted", single_case(xe.DEGENERATE, degenerate=xe.ALL_VALID), check_model, 150, 6000,
         "explicit lines and collinear arc points (first edge) next to valid edges: absent from the file, wire "
         "length = straight distance"),
    Cell("C07/degenerate/zero-length", zero_length_case(), check_model, 120, 4000,
         "an edge of any kind declared between two coincident corners (wedge): absent"),
    Cell("C07/degenerate/shared", shared_case("different", first_kinds=xe.DEGENERATE,
                                              kinds=("arc", "spline", "polyLine", "angle", "origin")),
         check_model, 100, 3000, "a degenerate declaration and a valid one on the same geometric edge, both insertion "
         "orders: the valid one is written once and every wire has its length"),
    Cell("C07/small-model", small_case(), check_model, 250, 8000,
         "the same models given in small units (scale 1e-2 ... 1e-4, vertex distances down to 1.2e-5): spline, polyLine, "
         "project and curve edges still appear exactly once", fixed_cases=small_grid()),
    Cell("C07/curve/slid-vertices", slide_case(), check_model, 120, 4000,
         "one edge snapped to a line / circle / interpolated curve (one operation, or two sharing it): written, then "
         "its end vertices are moved along the curve with move_to and the assembled mesh is written again; both files "
         "are judged, the second against the current vertex positions (points between them, ordered; Edge.length)"),
    Cell("C07/shared-array/translated", shared_array_case(), check_shared_array, 300, 9000,
         "spline / polyLine points given as ONE float64 array to the edges of 2-3 operations (or of the bottom and top "
         "face of one) that are then moved to their places with the in-place translate(): every entry = the user's "
         "points + its holder's own offset, wire lengths unchanged, the caller's array untouched; non-trivial: given as "
         "an array (lists are always copied)"),
    Cell("C07/predefined/spline-direction", predefined_case(), check_predefined, 100, 4000,
         "shapes lofted from every predefined sketch that carries spline / polyLine edges (disk sketches through "
         "Cylinder, Frustum, Elbow, SemiCylinder, Hemisphere, ExtrudedShape; spline disks and rings with sides zero and "
         "non-zero), placed anywhere, optionally inverted / mirrored / rotated: in every spline / polyLine entry the "
         "points run from the first vertex to the second", fixed_cases=PREDEFINED_GRID),
    Cell("C07/projection/sequences", projection_case(), check_projection, 400, 12000,
         "2-6 project_side(.., edges=True/False) / project_edge calls in drawn order on one or two operations; the label "
         "set of each of the 12 edges follows from the call list (at most two per edge by construction); valid "
         "sequences must not raise"),
]
