"""C13 — optimisation never worsens quality; only clamped vertices move, on their constraints (DESIGN.md section 4, C13)."""

from __future__ import annotations

import contextlib
import io
import warnings
from typing import Any, Dict, List, Optional

import numpy as np
from hypothesis import strategies as st

from vf import lattice as lt
from vf import x_manifold as xm
from vf.core import Cell, Ctx, Violation
from vf.refmodel import apply, m_rotate

warnings.simplefilter("ignore")

METHODS = ["SLSQP", "L-BFGS-B", "Nelder-Mead", "Powell"]

RULE = (
    "Meshes: full node lattices of 2-8 hexahedra (each in one of the 24 numberings, random insertion order) with none / "
    "some / all nodes jittered by <= 0.2 width; sketches: MappedSketch grids 2x2..3x3 and a 5-quad disk map (3-valent "
    "points) in a general plane when every point is jittered, in a shifted coordinate plane otherwise. 1-3 vertices (vertex 0 over-represented) get a clamp of a random type (Free, Line +- bounds, "
    "Radial +- bounds, Plane, Curve, Surface +- bounds) whose manifold is written for the check and passes through "
    "the vertex; bounds are tight (half-widths <= 0.15 width) so the unconstrained optimum is often outside. In the "
    "link cells the first clamped vertex leads 1-3 links (Translation / Rotation / Symmetry mixed, added in drawn "
    "order) to distinct unclamped vertices and every follower's relation is asserted. One cell per "
    "minimisation method; 1-3 iterations and the tolerance are drawn; hand-written fixed cases (regular lattice = every "
    "step rolled back, jittered vertex 0, bounds tighter than the way to the optimum, each link type) run first for "
    "every seed. Fault cells run the same model twice: once to count cell-quality evaluations, once with "
    "ValueError('Degenerate Cell') raised at a drawn evaluation. Non-trivial: a clamped vertex moved by > 1e-6 width, "
    "or a rollback / skip / fault path was taken. distinct = (topology, clamp-type multiset, link type, method, "
    "iterations)."
)
ASSUMPTIONS = [
    "the summed quality measure is the library's own (sum of cell.quality over a fresh grid built by the harness from "
    "the positions before / after); whether that measure is a sensible one is C14's business",
    "'before' for the quality comparison is the worse of the given positions and the same positions with every clamped "
    "vertex at the position its freshly created clamp reports (<= 1e-7 away, the tolerance of add_clamp): the optimizer "
    "can only return to the latter; relative tolerance 1e-9. With a RotationLink the follower of an unmoved leader is "
    "already turned by the resolution of arccos (<= 3e-8 rad; measured 1.5e-8): the reference also covers the follower "
    "turned by +-1e-7 rad",
    "a clamp whose reported position is >= 1e-7 (library TOL) from the vertex cannot be attached (NoJunctionError); "
    "such clamps are counted and left out, they are outside the property",
    "on-manifold tolerance 1e-6 * width, bounds tolerance 1e-6 * width, link relation 1e-9 (translation, symmetry) / "
    "1e-6 (rotation, arccos-limited) * (width + distances involved); backport and fault roll-back 1e-12 * width",
    "an optimize() call that raises ValueError('Degenerate Cell ...') must leave the mesh vertices / sketch positions "
    "bit-identical; a handled fault must leave the grid as it was before that clamp's step",
    "an exactly rectangular quad in a general plane makes QuadCell.quality evaluate arccos(1 + 1e-16) and report a "
    "degenerate cell (no clipping); sketches with unperturbed points are therefore laid in a coordinate plane, and an "
    "input whose initial quality cannot be evaluated is counted (degenerate-input), not judged",
    "any other exception out of optimize() on these valid inputs is a violation (the statement presupposes that the "
    "optimizer runs): known finding N-C13-1",
    "fault injection wraps CellBase.quality inside the harness process (DESIGN.md 2.8); rollback / skip counters wrap "
    "ClampOptimizationData.rollback / skip and are used for labels only",
]

TOL_MANIFOLD = 1e-6
TOL_BOUNDS = 1e-6
TOL_LINK = 1e-9
TOL_ROT = 1e-6
TOL_COPY = 1e-12
TOL_Q = 1e-9
LIB_TOL = 1e-7
ROT_NOISE = 1e-7  # rad; arccos(1 - k*1.1e-16) = 1.5e-8*sqrt(k)
REACH = 0.15
PLACE_RATIOS = [0.0, 0.0, 1e3, 1e5, 2e6]
EPS = 2.220446049250313e-16

# --------------------------------------------------------------------------------------------------
# generators

DIMS = [(2, 1, 1), (1, 2, 1), (1, 1, 2), (2, 2, 1), (2, 1, 2), (1, 2, 2), (2, 2, 1), (3, 1, 1), (2, 2, 2)]
DIMS_SMALL = [(2, 1, 1), (1, 2, 1), (1, 1, 2), (2, 2, 1)]
DIMS_ROW = [(2, 1, 1), (3, 1, 1), (1, 3, 1), (2, 2, 1), (1, 1, 3)]  # cells with face-neighbours that miss most vertices

_vindex = st.one_of(st.just(0), st.integers(0, 199))


def clamp_spec():
    return st.one_of(
        xm.spec_free(),
        xm.spec_line(REACH, through=True),
        xm.spec_radial(REACH),
        xm.spec_plane(),
        xm.spec_curve(REACH),
        xm.spec_surface(REACH),
    )


def link_spec():
    return st.one_of(
        st.just({"type": "translation"}),
        st.fixed_dictionaries(
            {
                "type": st.just("rotation"),
                "coaxial": st.booleans(),  # leader gets a RadialClamp about the link's axis (the documented use)
                "axis": xm.vec3,
                "cdir": xm.vec3,
                "nlen": xm.nlen,
                "r": st.floats(0.5, 3.0),
                "h": st.floats(-2.0, 2.0),
                "bounded": st.booleans(),
                "lo": st.floats(0.0, REACH),
                "hi": st.floats(0.02, REACH),
            }
        ),
        st.fixed_dictionaries({"type": st.just("symmetry"), "nlen": xm.nlen, "inplane": xm.vec3}),
    )


def _jitter(draw, n: int, dim: int):
    mode = draw(st.sampled_from(["all", "some", "none"]))
    out: List[float] = []
    for _ in range(n):
        on = mode == "all" or (mode == "some" and draw(st.booleans()))
        out.extend([draw(st.floats(-1.0, 1.0)) if on else 0.0 for _ in range(dim)])
    return out, mode


def _run_params(draw, links: bool, fault: bool, method: Optional[str] = None) -> Dict[str, Any]:
    nclamps = draw(st.integers(1, 3))
    out = {
        "clamps": [{"v": draw(_vindex), "m": draw(clamp_spec())} for _ in range(nclamps)],
        # 1-3 links on the first clamped vertex, added in this order
        "links": [{"f": draw(st.integers(0, 199)), **draw(link_spec())} for _ in range(draw(st.integers(1, 3)))]
        if links else [],
        "method": method or draw(st.sampled_from(METHODS)),
        "iters": draw(st.integers(1, 3)),
        "tolerance": draw(st.sampled_from([0.1, 1e-3])),
        "runs": draw(st.sampled_from([1, 1, 2])),  # optimize() called once, or twice on the same optimizer (coarse + finish)
        # the whole model (with its manifolds and links) sits this many model sizes from the origin, in a general direction
        "place": {"dir": draw(xm.vec3), "ratio": draw(st.sampled_from(PLACE_RATIOS))},
        "fault": draw(st.floats(0.0, 0.999)) if fault else None,
    }
    return out


@st.composite
def mesh_case(draw, links: bool = False, fault: bool = False, dims_pool=None, method: Optional[str] = None,
              premin: bool = False):
    dims = draw(st.sampled_from(dims_pool or DIMS))
    ncell = dims[0] * dims[1] * dims[2]
    nn = (dims[0] + 1) * (dims[1] + 1) * (dims[2] + 1)
    lat = {
        "dims": list(dims),
        "widths": [[draw(st.floats(0.5, 2.0)) for _ in range(dims[a])] for a in range(3)],
        "jitter": _jitter(draw, nn, 3)[0],
        "cells": list(draw(st.permutations(list(range(ncell))))),
        "orient": [draw(st.integers(0, 23)) for _ in range(ncell)],
        "offset": [draw(st.floats(-3.0, 3.0)) for _ in range(3)],
        "chops": [],
    }
    case = {"kind": "mesh", "lat": lat, **_run_params(draw, links, fault, method)}
    if premin:
        # free clamps only, not on vertex 0 by default: any vertex whose cells have a face-neighbour that does not
        # contain it will do, and the start is moved to the minimum of the summed quality before the optimizer is built
        case["clamps"] = [{"v": draw(st.integers(0, 199)), "m": {"type": "free"}} for _ in case["clamps"][:2]]
        case["premin"] = True
    return case


ROWS_3D = [(3, 1, 1), (4, 1, 1), (1, 3, 1), (1, 1, 3), (1, 4, 1)]
ROWS_2D = [[3, 1], [4, 1], [1, 3], [1, 4]]


@st.composite
def far_follower_case(draw, kind: str):
    """a row of 3-4 cells, leader in the first layer of points, (first) follower in the last one"""
    if kind == "mesh":
        case = draw(mesh_case(links=True, dims_pool=ROWS_3D))
    else:
        case = draw(sketch_case(links=True, rows=True))
    case["links"] = case["links"][:2]
    case["far"] = {"lead": draw(st.integers(0, 7)), "follow": draw(st.integers(0, 7))}
    return case


@st.composite
def sketch_case(draw, links: bool = False, fault: bool = False, method: Optional[str] = None, rows: bool = False):
    topo = "grid" if rows else draw(st.sampled_from(["grid", "grid", "disk"]))
    if topo == "grid":
        n = list(draw(st.sampled_from(ROWS_2D))) if rows else [draw(st.integers(2, 3)), draw(st.integers(2, 3))]
        npts = (n[0] + 1) * (n[1] + 1)
        widths = [[draw(st.floats(0.5, 2.0)) for _ in range(n[a])] for a in range(2)]
    else:
        n, npts = [0, 0], 8
        widths = [[draw(st.floats(0.5, 1.0))], [draw(st.floats(1.5, 3.0))]]  # inner / outer half-size
    jitter, mode = _jitter(draw, npts, 2)
    # an exactly rectangular quad in a general plane makes QuadCell.quality take arccos of 1 + 1e-16 and report a
    # degenerate cell, so sketches with unperturbed points are laid in a coordinate plane (exact arithmetic there)
    general = mode == "all"
    sk = {
        "topo": topo,
        "n": n,
        "widths": widths,
        "jitter": jitter,
        "a": draw(xm.vec3) if general else [1.0, 0.0, 0.0],
        "b": draw(xm.vec3) if general else [0.0, 1.0, 0.0],
        "origin": [draw(st.floats(-3.0, 3.0)) for _ in range(3)],
    }
    # the sketch is built, looked at (positions read), and only then moved to its place with the library's transforms
    pose = None
    if draw(st.booleans()):
        pose = {"translate": draw(xm.vec3), "angle": draw(st.floats(-3.0, 3.0)) if general else 0.0, "axis": draw(xm.vec3)}
    return {"kind": "sketch", "sk": sk, "pose": pose, **_run_params(draw, links, fault, method)}


# --------------------------------------------------------------------------------------------------
# model builders (plain JSON -> library objects)


def sketch_geometry(sk):
    """positions (3D, in a general plane), quads and the smallest width"""
    e1, e2, _ = xm.frame(sk["a"], sk["b"])
    o = np.asarray(sk["origin"], float)
    jit = sk["jitter"]
    if sk["topo"] == "grid":
        nx, ny = sk["n"]
        xs = np.concatenate([[0.0], np.cumsum(sk["widths"][0])])
        ys = np.concatenate([[0.0], np.cumsum(sk["widths"][1])])
        amp = [0.2 * min(sk["widths"][0]), 0.2 * min(sk["widths"][1])]
        flat = [(xs[i], ys[j]) for j in range(ny + 1) for i in range(nx + 1)]
        quads = [
            [i + (nx + 1) * j, i + 1 + (nx + 1) * j, i + 1 + (nx + 1) * (j + 1), i + (nx + 1) * (j + 1)]
            for j in range(ny)
            for i in range(nx)
        ]
        size = min(min(sk["widths"][0]), min(sk["widths"][1]))
    else:
        a, b = sk["widths"][0][0], sk["widths"][1][0]
        flat = [(-a, -a), (a, -a), (a, a), (-a, a), (-b, -b), (b, -b), (b, b), (-b, b)]
        quads = [[0, 1, 2, 3], [4, 5, 1, 0], [5, 6, 2, 1], [6, 7, 3, 2], [7, 4, 0, 3]]  # inner points are 3-valent
        amp = [0.2 * min(a, b - a)] * 2
        size = min(a, b - a)
    pts = []
    for k, (x, y) in enumerate(flat):
        x, y = x + amp[0] * jit[2 * k], y + amp[1] * jit[2 * k + 1]
        pts.append(o + x * e1 + y * e2)
    return np.array(pts), quads, size


class Model:
    """one freshly built mesh / sketch with its optimizer"""

    def __init__(self, case):
        import classy_blocks as cb

        self.kind = case["kind"]
        place = case.get("place") or {"dir": [0.0, 0.0, 0.0], "ratio": 0.0}
        if self.kind == "mesh":
            lat = dict(case["lat"])
            extent = max(sum(w) for w in lat["widths"])
            shift = place["ratio"] * extent * xm.unit(xm.fix_vec(place["dir"])) if place["ratio"] else np.zeros(3)
            lat["offset"] = (np.asarray(lat.get("offset") or [0.0] * 3, float) + shift).tolist()
            built = lt.build(lat, with_chops=False)
            self.target = built.mesh
            self.target.assemble()
            self.size = min(min(w) for w in lat["widths"])
            if case.get("premin"):
                self.preminimise(case)
            self.optimizer = cb.MeshOptimizer(self.target, report=False)
            self.topology = "mesh:" + "x".join(map(str, lat["dims"]))
        else:
            pts, quads, self.size = sketch_geometry(case["sk"])
            extent = float(np.max(np.ptp(pts, axis=0)))
            if place["ratio"]:
                pts = pts + place["ratio"] * extent * xm.unit(xm.fix_vec(place["dir"]))
            self.target = cb.MappedSketch(pts, quads)
            self.quads = quads
            pose = case.get("pose")
            if pose:
                _ = self.target.positions  # a user inspecting the sketch before putting it in place
                if pose["angle"]:
                    self.target.rotate(pose["angle"], xm.fix_vec(pose["axis"]), np.average(pts, axis=0))
                self.target.translate(2.0 * self.size * np.asarray(pose["translate"], float))
            self.optimizer = cb.SketchOptimizer(self.target, report=False)
            sk = case["sk"]
            self.topology = "sketch:" + (sk["topo"] if sk["topo"] == "disk" else "x".join(map(str, sk["n"])))
        self.addressing = [list(c.indexes) for c in self.optimizer.grid.cells]
        self.ends = self.end_layers(case) if case.get("far") else None

    def end_layers(self, case):
        """vertex indices of the first and the last layer of points along the longest direction of the lattice"""
        pts = self.positions()
        if self.kind == "mesh":
            widths = case["lat"]["widths"]
            axis = int(np.argmax([len(w) for w in widths]))
            direction = np.eye(3)[axis]
        else:
            widths = case["sk"]["widths"]
            axis = int(np.argmax([len(w) for w in widths]))
            direction = xm.frame(case["sk"]["a"], case["sk"]["b"])[axis]
        x = pts @ direction
        x = x - x.min()  # jitter is <= 0.2 of the smallest width, so half a width separates the layers
        low = [int(i) for i in np.nonzero(x < 0.5 * widths[axis][0])[0]]
        high = [int(i) for i in np.nonzero(x > x.max() - 0.5 * widths[axis][-1])[0]]
        return low, high

    def preminimise(self, case) -> None:
        """moves the vertices that will be clamped to (about) the minimum of the SUMMED quality, with the harness's own
        scipy loop over a grid of its own: the optimizer then starts where only the roll-back keeps it from doing harm
        (it minimises the quality of the cells at the vertex, whose minimum lies elsewhere)"""
        import scipy.optimize
        from classy_blocks.optimize.grid import HexGrid

        points = np.array([np.array(v.position, dtype=float) for v in self.target.vertices])
        grid = HexGrid(points, [list(b.indexes) for b in self.target.blocks])
        clamp_idx, _ = pick_vertices(case, len(points))
        for _sweep in range(2):
            for vi in clamp_idx:
                start = grid.points[vi].copy()

                def summed(x, vi=vi):
                    grid.points[vi] = x
                    try:
                        return float(grid.quality)
                    except ValueError:
                        return 1e30

                best = scipy.optimize.minimize(summed, start, method="Nelder-Mead",
                                               options={"xatol": 1e-7 * self.size, "fatol": 1e-12, "maxfev": 600,
                                                        "initial_simplex": start + 0.05 * self.size * np.vstack([np.zeros(3), np.eye(3)])})
                grid.points[vi] = best.x if best.fun < summed(start) else start
        for vi in clamp_idx:
            self.target.vertices[vi].move_to(grid.points[vi])
        warnings.simplefilter("ignore")

    def positions(self) -> np.ndarray:
        """where the vertices / sketch points really are: read from the mesh vertices, resp. from the faces of the sketch
        through the harness's own quad table (not through sketch.positions, which is library bookkeeping)"""
        if self.kind == "mesh":
            return np.array([np.array(v.position, dtype=float) for v in self.target.vertices])
        out = np.full((1 + max(max(q) for q in self.quads), 3), np.nan)
        for quad, face in zip(self.quads, self.target.faces):
            corners = np.asarray(face.point_array, dtype=float)
            for j, index in enumerate(quad):
                out[index] = corners[j]
        return out

    def shared_points_disagree(self) -> Optional[int]:
        """index of a sketch point that two faces hold at different positions (None: all consistent)"""
        if self.kind == "mesh":
            return None
        seen: Dict[int, np.ndarray] = {}
        for quad, face in zip(self.quads, self.target.faces):
            corners = np.asarray(face.point_array, dtype=float)
            for j, index in enumerate(quad):
                if index in seen and not np.array_equal(seen[index], corners[j]):
                    return int(index)
                seen[index] = corners[j]
        return None

    def live_position(self, i: int):
        """the array the model itself keeps for vertex i (mesh only): what the library's examples pass to clamps"""
        return self.target.vertices[i].position if self.kind == "mesh" else None

    def quality_of(self, points: np.ndarray) -> float:
        """the library's summed measure on a fresh grid"""
        grid = type(self.optimizer.grid)(np.array(points, dtype=float), [list(a) for a in self.addressing])
        return float(grid.quality)


def pick_vertices(case, n: int, ends=None):
    """distinct vertex indices for the clamps and the followers (one per link that still finds a free vertex).
    With case["far"] and the two end layers of a row of cells given, the first clamp sits in the low end layer and the
    first follower in the high one (cells that neither contain the leader nor share a face with one that does)"""
    links = links_of(case)
    far = case.get("far") if ends else None
    used: List[int] = []
    if far:
        used.append(ends[0][far["lead"] % len(ends[0])])
        if links:
            used.append(ends[1][far["follow"] % len(ends[1])])
    fixed = list(used)

    def free_index(v: int) -> int:
        v %= n
        while v in used:
            v = (v + 1) % n
        used.append(v)
        return v

    clamp_idx = [fixed[0] if far and k == 0 else free_index(c["v"]) for k, c in enumerate(case["clamps"][: max(1, n - 1)])]
    followers = []
    for k, ln in enumerate(links):
        if far and k == 0:
            followers.append(fixed[1])
        elif len(used) < n:
            followers.append(free_index(ln["f"]))
    return clamp_idx, followers


def links_of(case) -> List[Dict[str, Any]]:
    """link specs of a case ("link": one spec is the older form kept for committed regression files)"""
    if case.get("links"):
        return list(case["links"])
    return [case["link"]] if case.get("link") else []


def link_geometry(link, leader: np.ndarray, follower: np.ndarray, size: float):
    """absolute link spec (axis / normal / origin) and, for a coaxial rotation link, the leader's radial clamp spec"""
    if link["type"] == "translation":
        return {"type": "translation"}, None
    if link["type"] == "symmetry":
        d = follower - leader
        n = d / np.linalg.norm(d)
        w = xm.fix_vec(link["inplane"])
        w = w - (w @ n) * n  # origin anywhere in the bisector plane
        return {"type": "symmetry", "normal": (n * link["nlen"]).tolist(),
                "origin": (0.5 * (leader + follower) + size * w).tolist()}, None
    e1, e2, _ = xm.frame(link["axis"], link["cdir"])
    origin = leader - link["r"] * size * e2 - link["h"] * size * e1
    spec = {"type": "rotation", "axis": (e1 * link["nlen"]).tolist(), "origin": origin.tolist()}
    radial = None
    if link["coaxial"]:
        radial = {"type": "radial", "normal": link["axis"], "cdir": link["cdir"], "nlen": link["nlen"], "r": link["r"],
                  "h": link["h"], "bounded": link["bounded"], "lo": link["lo"], "hi": link["hi"]}
    return spec, radial


# --------------------------------------------------------------------------------------------------
# instrumentation inside the harness process (no repository change)


class Probe:
    """counts cell-quality evaluations while armed, raises ValueError('Degenerate Cell') at the k-th one (one-shot),
    counts rollbacks / skips, snapshots the grid around every optimize_clamp call"""

    def __init__(self, fault_at: Optional[int]):
        self.fault_at = fault_at
        self.evaluations = 0
        self.armed = False
        self.fired = False
        self.fired_step: Optional[int] = None
        self.step: Optional[int] = None
        self.steps: List[Any] = []
        self.rollbacks = 0
        self.skips = 0
        self._undo: List[Any] = []

    def install(self, optimizer) -> None:
        from classy_blocks.optimize import iteration
        from classy_blocks.optimize.cell import CellBase

        original = CellBase.__dict__["quality"]
        probe = self

        def quality(cell):
            if probe.armed:
                probe.evaluations += 1
                if probe.evaluations == probe.fault_at:
                    probe.fired = True
                    probe.fired_step = probe.step
                    raise ValueError("Degenerate Cell: injected by the harness")
            return original.fget(cell)

        CellBase.quality = property(quality)
        self._undo.append(lambda: setattr(CellBase, "quality", original))

        data = getattr(iteration, "ClampOptimizationData", None)
        for name, counter in (("rollback", "rollbacks"), ("skip", "skips")):
            if data is not None and hasattr(data, name):
                orig = getattr(data, name)

                def wrapped(this, _orig=orig, _counter=counter):
                    setattr(probe, _counter, getattr(probe, _counter) + 1)
                    return _orig(this)

                setattr(data, name, wrapped)
                self._undo.append(lambda _n=name, _o=orig: setattr(data, _n, _o))

        inner = optimizer.optimize_clamp

        def optimize_clamp(clamp, method):
            probe.step = len(probe.steps)
            before = np.array(optimizer.grid.points, dtype=float)
            try:
                return inner(clamp, method)
            finally:
                probe.steps.append((before, np.array(optimizer.grid.points, dtype=float)))
                probe.step = None

        optimizer.optimize_clamp = optimize_clamp

    def remove(self) -> None:
        for undo in reversed(self._undo):
            undo()
        self._undo = []


# --------------------------------------------------------------------------------------------------
# one optimizer run + all oracles


def run_and_check(case, ctx: Ctx, fault_at: Optional[int]) -> Probe:
    np.random.seed(20241003)  # PlaneClamp draws its in-plane axes from numpy's global RNG: same for both fault runs
    model = Model(case)
    size = model.size
    opt = model.optimizer
    before = model.positions()
    n = len(before)
    clamp_idx, follower_idx = pick_vertices(case, n, model.ends)
    facts: Dict[str, Any] = {"target": model.kind, "topology": model.topology, "method": case["method"],
                             "iters": case["iters"], "fault": fault_at is not None}

    coord_noise = 100 * EPS * float(np.max(np.abs(before)))  # float64 resolution of the coordinates themselves

    # --- links first (the first coaxial rotation link replaces the leader's manifold by a circle about its axis)
    leader_idx = clamp_idx[0]
    links_abs: List[Dict[str, Any]] = []
    specs = [c["m"] for c in case["clamps"][: len(clamp_idx)]]
    for spec, fi in zip(links_of(case), follower_idx):
        absolute, radial = link_geometry(spec, before[leader_idx], before[fi], size)
        if radial is not None and specs[0].get("coaxial_with") is None:
            specs[0] = dict(radial, coaxial_with=len(links_abs))
        links_abs.append(absolute)
    facts["links"] = [ln["type"] for ln in links_abs]

    # --- clamps
    manifolds, clamps, attached = [], [], []
    for k, (vi, spec) in enumerate(zip(clamp_idx, specs)):
        live = None
        if spec["type"] == "line" and spec.get("through") is not None:
            # LineClamp(v.position, v.position, w.position): w is the next clamped vertex if there is one (it moves too)
            others = [c for c in clamp_idx if c != vi]
            wi = others[k % len(others)] if others else [i for i in range(n) if i != vi][spec["through"] % (n - 1)]
            spec = dict(spec, _p2=before[wi].tolist())
            if model.live_position(vi) is not None:
                live = (model.live_position(vi), model.live_position(wi))
            ctx.label("line-through-vertices")
        man = xm.build(spec, before[vi], size)
        try:
            if live is not None:
                clamp = man.make_clamp(live[0], ends=live)
            else:
                clamp = man.make_clamp(np.array(before[vi]))
        except Exception as ex:
            raise Violation("setup-raised", f"{spec['type']} clamp at a vertex raised {type(ex).__name__}: {ex}",
                            clamp=spec["type"], **facts) from None
        snap = float(np.linalg.norm(np.asarray(clamp.position, float) - before[vi]))
        manifolds.append(man)
        clamps.append(clamp)
        attached.append(snap < 0.5 * LIB_TOL)  # margin: add_clamp itself decides at LIB_TOL
    facts["clamps"] = sorted(m.kind + ("+b" if m.bounded else "") for m in manifolds)

    snapped = before.copy()
    for vi, clamp, ok in zip(clamp_idx, clamps, attached):
        if not ok:
            ctx.label("clamp-not-attachable")
            continue
        try:
            opt.add_clamp(clamp)
        except Exception as ex:
            raise Violation("setup-raised", f"add_clamp raised {type(ex).__name__}: {ex}", **facts) from None
        snapped[vi] = np.asarray(clamp.position, float)
    for absolute, fi in zip(links_abs, follower_idx):
        try:
            opt.add_link(xm.make_link(absolute, np.array(before[leader_idx]), np.array(before[fi])))
        except Exception as ex:
            raise Violation("setup-raised", f"{absolute['type']} link raised {type(ex).__name__}: {ex}", **facts) from None
        if attached[0]:
            # where the library's own link puts the follower for the snapped leader (bit-exact state the optimizer can
            # return to; the relation itself is judged against the independent reference further down)
            twin = xm.make_link(absolute, np.array(before[leader_idx]), np.array(before[fi]))
            twin.leader = np.array(snapped[leader_idx])
            twin.update()
            snapped[fi] = np.asarray(twin.follower, dtype=float)

    try:
        q_before = model.quality_of(before)
        q_snapped = model.quality_of(snapped)
        # RotationLink measures the leader's turn with arccos: resolution ~2e-8 rad even for an unmoved leader, so the
        # state the optimizer can return to is defined up to that turn of each such follower (first-order sum)
        noise = 0.0
        for absolute, fi in zip(links_abs, follower_idx):
            if absolute["type"] == "rotation" and attached[0]:
                worst = 0.0
                for turn in (ROT_NOISE, -ROT_NOISE):
                    state = snapped.copy()
                    o = np.asarray(absolute["origin"], float)
                    state[fi] = o + apply(m_rotate(turn, absolute["axis"], np.zeros(3)), snapped[fi] - o)
                    worst = max(worst, model.quality_of(state) - q_snapped)
                noise += worst
        q_snapped += noise
    except ValueError:
        ctx.label("degenerate-input")
        return Probe(None)

    # --- run
    probe = Probe(fault_at)
    probe.install(opt)
    raised: Optional[BaseException] = None
    runs = int(case.get("runs", 1))
    start_of_run = before
    try:
        probe.armed = True
        with contextlib.redirect_stdout(io.StringIO()):
            for run in range(runs):
                start_of_run = before if run == 0 else model.positions()
                opt.optimize(max_iterations=case["iters"], tolerance=case["tolerance"], method=case["method"])
    except Exception as ex:  # judged below
        raised = ex
    finally:
        probe.armed = False
        probe.remove()
        warnings.simplefilter("ignore")  # CellBase.quality resets the warning filters

    after = model.positions()
    facts["fired"] = probe.fired

    # --- an optimisation that meets a degenerate cell is rolled back, not left half-applied
    if raised is not None:
        degenerate = isinstance(raised, ValueError) and "Degenerate" in str(raised)
        if not degenerate:
            raise Violation("optimize-raised", f"optimize() raised {type(raised).__name__}: {raised}",
                            error=type(raised).__name__, invalid_curve_parameter="Invalid parameter" in str(raised),
                            **facts)
        if not np.array_equal(after, start_of_run):  # untouched by the call that raised
            moved = [int(i) for i in np.nonzero(np.any(after != start_of_run, axis=1))[0]]
            raise Violation("half-applied-after-raise", f"optimize() raised '{raised}' but vertices {moved} have moved",
                            moved=moved, **facts)
        ctx.nt(True)
        ctx.label("raised-degenerate", "fault-outside-step" if probe.fired else "natural-degenerate")
        return probe
    if probe.fired and probe.fired_step is not None:
        b, a = probe.steps[probe.fired_step]
        dev = float(np.max(np.abs(a - b)))
        if not dev <= TOL_COPY * size:
            raise Violation("fault-not-rolled-back", f"degenerate cell met in optimisation step {probe.fired_step}: the "
                            f"grid differs by {dev:.3g} from its state before that step", deviation=dev, **facts)

    bad = model.shared_points_disagree()
    if bad is not None:
        raise Violation("backport", f"two faces of the sketch hold point {bad} at different positions", vertices=[bad], **facts)

    # --- mesh vertices / sketch positions equal the optimizer's final grid points
    gp = np.array(opt.grid.points, dtype=float)
    if gp.shape != after.shape or not float(np.max(np.abs(gp - after))) <= TOL_COPY * size:
        bad = [int(i) for i in np.nonzero(np.any(np.abs(gp - after) > TOL_COPY * size, axis=1))[0]]
        raise Violation("backport", f"vertices {bad} differ from the optimizer's final grid points", vertices=bad, **facts)

    # --- vertices without clamp or link do not move at all
    movable = {vi for vi, ok in zip(clamp_idx, attached) if ok}
    if attached[0]:
        movable.update(follower_idx)
    for i in range(n):
        if i not in movable and not np.array_equal(after[i], before[i]):
            raise Violation("unclamped-moved", f"vertex {i} has no clamp or link but moved from {before[i].tolist()} to "
                            f"{after[i].tolist()}", vertex=i, **facts)

    # --- clamped vertices on their manifold, inside bounds
    moved_any = False
    for vi, man, ok in zip(clamp_idx, manifolds, attached):
        if not ok:
            continue
        x = after[vi]
        f = dict(facts, clamp=man.kind, bounded=bool(man.bounded), vertex=vi)
        res = man.residual(x)
        if not res <= TOL_MANIFOLD * size + coord_noise:
            raise Violation("off-manifold", f"vertex {vi} ({man.kind} clamp) ends {res:.3g} off its manifold at "
                            f"{x.tolist()}", residual=res / size, **f)
        exc = man.bounds_excess(x)
        if not exc <= TOL_BOUNDS * size + coord_noise:
            raise Violation("outside-bounds", f"vertex {vi} ({man.kind} clamp) ends {exc:.3g} outside its bounds at "
                            f"{x.tolist()}", excess=exc / size, **f)
        if float(np.linalg.norm(x - before[vi])) > 1e-6 * size:
            moved_any = True
            ctx.label("moved:" + man.kind)
            if man.bounded and _at_bound(man, x, size):
                ctx.label("ends-at-bound")

    # --- every linked vertex keeps its relation to the leader
    for k, (absolute, fi) in enumerate(zip(links_abs, follower_idx)):
        want = xm.expected_follower(absolute, before[leader_idx], before[fi], after[leader_idx])
        if want is None:
            ctx.label("relation-undefined")
            continue
        scale = size + float(np.linalg.norm(before[fi] - before[leader_idx]))
        if absolute["type"] == "rotation":
            tol = TOL_ROT * (scale + float(np.linalg.norm(before[fi] - np.asarray(absolute["origin"])))) + coord_noise
        else:
            tol = TOL_LINK * (scale + float(np.linalg.norm(after[leader_idx] - before[leader_idx]))) + coord_noise
        err = float(np.linalg.norm(after[fi] - want))
        if not err <= tol:
            raise Violation("link-relation", f"{absolute['type']} link {k + 1} of {len(links_abs)}: leader {leader_idx} at "
                            f"{after[leader_idx].tolist()}, follower {fi} at {after[fi].tolist()}, expected "
                            f"{want.tolist()}", error=err / size, link_no=k, nlinks=len(links_abs), **facts)
        if float(np.linalg.norm(after[fi] - before[fi])) > 1e-6 * size:
            ctx.label("follower-moved:" + absolute["type"])
    if links_abs:
        ctx.label(f"links-per-leader={len(links_abs)}")
        if len({ln["type"] for ln in links_abs}) > 1:
            ctx.label("mixed-link-types")

    # --- summed quality no worse than before
    try:
        q_after = model.quality_of(after)
    except ValueError as ex:
        raise Violation("degenerate-after", f"a cell is degenerate after optimisation: {ex}", **facts) from None
    q_ref = max(q_before, q_snapped)
    if not q_after <= q_ref * (1 + TOL_Q) + 1e-12:
        raise Violation("quality-worse", f"summed quality {q_before!r} (clamps snapped: {q_snapped!r}) -> {q_after!r}",
                        q_before=q_before, q_after=q_after, worse_rel=(q_after - q_ref) / q_ref, **facts)

    ctx.nt(moved_any or probe.rollbacks > 0 or probe.skips > 0 or probe.fired)
    ctx.label("method=" + case["method"], f"iters={case['iters']}")
    ctx.label("placed-at=%g" % (case.get("place") or {}).get("ratio", 0.0), f"optimize-calls={runs}")
    if case.get("pose"):
        ctx.label("sketch-transformed-after-reading")
    if case.get("premin"):
        ctx.label("starts-near-minimum")
    if probe.rollbacks:
        ctx.label("rollback")
    if probe.skips:
        ctx.label("skip")
    if q_after < q_before * (1 - 1e-6):
        ctx.label("improved")
    if moved_any and 0 in movable and not np.array_equal(after[0], before[0]):
        ctx.label("vertex0-moved")
    ctx.key = [model.topology, facts["clamps"], facts["links"], case["method"], case["iters"], fault_at is not None]
    return probe


def _at_bound(man: xm.Manifold, x: np.ndarray, size: float) -> bool:
    """x within 1e-4 width of the edge of the bounded manifold (label only)"""
    box = man.param_box()
    if box is None:
        return False
    if man.kind in ("line", "radial"):
        t = man.param(x)
        return min(abs(t - box[0][0]), abs(t - box[0][1])) < 1e-4 * size
    if man.kind == "curve":
        t = man._local(x)[0]
        return min(abs(t - box[0][0]), abs(t - box[0][1])) < 1e-4
    if man.kind == "surface":
        u, v, _ = man._local(x)
        return min(abs(u - box[0][0]), abs(u - box[0][1]), abs(v - box[1][0]), abs(v - box[1][1])) < 1e-4
    return False


def check_run(case, ctx: Ctx) -> None:
    run_and_check(case, ctx, None)


def check_fault(case, ctx: Ctx) -> None:
    dry = run_and_check(case, Ctx(), None)  # also a full check of the undisturbed run; counts the evaluations
    if dry.evaluations == 0:
        ctx.label("nothing-to-disturb")
        return
    k = 1 + int(case["fault"] * dry.evaluations)
    probe = run_and_check(case, ctx, min(k, dry.evaluations))
    if not probe.fired:
        # Junction.cells is a set of address-hashed objects: the summation order, hence the last bits and the number
        # of evaluations, may differ between two builds.  Not reaching evaluation k is inconclusive, not a verdict.
        ctx.label("fault-not-reached")
        return
    ctx.label("fault-in-step" if probe.fired_step is not None else "fault-between-steps")


# --------------------------------------------------------------------------------------------------
# fixed cases: each mechanism of the statement is exercised for every seed


def _lat(dims, jitter_nodes: Dict[int, List[float]], orient=None, widths=None):
    nn = (dims[0] + 1) * (dims[1] + 1) * (dims[2] + 1)
    jit = [0.0] * (3 * nn)
    for k, v in jitter_nodes.items():
        jit[3 * k: 3 * k + 3] = v
    nc = dims[0] * dims[1] * dims[2]
    return {"dims": list(dims), "widths": widths or [[1.0] * dims[0], [1.0] * dims[1], [1.0] * dims[2]], "jitter": jit,
            "cells": list(range(nc)), "orient": orient or [0] * nc, "offset": [0.3, -0.2, 0.1], "chops": []}


def _case(kind, body, clamps, method, iters=2, link=None, fault=None, links=None):
    key = "lat" if kind == "mesh" else "sk"
    return {"kind": kind, key: body, "clamps": clamps, "links": links or ([link] if link else []), "method": method,
            "iters": iters,
            "tolerance": 0.1, "fault": fault}


_FREE = {"type": "free"}
_LINE_TIGHT = {"type": "line", "dir": [1.0, 0.2, 0.1], "len": 2.0, "bounded": True, "t0f": 0.5, "t0": 0.7, "lo": 0.02,
               "hi": 0.03}
_RADIAL_TIGHT = {"type": "radial", "normal": [0.1, 0.2, 1.0], "cdir": [1.0, 0.3, 0.0], "nlen": 2.0, "r": 1.5, "h": 0.4,
                 "bounded": True, "lo": 0.02, "hi": 0.02}
_SURF_TIGHT = {"type": "surface", "a": [1.0, 0.1, 0.0], "b": [0.0, 1.0, 0.2], "c": 0.2, "uv0": [0.3, -0.2],
               "bounded": True, "hint": True, "lo": [0.02, 0.03], "hi": [0.03, 0.02]}
# every node displaced differently (a common displacement would leave the lattice regular)
_ALL = {k: [((7 * k + 3) % 11) / 5.0 - 1.0, ((5 * k + 1) % 13) / 6.0 - 1.0, ((3 * k + 8) % 7) / 3.0 - 1.0] for k in range(12)}

FIXED_MESH = [
    # vertex 0 (a jittered corner) free: must move, and be copied back
    _case("mesh", _lat((2, 1, 1), _ALL), [{"v": 0, "m": _FREE}], "SLSQP"),
    # regular lattice: every probe is worse than the start, every step is rolled back
    _case("mesh", _lat((2, 2, 1), {}), [{"v": 0, "m": _FREE}, {"v": 4, "m": _FREE}], "Nelder-Mead", iters=1),
    _case("mesh", _lat((2, 1, 1), {}), [{"v": 1, "m": _FREE}], "Powell", iters=1),
    # tight bounds with the optimum outside
    _case("mesh", _lat((2, 1, 1), _ALL), [{"v": 1, "m": _LINE_TIGHT}, {"v": 2, "m": _RADIAL_TIGHT}], "L-BFGS-B"),
    _case("mesh", _lat((2, 1, 1), _ALL), [{"v": 1, "m": _SURF_TIGHT}, {"v": 5, "m": _LINE_TIGHT}], "SLSQP"),
]
FIXED_MESH_LINKS = [
    _case("mesh", _lat((2, 1, 1), _ALL), [{"v": 0, "m": _FREE}], "SLSQP", link={"f": 5, "type": "translation"}),
    _case("mesh", _lat((2, 1, 1), _ALL), [{"v": 1, "m": _FREE}], "L-BFGS-B",
          link={"f": 7, "type": "symmetry", "nlen": 2.0, "inplane": [0.3, 0.1, -0.2]}),
    _case("mesh", _lat((2, 1, 1), _ALL), [{"v": 1, "m": _FREE}], "SLSQP",
          link={"f": 6, "type": "rotation", "coaxial": True, "axis": [0.2, 0.1, 1.0], "cdir": [1.0, 0.5, 0.0], "nlen": 3.0,
                "r": 2.0, "h": 0.5, "bounded": False, "lo": 0.1, "hi": 0.1}),
]
_L_TRANS = {"type": "translation"}
_L_SYM = {"type": "symmetry", "nlen": 2.0, "inplane": [0.3, 0.1, -0.2]}
_L_ROT = {"type": "rotation", "coaxial": False, "axis": [0.2, 0.1, 1.0], "cdir": [1.0, 0.5, 0.0], "nlen": 3.0, "r": 2.0,
          "h": 0.5, "bounded": False, "lo": 0.1, "hi": 0.1}
# several links on one leader, mixed types, different orders: every follower must be written, not only the last
FIXED_MESH_LINKS += [
    _case("mesh", _lat((2, 1, 1), _ALL), [{"v": 1, "m": _FREE}], "SLSQP",
          links=[dict(_L_TRANS, f=5), dict(_L_SYM, f=7), dict(_L_ROT, f=9)]),
    _case("mesh", _lat((2, 1, 1), _ALL), [{"v": 0, "m": _FREE}], "L-BFGS-B", iters=1,
          links=[dict(_L_ROT, f=6), dict(_L_TRANS, f=3)]),
]
_SK = {"topo": "grid", "n": [2, 2], "widths": [[1.0, 1.0], [1.0, 1.0]],
       "jitter": [0.9, -0.8, -0.5, 0.7, 0.3, 0.9, -0.9, 0.2, 0.8, 0.6, 0.4, -0.7, 0.1, -0.9, -0.6, 0.5, 1.0, -0.3],
       "a": [1.0, 0.3, 0.2], "b": [-0.2, 1.0, 0.4], "origin": [0.5, -1.0, 2.0]}
_SK_REGULAR = dict(_SK, jitter=[0.0] * 18, a=[1.0, 0.0, 0.0], b=[0.0, 1.0, 0.0])
FIXED_SKETCH = [
    _case("sketch", _SK, [{"v": 0, "m": _FREE}, {"v": 4, "m": _FREE}], "SLSQP"),
    _case("sketch", _SK_REGULAR, [{"v": 4, "m": _FREE}], "Nelder-Mead", iters=1),
    _case("sketch", _SK, [{"v": 4, "m": _LINE_TIGHT}, {"v": 1, "m": _SURF_TIGHT}], "L-BFGS-B"),
    _case("sketch", _SK, [{"v": 0, "m": _RADIAL_TIGHT}, {"v": 4, "m": _FREE}], "Powell", iters=1),
]
FIXED_SKETCH_LINKS = [
    _case("sketch", _SK, [{"v": 4, "m": _FREE}], "SLSQP", link={"f": 0, "type": "translation"}),
    _case("sketch", _SK, [{"v": 0, "m": _FREE}], "L-BFGS-B",
          link={"f": 8, "type": "symmetry", "nlen": 0.5, "inplane": [0.1, 0.2, 0.3]}),
]
FIXED_SKETCH_LINKS += [
    _case("sketch", _SK, [{"v": 4, "m": _FREE}], "SLSQP", links=[dict(_L_TRANS, f=0), dict(_L_SYM, f=8)]),
    _case("sketch", _SK, [{"v": 0, "m": _FREE}], "Powell", iters=1,
          links=[dict(_L_SYM, f=2), dict(_L_ROT, f=6), dict(_L_TRANS, f=8)]),
]
# far from the origin: vertex spacing / coordinate ~ 1e-7; the clamp is not on the lowest-numbered vertex
_FAR = {"dir": [0.5, -0.7, 0.4], "ratio": 2e6}
FIXED_MESH += [
    dict(_case("mesh", _lat((2, 1, 1), _ALL), [{"v": 5, "m": _FREE}, {"v": 9, "m": _LINE_TIGHT}], "SLSQP"), place=_FAR),
    dict(_case("mesh", _lat((2, 1, 1), _ALL), [{"v": 7, "m": _FREE}], "L-BFGS-B", iters=1),
         place={"dir": [-0.3, 0.6, 0.8], "ratio": 1e5}),
]
FIXED_SKETCH += [
    dict(_case("sketch", _SK, [{"v": 4, "m": _FREE}, {"v": 8, "m": _FREE}], "SLSQP"), place=_FAR),
]
FIXED_MESH_LINKS += [
    dict(_case("mesh", _lat((2, 1, 1), _ALL), [{"v": 3, "m": _FREE}], "SLSQP",
               links=[dict(_L_SYM, f=7), dict(_L_ROT, f=9), dict(_L_TRANS, f=5)]), place=_FAR),
]
FIXED_NEAR_MINIMUM = [
    dict(_case("mesh", _lat((3, 1, 1), {k: [0.9, -0.7, 0.8] if k % 2 else [-0.6, 0.8, -0.9] for k in range(16)}),
               [{"v": 0, "m": _FREE}, {"v": 5, "m": _FREE}], "SLSQP"), premin=True),
]
# regular row, one neighbour of the leader displaced: the leader's move repairs the first cell a little while the same
# move of the follower spoils the (perfect) last cell more - the step must be rolled back
_J3 = {1: [0.0, 0.0, 1.0]}
FIXED_FAR_MESH = [
    dict(_case("mesh", _lat((3, 1, 1), _J3), [{"v": 0, "m": _FREE}], m, iters=1, links=[dict(_L_TRANS, f=0)]),
         far={"lead": 0, "follow": 0})
    for m in ("SLSQP", "Nelder-Mead")
]
_SK3 = {"topo": "grid", "n": [3, 1], "widths": [[1.0, 1.0, 1.0], [1.0]],
        "jitter": [0.0, 0.0, 0.0, 1.0] + [0.0] * 12, "a": [1.0, 0.0, 0.0], "b": [0.0, 1.0, 0.0],
        "origin": [0.5, -1.0, 2.0]}
FIXED_FAR_SKETCH = [
    dict(_case("sketch", _SK3, [{"v": 0, "m": _FREE}], m, iters=1, links=[dict(_L_TRANS, f=0)]),
         far={"lead": 0, "follow": 0})
    for m in ("SLSQP", "Powell")
]
# the idiom of the library's examples: LineClamp(v.position, v.position, w.position) with w clamped as well, and a
# coarse pass followed by a finishing pass on the same optimizer
_LINE_THROUGH = dict(_LINE_TIGHT, through=0, bounded=False)
FIXED_MESH += [
    dict(_case("mesh", _lat((2, 1, 1), _ALL), [{"v": 1, "m": dict(_LINE_THROUGH, bounded=True, lo=0.12, hi=0.12)},
                                               {"v": 5, "m": _FREE}], "SLSQP", iters=1), runs=2),
    dict(_case("mesh", _lat((2, 1, 1), _ALL), [{"v": 6, "m": dict(_LINE_THROUGH, bounded=True, lo=0.1, hi=0.1)},
                                               {"v": 2, "m": _FREE}], "L-BFGS-B", iters=1), runs=2),
]
# a sketch that is read, then rotated and translated to its place, then optimised
FIXED_SKETCH += [
    dict(_case("sketch", _SK, [{"v": 4, "m": _FREE}], "SLSQP"),
         pose={"translate": [0.8, -0.5, 0.3], "angle": 0.7, "axis": [0.2, -0.3, 0.9]}),
]
FIXED_FAULT_MESH = [
    dict(_case("mesh", _lat((2, 1, 1), _ALL), [{"v": 0, "m": _FREE}, {"v": 1, "m": _FREE}], "SLSQP"), fault=f)
    for f in (0.0, 0.45, 0.8)
]
FIXED_FAULT_SKETCH = [
    dict(_case("sketch", _SK, [{"v": 4, "m": _FREE}, {"v": 0, "m": _FREE}], "SLSQP"), fault=f) for f in (0.3, 0.7)
]

CELLS = []
for _m in METHODS:
    CELLS.append(Cell(f"C13/mesh/clamps/{_m}", mesh_case(method=_m), check_run, 7, 100,
                      f"MeshOptimizer, method {_m}, 1-3 clamps of any type, no links: quality, immobility, manifold, "
                      "bounds, backport", [c for c in FIXED_MESH if c["method"] == _m]))
    CELLS.append(Cell(f"C13/sketch/clamps/{_m}", sketch_case(method=_m), check_run, 6, 90,
                      f"SketchOptimizer, method {_m}, grids and a disk map, 1-3 clamps of any type",
                      [c for c in FIXED_SKETCH if c["method"] == _m]))
CELLS += [
    Cell("C13/mesh/links", mesh_case(links=True), check_run, 10, 250,
         "MeshOptimizer with one Translation / Rotation / Symmetry link from the first clamped vertex", FIXED_MESH_LINKS),
    Cell("C13/sketch/links", sketch_case(links=True), check_run, 8, 200,
         "SketchOptimizer with one link", FIXED_SKETCH_LINKS),
    Cell("C13/mesh/near-minimum", mesh_case(premin=True, dims_pool=DIMS_ROW), check_run, 3, 80,
         "1-2 free clamps on vertices that the harness first moves to the minimum of the summed quality (own Nelder-Mead "
         "on an own grid): the optimizer minimises the cells at the vertex only, so every step that is kept must have "
         "passed the whole-grid comparison", FIXED_NEAR_MINIMUM),
    Cell("C13/mesh/far-follower", far_follower_case("mesh"), check_run, 4, 120,
         "row of 3-4 hexahedra, leader in the first layer of vertices, first follower in the last one (cells that neither "
         "contain the leader nor share a face with a cell that does)", FIXED_FAR_MESH),
    Cell("C13/sketch/far-follower", far_follower_case("sketch"), check_run, 4, 120,
         "the same on 3x1 / 4x1 sketches", FIXED_FAR_SKETCH),
    Cell("C13/mesh/fault", mesh_case(links=False, fault=True, dims_pool=DIMS_SMALL), check_fault, 5, 150,
         "dry run + run with ValueError('Degenerate Cell') at a drawn cell-quality evaluation: handled inside a step "
         "(grid restored) or raised with the mesh untouched", FIXED_FAULT_MESH),
    Cell("C13/sketch/fault", sketch_case(links=True, fault=True), check_fault, 5, 150,
         "the same for sketches, with a link", FIXED_FAULT_SKETCH),
]
