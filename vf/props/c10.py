"""C10 — face re-indexing and side/edge/corner addressing hit the intended geometry (DESIGN.md section 4, C10)."""

from __future__ import annotations

import math
import os

# single-threaded BLAS: scipy.linalg.expm inside the library spins on a shared machine (performance only)
for _v in ("OPENBLAS_NUM_THREADS", "OMP_NUM_THREADS", "MKL_NUM_THREADS"):
    os.environ.setdefault(_v, "1")

import warnings
from typing import Any, Dict, List

import numpy as np
from hypothesis import strategies as st

from vf import lattice as lt
from vf.core import Cell, Ctx, Violation
from vf.foamdict import FoamParseError
from vf.refmodel import HEX_EDGES, HEX_SIDES, rodrigues

warnings.simplefilter("ignore")

import classy_blocks as cb  # noqa: E402
from classy_blocks.construct import edges as cbe  # noqa: E402

RULE = (
    "face cells: a quadrilateral in general position (jittered, slightly non-planar affine image of the unit square, "
    "rotated and translated) with four edges of four different kinds gets a history of <= 4 (thorough: 6) calls of "
    "shift(k), invert(), reorient(p); p lies near a chosen corner (nearest closer than the second by a factor >= 2.3) "
    "or is free (asserted only with a margin >= 10 %). Non-trivial: a shift by an odd count, an invert, or a reorient "
    "whose target sits at index 1 or 3 at the time of the call. op cells: the target is one Loft of a 1-3 block "
    "jittered lattice assembly (24 numberings); addressing calls are applied to it, the mesh is written, the file is "
    "parsed by the independent reader and every patch / projected face / project or curved edge / projected vertex is "
    "compared with a model that uses the OpenFOAM user-guide numbering (refmodel.HEX_SIDES / HEX_EDGES) on the "
    "target's hex entry. Non-trivial: a side other than top/bottom, an edge other than 0-1, a corner other than 0. "
    "distinct = distinct generated case."
)
ASSUMPTIONS = [
    "corner c of a block 'in the blockMesh convention' is the c-th label of its hex entry in the written file; the "
    "vertex printed under that label lies at the c-th point the operation was built from (checked, 1e-6 absolute: "
    "8 printed decimals, coordinates < 100)",
    "a side is identified by its four corner numbers as a set; additionally its written quad must list them in cyclic "
    "order (either sense), because a quad in crossed order is not that side",
    "positions are compared with 1e-9 absolute (permutations must not change coordinates at all); normals with 1e-9 "
    "(faces of size 1, 1e-2, 2e-3, 1e-3 with point distances >= 1e-4; warped up to 0.15 of the size, planar, or planar "
    "with one reflex corner; measured rounding of the unit normal <= 1e-12)",
    "reorient: the nearest corner is asserted when it wins by 10 %, or by >= 1 % of the face size when that gap is also "
    ">= 1e4 * eps * distance (reference positions 1e3..1e6 face sizes away); otherwise the call is only counted",
    "edges are identified by their kind (four different kinds per face), so an implementation may copy edge objects",
    "addressing histories never assign two patches or two projections to one side and never put more than two "
    "projection labels on one edge (that is C20's business); a curved edge replaces what was on the edge before, a "
    "projection of a projected edge adds a label (docstrings of Face.add_edge / Operation.project_edge)",
    "edge entries are compared as unordered vertex pairs; their direction belongs to C07",
]

SIDES = ["bottom", "top", "left", "right", "front", "back"]
POS_TOL = 1e-9
FILE_TOL = 1e-6


# --------------------------------------------------------------------------------------------------
# geometry helpers (harness side)


def newell_normal(p: np.ndarray) -> np.ndarray:
    n = np.zeros(3)
    for i in range(len(p)):
        a, b = p[i], p[(i + 1) % len(p)]
        n += np.cross(a, b)
    return n / np.linalg.norm(n)


def quad_points(case) -> np.ndarray:
    """general-position quadrilateral from the case parameters.
    shape: warped (corners up to 0.15 of the size off the plane) | planar | concave (planar, one reflex corner);
    scale: model size in metres (1, 1e-2, 2e-3, 1e-3: point distances stay >= 1e-4 = 1000 x TOL)"""
    base = np.array([[0, 0, 0], [1, 0, 0], [1, 1, 0], [0, 1, 0]], dtype=float)
    base[:, 0] *= case["sx"]
    base[:, 1] *= case["sy"]
    jit = np.array(case["jit"], dtype=float).reshape(4, 3)
    m = min(case["sx"], case["sy"])
    shape = case.get("shape", "warped")
    base = base + jit * np.array([0.2 * m, 0.2 * m, 0.15 * m if shape == "warped" else 0.0])
    if shape == "concave":
        k = case.get("reflex", 0)
        base[k] = base[k] + 0.7 * (base[(k + 2) % 4] - base[k])  # past the diagonal of the two neighbours
    scale = case.get("scale", 1.0)
    R = rodrigues(_axis(case["axis"]), case["angle"])
    return (base * scale) @ R.T + np.array(case["origin"], dtype=float) * min(1.0, 100 * scale)


def _axis(v) -> np.ndarray:
    v = np.asarray(v, dtype=float)
    if np.linalg.norm(v) < 1e-3:
        return np.array([0.0, 0.0, 1.0])
    return v


EDGE_KINDS = ["line", "arc", "origin", "angle", "spline", "polyLine", "project"]


def make_edge(kind: str, a: np.ndarray, b: np.ndarray):
    mid = 0.5 * (a + b)
    off = np.array([0.013, -0.021, 0.17]) * np.linalg.norm(b - a)
    if kind == "line":
        return None
    if kind == "arc":
        return cbe.Arc(mid + off)
    if kind == "origin":
        return cbe.Origin(mid - 3 * off)
    if kind == "angle":
        return cbe.Angle(0.7, [0.1, 0.2, 1.0])
    if kind == "spline":
        return cbe.Spline([a + 0.3 * (b - a) + off, a + 0.7 * (b - a) + off])
    if kind == "polyLine":
        return cbe.PolyLine([a + 0.4 * (b - a) + off, a + 0.6 * (b - a) - off])
    if kind == "project":
        return cbe.Project("terrain")
    raise AssertionError(kind)


# --------------------------------------------------------------------------------------------------
# face cells

_unit3 = st.tuples(st.floats(-1, 1), st.floats(-1, 1), st.floats(-1, 1)).map(list)


# strategies are built once (building them inside a composite dominates the run time)
face_geometry = st.fixed_dictionaries({
    "sx": st.floats(0.5, 2.0),
    "sy": st.floats(0.5, 2.0),
    "jit": st.lists(st.floats(-1, 1), min_size=12, max_size=12),
    "axis": _unit3,
    "angle": st.floats(-math.pi, math.pi),
    "origin": st.lists(st.floats(-10, 10), min_size=3, max_size=3),
    "kinds": st.permutations(EDGE_KINDS).map(lambda p: list(p)[:4]),
    "scale": st.sampled_from([1.0, 2e-3, 1e-2, 1e-3, 1.0, 2e-3]),
    "shape": st.sampled_from(["warped", "warped", "concave", "planar", "warped"]),
    "reflex": st.sampled_from([0, 1, 2, 3]),
})


def face_op(allowed: List[str]):
    opts = []
    if "shift" in allowed:
        opts.append(st.tuples(st.just("shift"), st.integers(-5, 5)).map(list))
    if "invert" in allowed:
        opts.append(st.just(["invert"]))
    if "reorient" in allowed:
        # near corner j (original numbering): p = P_j + frac * dmin_j * u / sqrt(3), frac <= 0.3
        opts.append(st.tuples(st.just("reorient"), st.sampled_from([1, 3, 2, 0]), st.floats(0.0, 0.3), _unit3).map(list))
        opts.append(st.tuples(st.just("reorient-free"), _unit3, st.floats(0.0, 3.0)).map(list))
        # a reference position far away ("direction"): distance = factor x size of the face
        opts.append(st.tuples(st.just("reorient-far"), _unit3, st.sampled_from([1e5, 1e3, 1e6, 1e4])).map(list))
    return st.one_of(*opts)


def sized_list(element, max_size: int):
    """length drawn uniformly first (st.lists alone strongly prefers short lists)"""
    sizes = sorted(range(1, max_size + 1), key=lambda n: (n != min(2, max_size), n))  # Hypothesis favours the first entry
    return st.sampled_from(sizes).flatmap(lambda n: st.lists(element, min_size=n, max_size=n))


def face_case(allowed, max_ops):
    return st.tuples(face_geometry, sized_list(face_op(allowed), max_ops)).map(lambda t: {**t[0], "ops": t[1]})


def _ids_of(points: np.ndarray, orig: np.ndarray, facts) -> List[int]:
    ids = []
    for p in points:
        d = np.linalg.norm(orig - p, axis=1)
        j = int(np.argmin(d))
        if d[j] > POS_TOL:
            raise Violation("point-moved", f"point {p.tolist()} is none of the original four (nearest at {d[j]:.3g})", **facts)
        ids.append(j)
    return ids


def check_face(case, ctx: Ctx) -> None:
    orig = quad_points(case)
    kinds = case["kinds"]
    data = [make_edge(kinds[i], orig[i], orig[(i + 1) % 4]) for i in range(4)]
    face = cb.Face(orig, data)
    # a second face made from the same list of edge specifications (as the two faces of a loft usually are): whatever is
    # done to the first one, its edges stay where they are
    shift_w = newell_normal(orig) * 0.7 * np.linalg.norm(orig[1] - orig[0])
    witness = cb.Face(orig + shift_w, data)
    # ground truth: edge kind -> the two original points it connects
    pair_of = {kinds[i]: frozenset((i, (i + 1) % 4)) for i in range(4)}
    nt = False
    done: List[Any] = []
    for op in case["ops"]:
        facts = {"history": done + [op[0]], "op": op[0], "kinds": kinds}
        before = np.array([p.position for p in face.points])
        ids_before = _ids_of(before, orig, facts)
        n_before = newell_normal(before)
        try:
            lib_n_before = np.array(face.normal, dtype=float)
        except Exception as ex:
            raise Violation("normal-raised", f"Face.normal raised {type(ex).__name__}: {ex}", **facts) from None
        target = None
        try:
            if op[0] == "shift":
                facts["count"] = op[1]
                face.shift(op[1])
                nt = nt or op[1] % 2 == 1
                ctx.label("shift-odd" if op[1] % 2 else "shift-even")
            elif op[0] == "invert":
                face.invert()
                nt = True
                ctx.label("invert")
            else:
                if op[0] == "reorient":
                    j = op[1]
                    dmin = min(np.linalg.norm(orig[j] - orig[k]) for k in range(4) if k != j)
                    p = orig[j] + op[2] * dmin * np.array(op[3]) / math.sqrt(3)
                else:
                    centre = orig.mean(axis=0)
                    size = max(np.linalg.norm(q - centre) for q in orig)
                    u = np.array(op[1], dtype=float)
                    if op[0] == "reorient-far":
                        u = u / np.linalg.norm(u) if np.linalg.norm(u) > 1e-3 else np.array([0.6, 0.0, 0.8])
                        ctx.label(f"reorient-far:{op[2]:g}")
                    p = centre + u * size * op[2]
                p = np.array(p.tolist(), dtype=float)
                dist = [float(np.linalg.norm(p - q)) for q in orig]
                srt = sorted(range(4), key=lambda k: dist[k])
                size0 = max(np.linalg.norm(q - orig.mean(axis=0)) for q in orig)
                gap = dist[srt[1]] - dist[srt[0]]
                # the nearest corner is asserted when it wins by 10 %, or by 1 % of the face size provided float64 resolves
                # that difference of two distances with a margin of 1e4 roundings
                if dist[srt[1]] >= 1.1 * dist[srt[0]] or (gap >= 1e-2 * size0 and gap >= 1e4 * np.finfo(float).eps * dist[srt[3]]):
                    target = srt[0]
                    idx = ids_before.index(target)
                    facts["target_index"] = idx
                    nt = nt or idx in (1, 3)
                    ctx.label(f"reorient-towards-index-{idx}")
                else:
                    ctx.label("reorient-ambiguous(not asserted)")
                face.reorient(p.tolist())
        except Violation:
            raise
        except Exception as ex:
            raise Violation("call-raised", f"{op[0]} raised {type(ex).__name__}: {ex}", **facts) from None
        done.append(op[0])

        if len(face.points) != 4 or len(face.edges) != 4:
            raise Violation("count-changed", f"{len(face.points)} points / {len(face.edges)} edges after {op[0]}", **facts)
        after = np.array([p.position for p in face.points])
        ids = _ids_of(after, orig, facts)
        if sorted(ids) != [0, 1, 2, 3]:
            raise Violation("points-not-a-permutation", f"point ids after {op[0]}: {ids}", ids=ids, **facts)
        # every edge still between its two points
        for i in range(4):
            k = getattr(face.edges[i], "kind", None)
            if k not in pair_of:
                raise Violation("edge-lost", f"slot {i} holds an edge of kind {k!r} that was never given", ids=ids, **facts)
            have = frozenset((ids[i], ids[(i + 1) % 4]))
            if have != pair_of[k]:
                raise Violation(
                    "edge-detached",
                    f"after {op[0]} the {k} edge sits between original points {sorted(have)}, it was defined between "
                    f"{sorted(pair_of[k])}", ids=ids, slot=i, **facts)
        if sorted(getattr(e, "kind", None) for e in face.edges) != sorted(kinds):
            raise Violation("edge-lost", "the four edges are not the four given ones", ids=ids, **facts)

        n_after = newell_normal(after)
        try:
            lib_n_after = np.array(face.normal, dtype=float)
        except Exception as ex:
            raise Violation("normal-raised", f"Face.normal raised {type(ex).__name__}: {ex}", **facts) from None
        if op[0] == "invert":
            if np.linalg.norm(n_after + n_before) > 1e-9:
                raise Violation("invert-normal", "the point order after invert() does not have the opposite normal", ids=ids, **facts)
            if np.linalg.norm(lib_n_after + lib_n_before) > 1e-9:
                raise Violation("invert-normal", f"Face.normal {lib_n_before.tolist()} -> {lib_n_after.tolist()} after invert()",
                                ids=ids, **facts)
        else:
            # shift / reorient: a rotation of the sequence (same cyclic order, same normal)
            k0 = ids_before.index(ids[0])
            if [ids_before[(k0 + i) % 4] for i in range(4)] != ids:
                raise Violation("order-not-rotated", f"{op[0]}: order {ids_before} -> {ids} is not a cyclic shift", ids=ids, **facts)
            if np.linalg.norm(lib_n_after - lib_n_before) > 1e-9:
                raise Violation("normal-changed", f"Face.normal changed by {op[0]}", ids=ids, **facts)
        w_pts = np.array([p.position for p in witness.points])
        if w_pts.shape != (4, 3) or np.abs(w_pts - (orig + shift_w)).max() > POS_TOL:
            raise Violation("other-face-changed", f"{op[0]} on one face moved / re-ordered the points of another face", **facts)
        w_kinds = [getattr(e, "kind", None) for e in witness.edges]
        if w_kinds != kinds:
            raise Violation("other-face-changed", f"{op[0]} on one face re-arranged the edges of another face built from the same "
                            f"edge list: {kinds} -> {w_kinds}", **facts)
        if target is not None and ids[0] != target:
            raise Violation(
                "reorient-wrong-start",
                f"reorient: the nearest corner was at index {facts['target_index']}, after the call the first point is the "
                f"one that was at index {ids_before.index(ids[0])}", ids=ids, **facts)
    ctx.nt(nt)
    ctx.label(f"ops={len(case['ops'])}")


def _fixed_face_cases() -> List[dict]:
    """every nearest-corner choice after every prefix (shift 0..3, inverted or not) on one fixed quadrilateral"""
    geo = {"sx": 1.3, "sy": 0.8, "jit": [0.3, -0.2, 0.5, -0.4, 0.1, -0.6, 0.2, 0.5, 0.3, -0.1, -0.3, -0.5],
           "axis": [0.3, -0.5, 0.8], "angle": 1.1, "origin": [1.0, -2.0, 0.5],
           "kinds": ["arc", "spline", "project", "origin"]}
    out = []
    for inv in (False, True):
        for k in range(4):
            for j in range(4):
                ops: List[Any] = []
                if inv:
                    ops.append(["invert"])
                if k:
                    ops.append(["shift", k])
                ops.append(["reorient", j, 0.1, [0.3, -0.4, 0.2]])
                out.append({**geo, "ops": ops})
    # reference positions far away in the four diagonal directions of the face plane (and tilted), at three distances
    flat = {**geo, "axis": [0.0, 0.0, 1.0], "angle": 0.0}
    for far in (1e3, 1e5, 1e6):
        for u in ([1, 1, 0.3], [-1, 1, 0.3], [-1, -1, -0.3], [1, -1, 0.3]):
            for pre in ([], [["shift", 1]], [["invert"]]):
                out.append({**flat, "scale": 1.0, "ops": [*pre, ["reorient-far", u, far]]})
                out.append({**flat, "scale": 1e-3, "ops": [*pre, ["reorient-far", u, far]]})
    return out


def _fixed_small_faces() -> List[dict]:
    """warped faces of millimetre size and planar concave faces (each corner reflex), every single operation"""
    geo = {"sx": 1.3, "sy": 0.8, "jit": [0.3, -0.2, 0.9, -0.4, 0.1, -0.8, 0.2, 0.5, 0.7, -0.1, -0.3, -0.9],
           "axis": [0.3, -0.5, 0.8], "angle": 1.1, "origin": [1.0, -2.0, 0.5], "kinds": ["arc", "spline", "project", "origin"]}
    out = []
    for ops in ([["invert"]], [["shift", 1]], [["shift", 2]], [["shift", 3]], [["invert"], ["shift", 1]]):
        for scale in (1.0, 1e-2, 2e-3, 1e-3):
            out.append({**geo, "scale": scale, "shape": "warped", "ops": ops})
        for k in range(4):
            out.append({**geo, "scale": 1.0, "shape": "concave", "reflex": k, "ops": ops})
    return out


# --------------------------------------------------------------------------------------------------
# operation cells

SMALL_DIMS = [(2, 1, 1), (1, 1, 1), (1, 1, 1), (1, 2, 1), (1, 1, 2), (2, 2, 1), (3, 1, 1)]
EDGE_PAIRS = [tuple(e) for e in HEX_EDGES]  # 12 unordered pairs, R-HEX
ORDERED_EDGES = EDGE_PAIRS + [(b, a) for a, b in EDGE_PAIRS]
SIDE_EDGES = {s: [frozenset(e) for e in EDGE_PAIRS if set(e) <= set(HEX_SIDES[s])] for s in SIDES}
CURVES = ["arc", "spline", "polyLine"]


_w = st.floats(0.5, 2.0)
_j = st.floats(-1.0, 1.0)
_rot = st.integers(0, 23)
_off = st.lists(st.floats(-5, 5), min_size=3, max_size=3)


@st.composite
def assembly(draw):
    dims = draw(st.sampled_from(SMALL_DIMS))
    ncell = dims[0] * dims[1] * dims[2]
    widths = [draw(st.lists(_w, min_size=dims[a], max_size=dims[a])) for a in range(3)]
    nn = (dims[0] + 1) * (dims[1] + 1) * (dims[2] + 1)
    jit = draw(st.lists(_j, min_size=3 * nn, max_size=3 * nn))
    k = draw(st.sampled_from([n for n in (2, 1, 3) if n <= ncell]))
    cells = list(draw(st.permutations(list(range(ncell)))))[:k]
    orient = draw(st.lists(_rot, min_size=k, max_size=k))
    return {"dims": list(dims), "widths": widths, "jitter": jit, "cells": cells, "orient": orient, "chops": [],
            "offset": draw(_off), "target": draw(st.integers(0, k - 1)),
            # how the target's two faces get their edge specification: no argument / one list each / one list for both
            "ctor": draw(st.sampled_from(["shared-list", "no-edges", "own-lists"])),
            # write once, or write, rebuild the mesh lists from the operations and write again
            "rewrite": draw(st.sampled_from(["backport", None, "clear-assemble", None]))}


_curve = st.tuples(st.sampled_from(CURVES), st.floats(0.0, 2 * math.pi), st.floats(0.15, 0.3)).map(list)


def call_strategy(kind: str):
    side = st.sampled_from(["left", "right", "front", "back", "bottom", "top"])  # first entry is favoured: a lateral side
    if kind == "set_patch":
        return st.tuples(st.just(kind), st.one_of(side, st.lists(side, min_size=1, max_size=3, unique=True)),
                         st.sampled_from(["pA", "pB", "pC"])).map(list)
    if kind == "project_side":
        return st.tuples(st.just(kind), side, st.booleans(), st.booleans()).map(list)
    if kind == "project_edge":
        return st.tuples(st.just(kind), st.sampled_from(ORDERED_EDGES)).map(lambda t: [t[0], t[1][0], t[1][1]])
    if kind == "project_corner":
        return st.tuples(st.just(kind), st.integers(0, 7), st.integers(1, 2)).map(list)
    if kind == "add_side_edge":
        return st.tuples(st.just(kind), st.integers(0, 3), _curve).map(lambda t: [t[0], t[1], *t[2]])
    if kind == "face_add_edge":
        return st.tuples(st.just(kind), st.sampled_from(["bottom", "top"]), st.integers(0, 3), _curve).map(
            lambda t: [t[0], t[1], t[2], *t[3]])
    raise AssertionError(kind)


CALL_KINDS = ["set_patch", "project_side", "project_edge", "project_corner", "add_side_edge", "face_add_edge"]


def call_edges(call) -> List[frozenset]:
    """edges (as corner pairs) a call puts a projection label on"""
    if call[0] == "project_edge":
        return [frozenset((call[1], call[2]))]
    if call[0] == "project_side" and call[2]:
        return SIDE_EDGES[call[1]]
    return []


def sanitize(calls: List[list]) -> List[list]:
    """drops calls outside the asserted domain: a second patch / projection on one side, a third label on an edge"""
    patched, projected = set(), set()
    labels: Dict[frozenset, int] = {}
    out = []
    for c in calls:
        if c[0] == "set_patch":
            sides = c[1] if isinstance(c[1], list) else [c[1]]
            if patched & set(sides):
                continue
            patched |= set(sides)
        elif c[0] == "project_side":
            if c[1] in projected:
                continue
            if any(labels.get(e, 0) >= 2 for e in call_edges(c)):
                continue
            projected.add(c[1])
        elif c[0] == "project_edge":
            if labels.get(call_edges(c)[0], 0) >= 2:
                continue
        for e in call_edges(c):
            labels[e] = labels.get(e, 0) + 1
        if c[0] == "add_side_edge":
            labels[frozenset((c[1], c[1] + 4))] = 0
        if c[0] == "face_add_edge":
            o = 4 if c[1] == "top" else 0
            labels[frozenset((c[2] + o, (c[2] + 1) % 4 + o))] = 0
        out.append(c)
    return out


def op_case(kinds: List[str], max_calls: int):
    one_call = st.one_of(*[call_strategy(k) for k in kinds])
    return st.tuples(assembly(), sized_list(one_call, max_calls)).map(lambda t: {**t[0], "calls": sanitize(t[1])})


def curve_payload(kind: str, phi: float, amp: float, a: np.ndarray, b: np.ndarray):
    """curved edge between a and b whose points are clearly off the chord"""
    t = (b - a) / np.linalg.norm(b - a)
    e = np.eye(3)[int(np.argmin(np.abs(t)))]
    n1 = np.cross(t, e)
    n1 /= np.linalg.norm(n1)
    n2 = np.cross(t, n1)
    off = amp * np.linalg.norm(b - a) * (math.cos(phi) * n1 + math.sin(phi) * n2)
    if kind == "arc":
        pts = [0.5 * (a + b) + off]
        return cbe.Arc(pts[0]), pts
    pts = [a + 0.35 * (b - a) + off, a + 0.65 * (b - a) + 0.8 * off]
    return (cbe.Spline(pts) if kind == "spline" else cbe.PolyLine(pts)), pts


class Model:
    """what the calls mean in the user-guide numbering"""

    def __init__(self) -> None:
        self.patch: Dict[str, str] = {}
        self.side_proj: Dict[str, str] = {}
        self.edge: Dict[frozenset, Any] = {}  # ("project", [labels]) | ("curve", kind, points)
        self.vertex: Dict[int, List[str]] = {}

    def project_edge(self, e: frozenset, label: str) -> None:
        cur = self.edge.get(e)
        if cur is not None and cur[0] == "project":
            if label not in cur[1]:
                cur[1].append(label)
        else:
            self.edge[e] = ("project", [label])


def apply_calls(op, pts: np.ndarray, calls: List[list], facts) -> Model:
    m = Model()
    for k, c in enumerate(calls):
        try:
            if c[0] == "set_patch":
                op.set_patch(c[1], c[2])
                for s in c[1] if isinstance(c[1], list) else [c[1]]:
                    m.patch[s] = c[2]
            elif c[0] == "project_side":
                label = f"g{k}"
                op.project_side(c[1], label, edges=c[2], points=c[3])
                m.side_proj[c[1]] = label
                if c[2]:
                    for e in SIDE_EDGES[c[1]]:
                        m.project_edge(e, label)
                if c[3]:
                    for corner in HEX_SIDES[c[1]]:
                        m.vertex.setdefault(corner, []).append(label)
            elif c[0] == "project_edge":
                label = f"g{k}"
                op.project_edge(c[1], c[2], label)
                m.project_edge(frozenset((c[1], c[2])), label)
            elif c[0] == "project_corner":
                labels = [f"g{k}"] if c[2] == 1 else [f"g{k}", f"h{k}"]
                op.project_corner(c[1], labels[0] if c[2] == 1 else labels)
                m.vertex.setdefault(c[1], []).extend(labels)
            elif c[0] == "add_side_edge":
                i = c[1]
                data, cpts = curve_payload(c[2], c[3], c[4], pts[i], pts[i + 4])
                op.add_side_edge(i, data)
                m.edge[frozenset((i, i + 4))] = ("curve", c[2], cpts)
            elif c[0] == "face_add_edge":
                o = 4 if c[1] == "top" else 0
                i, j = c[2] + o, (c[2] + 1) % 4 + o
                data, cpts = curve_payload(c[3], c[4], c[5], pts[i], pts[j])
                (op.top_face if c[1] == "top" else op.bottom_face).add_edge(c[2], data)
                m.edge[frozenset((i, j))] = ("curve", c[3], cpts)
            else:
                raise AssertionError(c)
        except AssertionError:
            raise
        except Exception as ex:
            raise Violation("call-raised", f"valid call {c} raised {type(ex).__name__}: {ex}", call=c[0], **facts) from None
    return m


def is_cyclic(quad: List[Any], corners) -> bool:
    """quad lists `corners` (a cyclic tuple) in the same cyclic order, either sense"""
    if sorted(quad, key=repr) != sorted(corners, key=repr):
        return False
    k = list(corners).index(quad[0])
    fwd = [corners[(k + i) % 4] for i in range(4)]
    bwd = [corners[(k - i) % 4] for i in range(4)]
    return list(quad) in (fwd, bwd)


def side_of(quad_ids: List[int], ids: List[int]):
    want = frozenset(quad_ids)
    for s in SIDES:
        if frozenset(ids[c] for c in HEX_SIDES[s]) == want:
            return s
    return None


def describe_ids(vs, ids: List[int]) -> List[Any]:
    return [ids.index(v) if v in ids else f"v{v}" for v in vs]


def verify_file(built, t: int, pts: np.ndarray, model: "Model", facts: Dict[str, Any]) -> None:
    """writes the mesh and compares every patch, projected face, edge entry and vertex projection with the model"""
    try:
        text, _ = lt.write_text(built.mesh)
    except Exception as ex:
        raise Violation("write-raised", f"write raised {type(ex).__name__}: {ex}", **facts) from None
    try:
        bmd = lt.parse(text)
    except FoamParseError as ex:
        raise Violation("unparsable", f"written file does not parse: {ex}", **facts) from None
    if len(bmd.blocks) != len(built.ops):
        raise Violation("block-count", f"{len(bmd.blocks)} hex entries for {len(built.ops)} operations", **facts)
    ids = bmd.blocks[t].ids
    if len(set(ids)) != 8 or max(ids) >= len(bmd.vertices) or min(ids) < 0:
        raise Violation("hex-labels", f"hex entry {ids} is not 8 distinct vertex labels", **facts)
    for c in range(8):
        d = float(np.linalg.norm(np.array(bmd.vertices[ids[c]].pos) - pts[c]))
        if d > FILE_TOL:
            raise Violation("hex-corner-position", f"label {c} of the hex entry is {d:.3g} away from the operation's point {c}",
                            corner=c, **facts)

    def sides_facts(side):
        return {"side": side, "lateral": side not in ("top", "bottom")}

    # patches --------------------------------------------------------------------------------------
    want_patch: Dict[str, Dict[frozenset, str]] = {}
    for s, n in model.patch.items():
        want_patch.setdefault(n, {})[frozenset(ids[c] for c in HEX_SIDES[s])] = s
    have_patch = {p.name: p.faces for p in bmd.patches}
    if sorted(have_patch) != sorted(want_patch):
        raise Violation("patch-set", f"patches written {sorted(have_patch)}, assigned {sorted(want_patch)}", **facts)
    for n, quads in have_patch.items():
        got = {frozenset(q): q for q in quads}
        if set(got) != set(want_patch[n]) or len(quads) != len(want_patch[n]):
            miss = [s for k, s in want_patch[n].items() if k not in got]
            extra = [describe_ids(q, ids) for k, q in got.items() if k not in want_patch[n]]
            raise Violation(
                "patch-on-wrong-side",
                f"patch {n}: assigned to {sorted(want_patch[n].values())} (corners {[HEX_SIDES[s] for s in sorted(want_patch[n].values())]}), "
                f"written quads have corners {[describe_ids(q, ids) for q in quads]}",
                missing=miss, extra=extra, **sides_facts(miss[0] if miss else None), **facts)
        for k, q in got.items():
            s = want_patch[n][k]
            if not is_cyclic([ids.index(v) for v in q], HEX_SIDES[s]):
                raise Violation("quad-not-cyclic", f"patch {n} side {s}: quad corners {[ids.index(v) for v in q]} are not in "
                                f"cyclic order of {HEX_SIDES[s]}", **sides_facts(s), **facts)

    # projected faces ------------------------------------------------------------------------------
    want_faces = {frozenset(ids[c] for c in HEX_SIDES[s]): (s, lab) for s, lab in model.side_proj.items()}
    got_faces = {}
    for q, lab in bmd.faces:
        if frozenset(q) in got_faces:
            raise Violation("face-twice", f"face {describe_ids(q, ids)} projected twice", **facts)
        got_faces[frozenset(q)] = (q, lab)
    if set(got_faces) != set(want_faces):
        miss = [want_faces[k][0] for k in want_faces if k not in got_faces]
        raise Violation(
            "projected-wrong-side",
            f"sides projected by the calls {sorted(v[0] for v in want_faces.values())}, written projected quads have corners "
            f"{[describe_ids(v[0], ids) for v in got_faces.values()]}", missing=miss, **sides_facts(miss[0] if miss else None), **facts)
    for k, (q, lab) in got_faces.items():
        s, wl = want_faces[k]
        if lab != wl:
            raise Violation("projected-wrong-label", f"side {s} projected to {lab}, call said {wl}", **sides_facts(s), **facts)
        if not is_cyclic([ids.index(v) for v in q], HEX_SIDES[s]):
            raise Violation("quad-not-cyclic", f"projected side {s}: quad corners {[ids.index(v) for v in q]}", **sides_facts(s), **facts)

    # edges ----------------------------------------------------------------------------------------
    got_edges: Dict[frozenset, Any] = {}
    for e in bmd.edges:
        key = frozenset((e.a, e.b))
        if key in got_edges or e.a == e.b:
            raise Violation("edge-twice", f"edge {describe_ids((e.a, e.b), ids)} listed twice / degenerate", **facts)
        got_edges[key] = e
    want_edges = {frozenset(ids[c] for c in e): (e, v) for e, v in model.edge.items()}
    if set(got_edges) != set(want_edges):
        miss = [sorted(want_edges[k][0]) for k in want_edges if k not in got_edges]
        extra = [describe_ids(sorted(k), ids) for k in got_edges if k not in want_edges]
        raise Violation(
            "edge-on-wrong-corners",
            f"calls put edges on corner pairs {sorted(sorted(v[0]) for v in want_edges.values())}; the file has entries between "
            f"corners {sorted(describe_ids(sorted(k), ids) for k in got_edges)}", missing=miss, extra=extra, **facts)
    for k, e in got_edges.items():
        corners, v = want_edges[k]
        if v[0] == "project":
            if e.kind != "project" or sorted(e.payload) != sorted(v[1]):
                raise Violation("edge-wrong-content", f"edge {sorted(corners)}: expected project {sorted(v[1])}, written {e.kind} "
                                f"{e.payload}", edge=sorted(corners), **facts)
        else:
            payload = [e.payload] if e.kind == "arc" else e.payload
            ok = e.kind == v[1] and isinstance(payload, list) and len(payload) == len(v[2])
            if ok:
                a = np.array(payload, dtype=float)
                b = np.array(v[2], dtype=float)
                ok = bool(np.abs(a - b).max() <= FILE_TOL or np.abs(a - b[::-1]).max() <= FILE_TOL)
            if not ok:
                raise Violation("edge-wrong-content", f"edge {sorted(corners)}: expected {v[1]} through {np.array(v[2]).tolist()}, "
                                f"written {e.kind} {e.payload}", edge=sorted(corners), **facts)

    # vertices -------------------------------------------------------------------------------------
    for vi, vert in enumerate(bmd.vertices):
        c = ids.index(vi) if vi in ids else None
        want = sorted(model.vertex.get(c, [])) if c is not None else []
        have = sorted(vert.projected_to or [])
        if have != want:
            raise Violation("corner-projection", f"vertex {vi} (corner {c} of the target): projected to {have}, calls said {want}",
                            corner=c, **facts)


def check_op(case, ctx: Ctx) -> None:
    built = lt.build(case, with_chops=False)
    for op in built.ops:
        for ax in range(3):
            op.chop(ax, count=2)
    t = case["target"]
    pts = built.points[t]
    ctor = case.get("ctor", "no-edges")
    if ctor != "no-edges":
        spec: List[Any] = [None, None, None, None]
        try:
            if ctor == "shared-list":
                new = cb.Loft(cb.Face(pts[:4], spec), cb.Face(pts[4:], spec))
            else:
                new = cb.Loft(cb.Face(pts[:4], list(spec)), cb.Face(pts[4:], list(spec)))
        except Exception as ex:
            raise Violation("call-raised", f"Loft of two faces with edges=[None]*4 raised {type(ex).__name__}: {ex}", ctor=ctor) from None
        for ax in range(3):
            new.chop(ax, count=2)
        built.ops[t] = new
        built.mesh = cb.Mesh()
        for o in built.ops:
            built.mesh.add(o)
    op = built.ops[t]
    calls = case["calls"]
    facts: Dict[str, Any] = {"calls": [c[0] for c in calls], "blocks": len(built.ops), "rot": case["orient"][t], "ctor": ctor}
    ctx.label("ctor=" + ctor)
    model = apply_calls(op, pts, calls, facts)

    # API view: patches that touch each corner
    try:
        names = dict(op.patch_names)
        at_corner = [set(op.get_patches_at_corner(c)) for c in range(8)]
    except Exception as ex:
        raise Violation("call-raised", f"patch_names / get_patches_at_corner raised {type(ex).__name__}: {ex}", **facts) from None
    if names != model.patch:
        raise Violation("patch-names", f"patch_names {names} but the calls assigned {model.patch}", **facts)
    for c in range(8):
        want = {n for s, n in model.patch.items() if c in HEX_SIDES[s]}
        if at_corner[c] != want:
            raise Violation("patches-at-corner", f"corner {c}: get_patches_at_corner gives {sorted(at_corner[c])}, sides "
                            f"holding that corner carry {sorted(want)}", corner=c, **facts)

    verify_file(built, t, pts, model, facts)
    # what the calls addressed is a property of the operation: the file the mesh writes after its lists were rebuilt from
    # the operations (backport, or clear + assemble) must show exactly the same sides, edges and corners
    again = case.get("rewrite")
    if again:
        try:
            if again == "backport":
                built.mesh.backport()
            else:
                built.mesh.clear()
                built.mesh.assemble()
        except Exception as ex:
            raise Violation("call-raised", f"{again} after a write raised {type(ex).__name__}: {ex}", **facts) from None
        verify_file(built, t, pts, model, {**facts, "stage": "after-" + again})
        ctx.label("rewrite=" + again)

    # get_face -------------------------------------------------------------------------------------
    check_get_face(op, pts, facts)

    nt = False
    for c in calls:
        if c[0] in ("set_patch", "project_side"):
            ss = c[1] if isinstance(c[1], list) else [c[1]]
            nt = nt or any(s not in ("top", "bottom") for s in ss)
            ctx.label(*[f"{c[0]}:{s}" for s in ss])
        elif c[0] == "project_edge":
            nt = nt or {c[1], c[2]} != {0, 1}
            ctx.label("project_edge:" + ("closing" if {c[1], c[2]} in ({0, 3}, {4, 7}) else "vertical" if abs(c[1] - c[2]) == 4 else "face")
                      + (":reversed" if c[1] > c[2] else ""))
        elif c[0] == "project_corner":
            nt = nt or c[1] != 0
            ctx.label(f"project_corner:{c[1]}")
        elif c[0] == "add_side_edge":
            nt = nt or c[1] != 0
            ctx.label(f"add_side_edge:{c[1]}")
        else:
            nt = nt or (c[1], c[2]) != ("bottom", 0)
            ctx.label(f"face_add_edge:{c[1]}:{c[2]}")
    ctx.nt(nt and len(calls) > 0)
    ctx.label(f"blocks={len(built.ops)}", f"calls={len(calls)}")


def check_get_face(op, pts: np.ndarray, facts) -> None:
    for s in SIDES:
        try:
            face = op.get_face(s)
            got = np.array(face.point_array, dtype=float)
        except Exception as ex:
            raise Violation("call-raised", f"get_face({s!r}) raised {type(ex).__name__}: {ex}", **facts) from None
        if got.shape != (4, 3):
            raise Violation("get-face-shape", f"get_face({s!r}) has point array of shape {got.shape}", side=s, **facts)
        corners = []
        for p in got:
            d = np.linalg.norm(pts - p, axis=1)
            j = int(np.argmin(d))
            corners.append(j if d[j] <= POS_TOL else None)
        if None in corners or set(corners) != set(HEX_SIDES[s]):
            raise Violation("get-face-corners", f"get_face({s!r}) has the operation's corners {corners}, the side has {HEX_SIDES[s]}",
                            side=s, lateral=s not in ("top", "bottom"), **facts)
        if not is_cyclic(corners, HEX_SIDES[s]):
            raise Violation("quad-not-cyclic", f"get_face({s!r}) lists corners {corners}: not a cyclic order of {HEX_SIDES[s]}",
                            side=s, lateral=s not in ("top", "bottom"), **facts)


def check_get_face_only(case, ctx: Ctx) -> None:
    built = lt.build(case, with_chops=False)
    t = case["target"]
    check_get_face(built.ops[t], built.points[t], {"rot": case["orient"][t]})
    ctx.nt(True)


def _fixed_op_cases() -> List[dict]:
    """the whole index grid, one call per case, on one fixed jittered hexahedron"""
    geo = {"dims": [1, 1, 1], "widths": [[1.2], [0.8], [1.5]],
           "jitter": [0.5, -0.3, 0.2, -0.6, 0.4, 0.1, 0.3, 0.7, -0.5, -0.2, -0.8, 0.6, 0.9, -0.1, -0.4, 0.2, 0.5, -0.7, -0.3, 0.8, 0.1,
                      0.6, -0.9, 0.4],
           "cells": [0], "orient": [0], "chops": [], "offset": [0.5, -1.0, 2.0], "target": 0}
    calls: List[list] = []
    for s in SIDES:
        calls.append(["set_patch", s, "pA"])
        for e in (False, True):
            for p in (False, True):
                calls.append(["project_side", s, e, p])
    for a, b in ORDERED_EDGES:
        calls.append(["project_edge", a, b])
    for c in range(8):
        calls.append(["project_corner", c, 1])
    for i in range(4):
        calls.append(["add_side_edge", i, "arc", 0.3, 0.2])
        for f in ("bottom", "top"):
            calls.append(["face_add_edge", f, i, "spline", 1.0, 0.2])
    cases = [{**geo, "calls": [c]} for c in calls]
    cases += [{**geo, "ctor": "shared-list", "calls": [c]} for c in calls if c[0] in ("project_edge", "project_side", "face_add_edge")]
    cases += [{**geo, "rewrite": "backport", "calls": [c]} for c in calls if c[0] != "project_edge" or c[1] < c[2]]
    # a side projected with its edges, then one more label on a single edge of it (by corner pair, or through a neighbouring
    # side): the other edges of the first side must keep their single label
    for s in SIDES:
        for e in SIDE_EDGES[s]:
            a, b = sorted(e)
            cases.append({**geo, "calls": [["project_side", s, True, False], ["project_edge", b, a]]})
        for s2 in SIDES:
            if s2 != s and set(HEX_SIDES[s]) & set(HEX_SIDES[s2]):
                cases.append({**geo, "calls": [["project_side", s, True, False], ["project_side", s2, True, True]]})
    return cases


CELLS = [
    Cell("C10/face/shift-invert", face_case(["shift", "invert"], 4), check_face, 600, 20000,
         "histories of shift(k in -5..5) / invert(): same 4 points, every edge between its two points, shift keeps the cyclic "
         "order and the normal, invert flips the normal", fixed_cases=_fixed_small_faces()),
    Cell("C10/face/reorient", face_case(["reorient"], 2), check_face, 600, 20000,
         "reorient(p): the corner nearest p (margin >= 10 %) becomes the first point, order and normal kept; non-trivial: "
         "nearest corner at index 1 or 3", fixed_cases=_fixed_face_cases()),
    Cell("C10/face/history", face_case(["shift", "invert", "reorient"], 4), check_face, 800, 30000,
         "mixed histories of <= 4 calls; all of the above after every call"),
    Cell("C10/op/set_patch", op_case(["set_patch"], 3), check_op, 200, 8000,
         "set_patch(side | [sides], name): written patch quads are exactly the named sides (R-HEX corner sets, cyclic), "
         "patch_names / get_patches_at_corner agree"),
    Cell("C10/op/project_side", op_case(["project_side"], 2), check_op, 300, 10000,
         "project_side(side, label, edges, points): projected quad, project edges and projected vertices are exactly those of "
         "the side"),
    Cell("C10/op/project_edge", op_case(["project_edge"], 3), check_op, 300, 10000,
         "project_edge(c1, c2) over the 24 ordered corner pairs: a project entry between exactly those two hex labels"),
    Cell("C10/op/project_corner", op_case(["project_corner"], 3), check_op, 200, 8000,
         "project_corner(c): exactly the vertex under hex label c is projected"),
    Cell("C10/op/add_edge", op_case(["add_side_edge", "face_add_edge"], 3), check_op, 300, 10000,
         "add_side_edge(i) / Face.add_edge(i) on the bottom and top face: the curve (identified by its points) is written "
         "between hex labels i,i+4 resp. i,i+1 (+4)"),
    Cell("C10/op/history", op_case(CALL_KINDS, 6), check_op, 500, 20000,
         "<= 6 mixed addressing calls on one operation: the file contains exactly the modelled patches, faces, edges and "
         "vertex projections", fixed_cases=_fixed_op_cases()),
    Cell("C10/op/get_face", assembly(), check_get_face_only, 100, 5000,
         "get_face(side) for the 6 sides: the operation's points at the side's R-HEX corners, in cyclic order"),
]
