"""C06 — the written blockMeshDict is a faithful, well-formed rendering of the model (DESIGN.md section 4, C06)."""

from __future__ import annotations

import warnings
from typing import Any, Dict, List, Tuple

import numpy as np

from vf import lattice as lt
from vf import x_script as xsc
from vf import x_sides as xs
from vf.core import Cell, Ctx, Violation
from vf.foamdict import FoamParseError, hex_edge_gradings, parse_vtk, tokenize
from vf.refmodel import HEX_EDGES, HEX_SIDES, families

warnings.simplefilter("ignore")

TOL = 1e-7  # merge tolerance of the library: coincident corners of different operations may differ by that much
HALF_ULP = 5.1e-9  # positions are printed with 8 decimals (far from the origin the coordinate's own rounding is added)

RULE = (
    "Programs of 1-3 entities (Box, lattice clusters of Lofts in any of the 24 numberings, Extrude, Revolve, Wedge, "
    "Cylinder, ExtrudedRing, Hemisphere, ExtrudedStack of a Grid, two stacked boxes with a merged interface), "
    "well-posed count chops (a c2c-graded chop now and then on single blocks), then 0-10 statements drawn from "
    "set_patch (name or list, any side), shape-level start/end/outer/inner patches, set_cell_zone, project_side "
    "(edges/points), project_edge, project_corner, add_geometry, merge_patches, set_default_patch, modify_patch, "
    "settings[...], delete (also single blocks of round shapes and spheres), in random order with mesh.add anywhere; "
    "then optionally assemble / clear+assemble / backport / a first write, and write(path, debug_path); half of the "
    "programs are placed 1e3..4e6 away from the origin; a third of the programs render the same objects a second "
    "time without 1-2 operations (delete + clear + write, or a new Mesh with the mesh-level statements replayed) and "
    "that file is judged against the model of the remaining part. The file is parsed "
    "by vf.foamdict and compared section by section with the script-level model kept by the harness "
    "(vf.x_script.interpret). Non-trivial: >= 2 blocks written and >= 3 statements of >= 2 kinds; distinct = "
    "distinct generated program."
)
ASSUMPTIONS = [
    "positions: a hex label must point to a vertex within TOL + 5.1e-9 of the operation's corner, and every vertex "
    "lies within 5.1e-9 of some corner that refers to it (8 printed decimals); 4 ulp of the largest coordinate are "
    "added for models far from the origin",
    "assemble, clear+assemble, backport (no vertex was moved) or an earlier write before the final write leave the "
    "declared model unchanged",
    "side -> corner table is the OpenFOAM sketch (vf.refmodel.HEX_SIDES); a written quad must be that side's cycle "
    "started anywhere in either sense",
    "patches / projected faces are compared as sets of quads; if two operations project one shared face to different "
    "labels either label is accepted",
    "edges section (C07's business) is only checked for valid labels, real block edges and defined geometries",
    "counts: chops are count-only (or count + c2c on single blocks); families are recomputed from the file's labels",
    "a geometry name declared twice may be written with either declaration",
    "second rendering: the declared model of the remaining operations is unchanged by the first assembly (assembling "
    "does not alter the user's objects); every operation touched by it is chopped in all directions",
    "modify_patch on a name that owns no face of a surviving operation is not executed (outcome not specified)",
    "round shapes may be scaled about their first axis point after creation (scale() or transform([Scaling])): the "
    "declared radius / length are the scaled ones; the sphere's searchableSphere must have the scaled radius",
    "Hemisphere: only shape-level patches, zones and corner projections are scripted (its lofts share Face objects)",
    "a script built from valid arguments must run and write; an exception is reported as script-failed / write-failed",
]


# --------------------------------------------------------------------------------------------------
# small helpers


def norm_ws(text: str) -> str:
    return " ".join(tokenize(text))


def norm_tokens(tokens: List[str]) -> str:
    return " ".join(tokenize(" ".join(tokens)))


def summary(case) -> Dict[str, Any]:
    kinds = sorted({s["do"] for s in case["script"]})
    return {"entities": [e["kind"] for e in case["entities"]], "statements": kinds}


class Checker:
    def __init__(self, case, ctx: Ctx):
        self.case = case
        self.ctx = ctx
        self.f = summary(case)
        self.sphere_face_label: Dict[int, set] = {}  # hemisphere entity -> labels its outer sides are projected to

    def fail(self, kind: str, msg: str, **facts: Any):
        raise Violation(kind, msg, **{**self.f, **facts})

    # ---- run the program -----------------------------------------------------------------------

    def run(self) -> None:
        case = self.case
        try:
            run = xsc.make_entities(case)
        except Exception as ex:
            self.fail("script-failed", f"creating the entities raised {type(ex).__name__}: {ex}", stage="entities")
        self.points: Dict[Tuple[int, int], np.ndarray] = {}
        for e, ent in enumerate(case["entities"]):
            got = len([x for x in run.ops if x[0] == e])
            if got != xsc.n_ops(ent):
                self.fail("entity-op-count", f"{ent['kind']} consists of {got} operations, {xsc.n_ops(ent)} expected")
        for x, op in run.ops.items():
            self.points[x] = np.array(op.point_array, dtype=float)
        self.known_points = run.known_points
        self.model = m = xsc.interpret(case, self.points)
        try:
            xsc.run_script(case, run, m.skip_modify)
        except Exception as ex:
            self.fail("script-failed", f"a statement raised {type(ex).__name__}: {ex}", stage="statements")
        # declared chops (model level): total count per (operation, axis)
        self.declared: Dict[Tuple[Tuple[int, int], int], int] = {}
        for x in m.order:
            for ax in range(3):
                chops = run.ops[x].chops[ax]
                if chops:
                    self.declared[(x, ax)] = sum(int(c.count) for c in chops)
        self.declared_all = dict(self.declared)
        self.sphere_labels = {}
        for e, ent in enumerate(case["entities"]):
            if ent["kind"] == "hemisphere":
                self.sphere_labels[e] = run.entities[e]
        big = max(float(np.max(np.abs(p))) for p in self.points.values())
        self.half = HALF_ULP + 4 * float(np.spacing(big))
        # the user may (re-)assemble before writing - after moving vertices, say; the declared model is the same
        finish = case.get("finish", "write")
        self.f["finish"] = finish
        mesh = run.mesh
        try:
            if finish != "write" and finish != "write-twice":
                mesh.assemble()
            if finish == "clear+assemble":
                mesh.clear()
                mesh.assemble()
            elif finish == "backport":
                mesh.backport()
        except Exception as ex:
            self.fail("script-failed", f"{finish} raised {type(ex).__name__}: {ex}", stage="finish")
        try:
            if finish == "write-twice":
                lt.write_text(mesh, debug=True)
            text, vtk = lt.write_text(mesh, debug=True)
        except Exception as ex:
            self.fail("write-failed", f"write raised {type(ex).__name__}: {ex}")
        try:
            self.bmd = lt.parse(text)
        except FoamParseError as ex:
            self.fail("unparsable", f"written file does not parse: {ex}")
        self.vtk_text = vtk
        self.run_obj = run

    def second_stage(self) -> bool:
        """The same objects rendered again without some operations (case["stage2"]); afterwards self.model / self.bmd /
        self.declared describe that second file.  The model is the one of the script + the extra deletions."""
        st2 = self.case.get("stage2")
        if not st2:
            return False
        case, run = self.case, self.run_obj
        drop = [tuple(x) for x in st2["drop"]]
        case2 = dict(case, script=list(case["script"]) + [{"do": "delete", "ent": e, "op": i} for e, i in drop])
        self.model = m = xsc.interpret(case2, self.points)
        self.f["stage"] = "second:" + st2["kind"]
        try:
            if st2["kind"] == "delete+clear":
                mesh = run.mesh
                for x in drop:
                    mesh.delete(run.ops[x])
                mesh.clear()
            else:
                import classy_blocks as cb

                mesh = cb.Mesh()
                xsc.run_script(case, run, m.skip_modify, mesh=mesh, drop=drop)
        except Exception as ex:
            self.fail("script-failed", f"second rendering raised {type(ex).__name__}: {ex}", stage="second")
        self.declared = {k: v for k, v in self.declared_all.items() if k[0] in set(m.order)}
        try:
            text, vtk = lt.write_text(mesh, debug=True)
        except Exception as ex:
            self.fail("write-failed", f"second write raised {type(ex).__name__}: {ex}")
        try:
            self.bmd = lt.parse(text)
        except FoamParseError as ex:
            self.fail("unparsable", f"second file does not parse: {ex}")
        self.vtk_text = vtk
        self.sphere_face_label = {}
        return True

    def check_all(self) -> None:
        self.check_settings()
        self.check_blocks_and_vertices()
        self.check_counts()
        self.check_patches()
        self.check_faces_and_geometry()
        self.check_vtk()

    # ---- oracles -------------------------------------------------------------------------------

    def check_settings(self) -> None:
        want = self.model.settings
        got = self.bmd.settings
        if sorted(got) != sorted(want):
            self.fail("settings-keys", f"top-level settings {sorted(got)}, declared {sorted(want)}")
        for k, v in want.items():
            toks = got[k]
            if isinstance(v, (int, float)):
                ok = len(toks) == 1 and isinstance(toks[0], str) and _is_number(toks[0]) and float(toks[0]) == float(v)
            else:
                ok = norm_tokens([t if isinstance(t, str) else "?" for t in toks]) == norm_ws(str(v))
            if not ok:
                self.fail("settings-value", f"setting {k}: written {toks}, declared {v!r}", key=k)

    def check_blocks_and_vertices(self) -> None:
        m, bmd = self.model, self.bmd
        n = len(bmd.vertices)
        if len(bmd.blocks) != len(m.order):
            self.fail("block-count", f"{len(bmd.blocks)} hex entries for {len(m.order)} surviving operations")
        users: Dict[int, List[Tuple[Tuple[int, int], int]]] = {}
        for bi, x in enumerate(m.order):
            h = bmd.blocks[bi]
            if any(v < 0 or v >= n for v in h.ids):
                self.fail("label-out-of-range", f"hex {bi} lists {h.ids}; there are {n} vertices", section="blocks")
            if h.zone != m.zone[x]:
                self.fail("cell-zone", f"hex {bi} (operation {x}) has zone {h.zone!r}, declared {m.zone[x]!r}")
            for k in range(8):
                users.setdefault(h.ids[k], []).append((x, k))
                pos = np.asarray(bmd.vertices[h.ids[k]].pos)
                for src, table in (("operation.point_array", self.points), ("generator", self.known_points)):
                    if x in table:
                        d = float(np.max(np.abs(pos - table[x][k])))
                        if d > TOL + self.half:
                            self.fail("corner-position",
                                      f"hex {bi} corner {k} -> vertex {h.ids[k]} at {tuple(pos)}, the operation's corner "
                                      f"({src}) is at {tuple(table[x][k])}", source=src, entity=self.case["entities"][x[0]]["kind"])
        for v in range(n):
            if v not in users:
                self.fail("unused-vertex", f"vertex {v} is not a corner of any written block")
            pos = np.asarray(bmd.vertices[v].pos)
            best = min(float(np.max(np.abs(pos - self.points[x][k]))) for x, k in users[v])
            if best > self.half:
                self.fail("vertex-not-a-model-point", f"vertex {v} at {tuple(pos)} is {best:g} away from the nearest corner using it")
            want = set()
            for x, k in users[v]:
                want.update(m.corner_labels[x].get(k, []))
            got = set(bmd.vertices[v].projected_to or [])
            if got != want:
                self.fail("vertex-projection",
                          f"vertex {v}: written projection {sorted(got)}, declared on its corners {sorted(want)}",
                          missing=sorted(want - got), extra=sorted(got - want), sharers=len({x for x, _ in users[v]}))
        self.users = users

    def check_counts(self) -> None:
        m, bmd = self.model, self.bmd
        hexes = [h.ids for h in bmd.blocks]
        uf, _ = families(hexes)
        fam_decl: Dict[Any, set] = {}
        for bi, x in enumerate(m.order):
            for ax in range(3):
                if (x, ax) in self.declared:
                    fam_decl.setdefault(uf.find((bi, ax)), set()).add(self.declared[(x, ax)])
        graded = {}
        for e, ent in enumerate(self.case["entities"]):
            if ent["kind"] in ("box", "extrude", "revolve", "wedge"):
                for ax, cnt, c2c in ent["chops"]:
                    if c2c is not None:
                        graded[((e, 0), ax)] = c2c ** (cnt - 1)
        for bi, x in enumerate(m.order):
            h = bmd.blocks[bi]
            g12 = hex_edge_gradings(h)
            for ax in range(3):
                if (x, ax) in self.declared and h.counts[ax] != self.declared[(x, ax)]:
                    self.fail("count-not-as-declared",
                              f"hex {bi} direction {ax}: {h.counts[ax]} cells, the operation was chopped to {self.declared[(x, ax)]}")
                decl = fam_decl.get(uf.find((bi, ax)), set())
                if len(decl) == 1 and h.counts[ax] != next(iter(decl)):
                    self.fail("count-not-of-family", f"hex {bi} direction {ax}: {h.counts[ax]} cells, its edge family was chopped to {sorted(decl)}")
                if len(decl) != 1:
                    self.ctx.label("family-without-unique-declaration")
                want = graded.get((x, ax), 1.0)
                for k in range(4 * ax, 4 * ax + 4):
                    g = g12[k]
                    if isinstance(g, list):
                        ok = sum(int(s[1]) for s in g) == h.counts[ax] and want == 1.0 and all(abs(s[2] - 1) <= 1e-9 for s in g)
                    else:
                        ok = abs(g - want) <= 1e-9 * want
                    if not ok:
                        self.fail("grading", f"hex {bi} direction {ax} edge {k}: expansion {g}, declared {want}")

    def _quad_sets(self, table: Dict[Tuple[int, int], Dict[str, str]]):
        """declared (operation, side) -> value, as {frozenset(labels of the side): {value: [(block, side)]}}"""
        out: Dict[frozenset, Dict[str, List[Tuple[int, str]]]] = {}
        for bi, x in enumerate(self.model.order):
            ids = self.bmd.blocks[bi].ids
            for side, value in sorted(table[x].items()):
                key = frozenset(ids[i] for i in HEX_SIDES[side])
                out.setdefault(key, {}).setdefault(value, []).append((bi, side))
        return out

    def _is_side_cycle(self, quad: List[int], owners: List[Tuple[int, str]]) -> bool:
        return any(xs.is_cycle_of(quad, [self.bmd.blocks[bi].ids[i] for i in HEX_SIDES[side]]) for bi, side in owners)

    def check_patches(self) -> None:
        m, bmd = self.model, self.bmd
        n = len(bmd.vertices)
        declared = self._quad_sets(m.side_patch)
        by_name: Dict[str, Dict[frozenset, List[Tuple[int, str]]]] = {}
        for key, vals in declared.items():
            for name, owners in vals.items():
                by_name.setdefault(name, {})[key] = owners
        got_names = [p.name for p in bmd.patches]
        if sorted(got_names) != sorted(by_name):
            self.fail("patch-names", f"boundary lists {sorted(got_names)}, declared {sorted(by_name)}",
                      missing=sorted(set(by_name) - set(got_names)), extra=sorted(set(got_names) - set(by_name)))
        for p in bmd.patches:
            want = by_name[p.name]
            seen = set()
            for quad in p.faces:
                if any(v < 0 or v >= n for v in quad):
                    self.fail("label-out-of-range", f"patch {p.name}: quad {quad}; there are {n} vertices", section="boundary")
                key = frozenset(quad)
                if key not in want:
                    self.fail("patch-quad-not-declared", f"patch {p.name}: quad {quad} is not a side assigned to it", patch=p.name)
                if key in seen:
                    self.fail("patch-quad-twice", f"patch {p.name}: quad {quad} listed twice", patch=p.name)
                seen.add(key)
                if not self._is_side_cycle(quad, want[key]):
                    self.fail("patch-quad-order", f"patch {p.name}: quad {quad} does not run around the side it was declared on "
                              f"({[(b, s) for b, s in want[key]]})", patch=p.name, sides=sorted({s for _, s in want[key]}))
            if seen != set(want):
                lost = [sorted(k) for k in set(want) - seen]
                self.fail("patch-quad-missing", f"patch {p.name}: declared sides {lost} are not listed", patch=p.name)
            kind = m.patch_kind.get(p.name, "patch")
            if p.type != kind:
                self.fail("patch-type", f"patch {p.name}: type {p.type!r}, declared {kind!r}", patch=p.name)
            sett = [norm_ws(s) for s in m.patch_settings.get(p.name, [])]
            if [norm_tokens(s) for s in p.settings] != sett:
                self.fail("patch-settings", f"patch {p.name}: settings {p.settings}, declared {sett}", patch=p.name)
        if bmd.default_patch != m.default:
            self.fail("default-patch", f"defaultPatch {bmd.default_patch}, declared {m.default}")
        if [tuple(x) for x in bmd.merge_pairs] != m.merges:
            self.fail("merge-pairs", f"mergePatchPairs {bmd.merge_pairs}, declared {m.merges}")

    def check_faces_and_geometry(self) -> None:
        m, bmd, case = self.model, self.bmd, self.case
        n = len(bmd.vertices)
        # built-in projections of the sphere: outer sides of its operations, to the shape's own geometry
        table = {x: dict(v) for x, v in m.side_proj.items()}
        for e, ent in enumerate(case["entities"]):
            if ent["kind"] != "hemisphere":
                continue
            for i in range(xsc.n_ops(ent)):
                for side in xsc._surface_sides(ent, self.points[(e, i)], "outer"):
                    table[(e, i)][side] = f"<sphere {e}>"
        declared = self._quad_sets(table)
        seen = set()
        used_labels: Dict[str, str] = {}
        for quad, label in bmd.faces:
            if any(v < 0 or v >= n for v in quad):
                self.fail("label-out-of-range", f"faces: quad {quad}; there are {n} vertices", section="faces")
            key = frozenset(quad)
            if key not in declared:
                self.fail("face-not-declared", f"faces: quad {quad} -> {label} is not a projected side")
            if key in seen:
                self.fail("face-twice", f"faces: quad {quad} listed twice")
            seen.add(key)
            owners = [o for v in declared[key].values() for o in v]
            if not self._is_side_cycle(quad, owners):
                self.fail("face-quad-order", f"faces: quad {quad} does not run around side {owners}")
            wanted = set(declared[key])
            spheres = [w for w in wanted if w.startswith("<sphere")]
            if spheres:
                self.sphere_face_label.setdefault(int(spheres[0].split()[1].rstrip(">")), set()).add(label)
            elif label not in wanted:
                self.fail("face-label", f"faces: quad {quad} projected to {label!r}, declared {sorted(wanted)}")
            used_labels[label] = f"face {quad}"
            if len(wanted) > 1:
                self.ctx.label("shared-face-with-two-labels")
        if seen != set(declared):
            self.fail("face-missing", f"faces: projected sides {[sorted(k) for k in set(declared) - seen]} are not listed")
        # geometry: declared entries, + one searchableSphere per Hemisphere
        for name, props in m.geometry.items():
            if name not in bmd.geometry:
                self.fail("geometry-missing", f"geometry {name!r} was added but is not written", name=name)
            # a name declared twice: which declaration holds is not specified -> any of them is accepted
            got = [norm_tokens(p) for p in bmd.geometry[name]]
            if got not in [[norm_ws(p) for p in decl] for decl in m.geometry_all[name]]:
                self.fail("geometry-props", f"geometry {name!r}: written {bmd.geometry[name]}, declared {m.geometry_all[name]}", name=name)
            if len(m.geometry_all[name]) > 1:
                self.ctx.label("geometry-redeclared")
        auto = [nm for nm in bmd.geometry if nm not in m.geometry]
        hemis = [e for e in self.sphere_labels if any(x[0] == e for x in m.order)]
        if len(auto) != len(hemis):
            self.fail("geometry-extra", f"geometry entries {auto} besides the declared ones; {len(hemis)} sphere(s) in the model")
        for e in hemis:
            ent = case["entities"][e]
            c = np.asarray(ent["ap1"]) + np.asarray(ent.get("translate", [0, 0, 0]), dtype=float)
            radius = xsc.final_size(ent)["radius"]
            match = [nm for nm in auto if _sphere_matches(bmd.geometry[nm], c, radius, self.half)]
            if not match:
                self.fail("sphere-geometry", f"no searchableSphere with centre {tuple(c)} radius {radius} among "
                          f"{[(nm, bmd.geometry[nm]) for nm in auto]}", scaled=bool(ent.get("scaled")))
            for label in sorted(self.sphere_face_label.get(e, set())):
                if label not in bmd.geometry:
                    self.fail("geometry-undefined", f"the sphere's sides are projected to {label!r}, which the geometry section "
                              f"does not define (it defines {sorted(bmd.geometry)})", user="builtin-shape", copied=bool(ent.get("copy")))
                if label not in match:
                    self.fail("sphere-geometry", f"the sphere's sides are projected to {label!r}, not to its own geometry {match}")
        # every label any projection uses is defined
        for vi, v in enumerate(bmd.vertices):
            for lb in v.projected_to or []:
                used_labels.setdefault(lb, f"vertex {vi}")
        block_edges = set()
        for h in bmd.blocks:
            for i, j in HEX_EDGES:
                block_edges.add(frozenset((h.ids[i], h.ids[j])))
        for ed in bmd.edges:
            if not (0 <= ed.a < n and 0 <= ed.b < n):
                self.fail("label-out-of-range", f"edges: {ed.kind} {ed.a} {ed.b}; there are {n} vertices", section="edges")
            if frozenset((ed.a, ed.b)) not in block_edges:
                self.fail("edge-not-on-block", f"edges: {ed.kind} {ed.a} {ed.b} is not an edge of any block")
            if ed.kind == "project":
                for lb in ed.payload:
                    used_labels.setdefault(lb, f"edge {ed.a} {ed.b}")
        for lb, where in sorted(used_labels.items()):
            if lb not in bmd.geometry:
                self.fail("geometry-undefined", f"{where} is projected to {lb!r}, which the geometry section does not define",
                          user="builtin-shape" if lb.startswith("sphere_") else "script", copied=any(
                              e.get("copy") for e in case["entities"]))

    def check_vtk(self) -> None:
        bmd = self.bmd
        try:
            vtk = parse_vtk(self.vtk_text)
        except (FoamParseError, ValueError, IndexError) as ex:
            self.fail("vtk-unparsable", f"debug VTK does not parse: {ex}")
        if len(vtk.points) != len(bmd.vertices):
            self.fail("vtk-points", f"VTK lists {len(vtk.points)} points, the dictionary {len(bmd.vertices)} vertices")
        for i, (p, v) in enumerate(zip(vtk.points, bmd.vertices)):
            if max(abs(a - b) for a, b in zip(p, v.pos)) > self.half:
                self.fail("vtk-points", f"VTK point {i} {p} differs from vertex {i} {v.pos}")
        if vtk.cells != [list(h.ids) for h in bmd.blocks]:
            self.fail("vtk-cells", "VTK cells differ from the hex entries", vtk=vtk.cells[:3], hexes=[h.ids for h in bmd.blocks[:3]])
        if vtk.cell_types != [12] * len(bmd.blocks):
            self.fail("vtk-cell-types", f"VTK cell types {vtk.cell_types[:5]}... (12 = hexahedron expected)")


def _is_number(tok: str) -> bool:
    try:
        float(tok)
        return True
    except ValueError:
        return False


def _sphere_matches(props: List[List[str]], centre: np.ndarray, radius: float, half: float) -> bool:
    """centre printed with 8 decimals; the radius is a difference of two positions, so it carries their rounding"""
    d = {p[0]: p[1:] for p in props}
    if d.get("type") != ["searchableSphere"] or "radius" not in d:
        return False
    cen = d.get("centre") or d.get("origin")
    if not cen:
        return False
    vals = [float(t) for t in tokenize(cen[0]) if t not in "()"]
    return (len(vals) == 3 and float(np.max(np.abs(np.asarray(vals) - centre))) <= half + 1e-9
            and abs(float(d["radius"][0]) - radius) <= 1e-9 * radius + (half - HALF_ULP))


def check_program(case, ctx: Ctx) -> None:
    ck = Checker(case, ctx)
    ck.run()
    ck.check_all()
    m, users, bmd = ck.model, ck.users, ck.bmd
    if ck.second_stage():
        ck.check_all()
        ctx.label("stage2:" + case["stage2"]["kind"])
        if any(v.projected_to for v in ck.bmd.vertices):
            ctx.label("stage2-with-projected-vertex")
        lost = {x for x in m.order if x not in ck.model.order}
        if any(m.corner_labels[x].get(k) for u in users.values() if len({y for y, _ in u}) >= 2 for x, k in u if x in lost):
            ctx.label("stage2-drops-a-neighbour-with-corner-projection")
    ck.model, ck.users, ck.bmd = m, users, bmd
    kinds = [k for k in m.kinds_used if k != "add"]
    ctx.nt(len(m.order) >= 2 and len(kinds) >= 3 and len(set(kinds)) >= 2)
    ctx.label(*sorted({"stmt:" + k for k in kinds}))
    ctx.label(*sorted({"ent:" + e["kind"] for e in case["entities"]}))
    if m.deleted:
        ctx.label("has-delete")
    if any(case["entities"][e]["kind"] == "hemisphere" for e, _ in m.deleted):
        ctx.label("hemisphere-partly-deleted")
    ctx.label("finish:" + case.get("finish", "write"))
    if case.get("finish", "write") in ("clear+assemble", "backport") and ck.bmd.faces:
        ctx.label("reassembled-with-projected-faces")
    for ent in case["entities"]:
        if ent.get("scaled"):
            ctx.label("scaled:" + ent["kind"])
    if case.get("shift"):
        ctx.label("far-from-origin" if max(abs(v) for v in case["shift"]) >= 1e5 else "shift-1e3")
    if m.skip_modify:
        ctx.label("modify-skipped")
    if any(len({x for x, _ in u}) >= 2 for u in ck.users.values()):
        ctx.label("shared-vertices")
    if any(v.projected_to for v in ck.bmd.vertices):
        ctx.label("projected-vertex")
    if any(v.projected_to and len({x for x, _ in ck.users[i]}) >= 2 for i, v in enumerate(ck.bmd.vertices)):
        ctx.label("projected-shared-vertex")
    if ck.bmd.faces:
        ctx.label("projected-face")
    if ck.bmd.patches:
        ctx.label("has-patch")
    ctx.label("blocks=%s" % ("1" if len(m.order) == 1 else "2-4" if len(m.order) <= 4 else "5-9" if len(m.order) <= 9 else "10+"))


SIMPLE = ["box", "box", "cluster", "cluster", "cluster", "extrude", "revolve", "wedge", "stacked"]

CELLS = [
    Cell("C06/program/simple", xsc.program(kinds=SIMPLE, max_entities=3, max_statements=10), check_program, 600, 20000,
         "single-block operations, lattice clusters of Lofts and merged stacked boxes"),
    Cell("C06/program/shapes", xsc.program(kinds=["cylinder", "ring", "hemisphere", "stack", "stack"], max_entities=2, max_statements=8),
         check_program, 180, 6000, "Cylinder / ExtrudedRing / Hemisphere / ExtrudedStack(Grid) incl. shape-level patches and zones"),
    Cell("C06/program/mixed", xsc.program(max_entities=3, max_statements=10), check_program, 220, 7000,
         "all entity kinds mixed"),
    Cell("C06/program/projections", xsc.program(kinds=["cluster"], max_entities=2, max_statements=10, allow_delete=False,
                                                only=["project_corner", "project_side", "project_corner", "set_patch"]),
         check_program, 350, 12000, "clusters of Lofts with many corner/side projections on shared corners and faces"),
    Cell("C06/witness/sphere-copy", xsc.program(kinds=["hemisphere"], max_entities=1, max_statements=3, sphere_copy=True),
         check_program, 6, 60, "Hemisphere(...).copy(): the geometry its sides project to must be defined (ledger F15)"),
]
