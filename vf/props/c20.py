"""C20 — construction and life-cycle preconditions are enforced, on both sides (DESIGN.md section 4, C20)."""

from __future__ import annotations

import math
import os  # noqa: E401

# single-threaded BLAS: scipy.linalg.expm inside the library spins on a shared machine (performance only)
for _v in ("OPENBLAS_NUM_THREADS", "OMP_NUM_THREADS", "MKL_NUM_THREADS"):
    os.environ.setdefault(_v, "1")

import warnings
from typing import Any, Callable, Dict, List, Optional

import numpy as np
from hypothesis import strategies as st

from vf import core
from vf.core import Cell, Ctx, Violation
from vf.refmodel import HEX_EDGES, rodrigues

warnings.simplefilter("ignore")

import classy_blocks as cb  # noqa: E402
from classy_blocks.construct import edges as cbe  # noqa: E402
from classy_blocks.construct.flat.sketches.annulus import Annulus  # noqa: E402
from classy_blocks.construct.flat.sketches.mapped import MappedSketch  # noqa: E402
from classy_blocks.construct.point import Point  # noqa: E402
from classy_blocks.construct.shape import LoftedShape  # noqa: E402
from classy_blocks.grading.chop import Chop  # noqa: E402
from classy_blocks.grading.grading import Grading  # noqa: E402
from classy_blocks.items.block import Block  # noqa: E402
from classy_blocks.items.edges.factory import factory  # noqa: E402
from classy_blocks.items.side import Side  # noqa: E402
from classy_blocks.items.vertex import Vertex  # noqa: E402
from classy_blocks.optimize.clamps.curve import LineClamp  # noqa: E402
from classy_blocks.optimize.clamps.free import FreeClamp  # noqa: E402
from classy_blocks.optimize.clamps.surface import PlaneClamp  # noqa: E402
from classy_blocks.optimize.links import TranslationLink  # noqa: E402
from classy_blocks.optimize.optimizer import MeshOptimizer, SketchOptimizer  # noqa: E402
from classy_blocks.util.frame import Frame  # noqa: E402

RULE = (
    "One cell per call site and listed precondition. Every generated argument set carries the class expected from the "
    "documented condition (docstring / exception message / the property's own list): 'reject' (any exception passes, a "
    "silent return is a violation), 'accept' (a clearly valid argument set, an exception is a violation) or 'open' (the "
    "documented condition is silent, not in the property's list, or the value is within the no-assert band of a tolerance "
    "- the outcome is only counted). Symmetric conditions are generated with both signs of the deviation in one case. "
    "Non-trivial: the argument is within one step of the boundary (index -1 / max+1, count +-1, deviation or excess "
    "<= 1e-2 relative, third label, first call before assembly) or on the second side of a symmetric condition. "
    "distinct = distinct generated case."
)
ASSUMPTIONS = [
    "any Exception subclass counts as a rejection (the statement names families; IndexError/TypeError are still not a "
    "silent build)",
    "rejection is asserted only for the conditions the statement lists: point/edge/vertex counts, corner and axis indices "
    "outside the documented range (negative ones included: the documented ranges are 0..3, 0..7, 0..2), a third distinct "
    "projection surface on an edge, length_ratio outside (0, 1], inner radius >= outer, radius vector not perpendicular "
    "to the axis, negative chain length, different face counts, second clamp on a vertex, clamp/link off every vertex, "
    "grade/backport before assembly.  A pair of in-range corners that is no edge of the hexahedron is treated as an index "
    "outside the valid set as well (documented by CornerPairError and Frame.add_beam).  Coordinates per point, "
    "Loft.from_series with < 2 faces, zero projection labels, chain length 0, non-positive radii and a link whose leader "
    "and follower coincide are counted, not judged",
    "tolerance bands: perpendicularity / coplanarity are compared by the library with TOL = 1e-7 on an un-normalised "
    "product; rejection is asserted only when every plausible normalisation of that product is >= 1e-5 (100 x TOL), "
    "acceptance only for a deviation of exactly 0 (rounding <= 1e-13); point matching of clamps and links uses TOL: "
    "offsets are 0 or >= 1e-4; length_ratio: reject asserted for <= -1e-6, = 0, >= 1 + 1e-5, accept for [1e-6, 1]; radii: "
    "inner = outer * (1 + d), reject for d = 0 and d >= 1e-9, accept for d <= -1e-3; chain length: reject <= -1e-6, accept "
    ">= 1e-3",
    "'accept' cases are built like the test-suite's own valid calls (perpendicular frames, positive radii and lengths)",
    "clamp/link grids sit near the origin or 1000 units away (the documented matching tolerance TOL is absolute); a junction "
    "moved by GridBase.update by 0.02..0.2 leaves its former position without a vertex (nearest vertex >= 0.02 away)",
]

# --------------------------------------------------------------------------------------------------
# judging


def judge(ctx: Ctx, site: str, klass: str, expected: str, thunk: Callable[[], Any], **facts: Any) -> Optional[BaseException]:
    """runs the call under test, compares with the expected class; returns the exception (or None)"""
    try:
        thunk()
        raised: Optional[BaseException] = None
    except Exception as ex:  # noqa: BLE001
        raised = ex
    ctx.label(f"{klass}:{expected}:{'raised' if raised is not None else 'returned'}")
    if raised is not None and not isinstance(raised, (ValueError, KeyError, RuntimeError)) and "Error" in type(raised).__name__ \
            and not type(raised).__module__.startswith("classy_blocks"):
        ctx.label(f"rejected-by:{type(raised).__name__}")
    if expected == "reject" and raised is None:
        raise Violation("invalid-accepted", f"{site}: {klass} was accepted without an exception ({facts})",
                        site=site, klass=klass, **facts)
    if expected == "accept" and raised is not None:
        raise Violation("valid-rejected", f"{site}: valid arguments ({klass}) raised {type(raised).__name__}: {raised} ({facts})",
                        site=site, klass=klass, error=type(raised).__name__, **facts)
    return raised


def fixture(site: str, build: Callable[[], Any], **facts: Any):
    """builds a valid object the call under test needs; its rejection is a rejection of valid arguments"""
    try:
        return build()
    except Exception as ex:  # noqa: BLE001
        raise Violation("valid-rejected", f"{site}: fixture built from valid arguments raised {type(ex).__name__}: {ex}",
                        site=site + "/fixture", klass="fixture", error=type(ex).__name__, **facts) from None


# --------------------------------------------------------------------------------------------------
# shared generators

_unit3 = st.tuples(st.floats(-1, 1), st.floats(-1, 1), st.floats(-1, 1)).map(list)


@st.composite
def frame_st(draw):
    return {"axis": draw(_unit3), "angle": draw(st.floats(-math.pi, math.pi)),
            "origin": [draw(st.floats(-10, 10)) for _ in range(3)]}


def frame_of(fr):
    v = np.asarray(fr["axis"], dtype=float)
    if np.linalg.norm(v) < 1e-3:
        v = np.array([0.0, 0.0, 1.0])
    R = rodrigues(v, fr["angle"])
    return np.asarray(fr["origin"], dtype=float), R[:, 0], R[:, 1], R[:, 2]


def logmag(lo: float, hi: float):
    return st.floats(math.log10(lo), math.log10(hi)).map(lambda u: 10.0**u)


def pick(*weighted):
    """weighted: (weight, strategy) pairs; an explicit selector keeps the classes balanced"""
    table = [s_ for w, s_ in weighted for _ in range(w)]
    return st.sampled_from(list(range(len(table)))).flatmap(lambda i: table[i])


def index_st(lo_valid: int, hi_valid: int):
    """indices around a documented range lo..hi: both boundaries, one and several steps outside"""
    edge = st.sampled_from([lo_valid - 1, lo_valid, hi_valid, hi_valid + 1])
    return st.one_of(edge, st.integers(lo_valid - 9, hi_valid + 9))


def index_class(i: int, lo: int, hi: int) -> str:
    if i < lo:
        return "negative-index" if i < 0 else "below-range"
    if i > hi:
        return "above-range"
    return "in-range"


def near_index(i: int, lo: int, hi: int) -> bool:
    return i in (lo - 1, lo, hi, hi + 1)


SQUARE = np.array([[0, 0, 0], [1, 0, 0], [1, 1, 0], [0, 1, 0]], dtype=float)


def quad_in_frame(fr, sx=1.0, sy=1.0, skew=0.0) -> np.ndarray:
    o, e1, e2, _ = frame_of(fr)
    uv = [(0, 0), (sx, 0), (sx + skew, sy), (skew, sy)]
    return np.array([o + u * e1 + v * e2 for u, v in uv])


def loft_in_frame(fr) -> Any:
    o, e1, e2, e3 = frame_of(fr)
    q = quad_in_frame(fr)
    return cb.Loft(cb.Face(q), cb.Face(q + e3))


# --------------------------------------------------------------------------------------------------
# counts


def check_face_points(case, ctx: Ctx) -> None:
    n, dim = case["n"], case["dim"]
    base = quad_in_frame(case["frame"])
    pts = [[float(base[i % 4][j % 3]) + 0.1 * (i // 4) + 0.01 * (j // 3) for j in range(dim)] for i in range(n)]
    if dim != 3:
        expected = "open" if n == 4 else "reject"  # coordinates per point are not in the statement's list
    else:
        expected = "accept" if n == 4 else "reject"
    if case["as_array"] and n > 0 and dim > 0:
        arg: Any = np.array(pts)
    else:
        arg = pts
    judge(ctx, "Face(points)", f"points={'4' if n == 4 else '<4' if n < 4 else '>4'}" + ("" if dim == 3 else ",dim!=3"),
          expected, lambda: cb.Face(arg), n=n, dim=dim)
    ctx.nt(dim == 3 and n in (3, 4, 5))


def check_face_edges(case, ctx: Ctx) -> None:
    pts = quad_in_frame(case["frame"])
    n = case["n"]
    data = [cbe.Arc(pts[i % 4] + [0.1, 0.2, 0.3]) if k else None for i, k in zip(range(n), case["curved"])]
    expected = "accept" if n == 4 else "reject"
    judge(ctx, "Face(points, edges)", f"edges={'4' if n == 4 else '<4' if n < 4 else '>4'}", expected,
          lambda: cb.Face(pts, data), n=n)
    ctx.nt(n in (3, 4, 5))


def check_side_vertices(case, ctx: Ctx) -> None:
    n = case["n"]
    verts = [Vertex([float(i % 2), float((i // 2) % 2), float(i // 4)], i) for i in range(n)]
    expected = "accept" if n == 8 else "reject"
    judge(ctx, "Side(orient, vertices)", f"vertices={'8' if n == 8 else '<8' if n < 8 else '>8'}", expected,
          lambda: Side(case["orient"], verts), n=n, orient=case["orient"])
    ctx.nt(n in (7, 8, 9))


def check_spline_points(case, ctx: Ctx) -> None:
    n = case["n"]
    o, e1, e2, e3 = frame_of(case["frame"])
    pts = [(o + 0.3 * i * e1 + 0.1 * i * i * e2).tolist() for i in range(n)]
    cls = cbe.Spline if case["kind"] == "spline" else cbe.PolyLine
    expected = "accept" if n >= 2 else "reject"
    judge(ctx, f"{cls.__name__}(points)", f"points={'>=2' if n >= 2 else n}", expected, lambda: cls(pts), n=n)
    ctx.nt(n in (1, 2))


def check_open_counts(case, ctx: Ctx) -> None:
    """documented, but not in the statement's list: counted only"""
    fr = case["frame"]
    n = case["n"]
    if case["what"] == "from_series":
        o, e1, e2, e3 = frame_of(fr)
        faces = [cb.Face(quad_in_frame(fr) + k * e3) for k in range(n)]
        judge(ctx, "Loft.from_series", f"faces={n}", "accept" if n >= 2 else "open", lambda: cb.Loft.from_series(faces), n=n)
    elif case["what"] == "point":
        judge(ctx, "Point(position)", f"coords={n}", "accept" if n == 3 else "open", lambda: Point([0.5] * n), n=n)
    else:
        labels = [f"s{i}" for i in range(n)]
        judge(ctx, "Project(labels)", f"labels={n}", "open" if n == 0 else "accept" if n <= 2 else "reject",
              lambda: cbe.Project(labels), n=n)
    ctx.nt(True)


# --------------------------------------------------------------------------------------------------
# indices


def check_face_add_edge(case, ctx: Ctx) -> None:
    i = case["index"]
    face = cb.Face(quad_in_frame(case["frame"]))
    data = cbe.Arc([0.5, -0.2, 0.1]) if case["curved"] else None
    k = index_class(i, 0, 3)
    judge(ctx, "Face.add_edge", k, "accept" if k == "in-range" else "reject", lambda: face.add_edge(i, data), index=i)
    ctx.nt(near_index(i, 0, 3))


def check_add_side_edge(case, ctx: Ctx) -> None:
    i = case["index"]
    op = loft_in_frame(case["frame"])
    k = index_class(i, 0, 3)
    judge(ctx, "Operation.add_side_edge", k, "accept" if k == "in-range" else "reject",
          lambda: op.add_side_edge(i, cbe.Arc([0.5, -0.2, 0.1])), index=i)
    ctx.nt(near_index(i, 0, 3))


def check_project_corner(case, ctx: Ctx) -> None:
    i = case["index"]
    op = loft_in_frame(case["frame"])
    k = index_class(i, 0, 7)
    label: Any = "terrain" if case["single"] else ["terrain", "wall"]
    judge(ctx, "Operation.project_corner", k, "accept" if k == "in-range" else "reject",
          lambda: op.project_corner(i, label), index=i)
    ctx.nt(near_index(i, 0, 7))


HEX_EDGE_SETS = [frozenset(e) for e in HEX_EDGES]


def pair_class(a: int, b: int) -> str:
    ka, kb = index_class(a, 0, 7), index_class(b, 0, 7)
    if ka == "in-range" and kb == "in-range":
        return "edge" if frozenset((a, b)) in HEX_EDGE_SETS else "in-range-not-an-edge"
    for k in ("negative-index", "above-range"):
        if k in (ka, kb):
            return k
    raise AssertionError((a, b))


def pair_expected(k: str) -> str:
    # a pair of valid corner numbers that is no edge of the hexahedron (diagonals, corners of different faces, twice the
    # same corner) violates the documented precondition as well: CornerPairError "Raised when given pair of corners is not
    # valid (for example, edge between 0 and 2)", Frame.add_beam "raises an exception if the given pair does not represent a
    # beam" - the second index is outside the set of corners the first one has an edge with
    return "accept" if k == "edge" else "reject"


def pair_st():
    edge = st.sampled_from([tuple(e) for e in HEX_EDGES]).flatmap(lambda e: st.sampled_from([e, (e[1], e[0])]))
    # one corner of a real edge pushed out of range in a way that list indexing would wrap (c - 8) or overflow (c + 8)
    wrapped = st.tuples(edge, st.sampled_from([0, 1]), st.sampled_from([-8, 8])).map(
        lambda t: tuple(c + (t[2] if i == t[1] else 0) for i, c in enumerate(t[0])))
    free = st.tuples(st.integers(-9, 16), st.integers(-9, 16))
    return st.one_of(edge, wrapped, wrapped, free).map(list)


def check_project_edge(case, ctx: Ctx) -> None:
    a, b = case["pair"]
    op = loft_in_frame(case["frame"])
    k = pair_class(a, b)
    judge(ctx, "Operation.project_edge", k, pair_expected(k), lambda: op.project_edge(a, b, "terrain"), pair=[a, b])
    ctx.nt(k in ("edge", "in-range-not-an-edge") or min(a, b) in (-1, -8) or max(a, b) in (8, 15))


def check_block_add_edge(case, ctx: Ctx) -> None:
    a, b = case["pair"]
    verts = [Vertex([float(x), float(y), float(z)], i) for i, (x, y, z) in
             enumerate([(0, 0, 0), (1, 0, 0), (1, 1, 0), (0, 1, 0), (0, 0, 1), (1, 0, 1), (1, 1, 1), (0, 1, 1)])]
    block = fixture("Block.add_edge", lambda: Block(0, verts))
    edge = fixture("Block.add_edge", lambda: factory.create(verts[0], verts[1], cbe.Line()))
    k = pair_class(a, b)
    judge(ctx, "Block.add_edge", k, pair_expected(k), lambda: block.add_edge(a, b, edge), pair=[a, b])
    ctx.nt(k in ("edge", "in-range-not-an-edge") or min(a, b) in (-1, -8) or max(a, b) in (8, 15))


def check_frame_add_beam(case, ctx: Ctx) -> None:
    a, b = case["pair"]
    fr = Frame()
    k = pair_class(a, b)
    judge(ctx, "Frame.add_beam", k, pair_expected(k), lambda: fr.add_beam(a, b, "beam"), pair=[a, b])
    ctx.nt(k in ("edge", "in-range-not-an-edge") or min(a, b) in (-1, -8) or max(a, b) in (8, 15))


def check_chop_axis(case, ctx: Ctx) -> None:
    i = case["index"]
    op = loft_in_frame(case["frame"])
    k = index_class(i, 0, 2)
    judge(ctx, "Operation.chop", k, "accept" if k == "in-range" else "reject", lambda: op.chop(i, count=case["count"]), index=i)
    ctx.nt(near_index(i, 0, 2))


# --------------------------------------------------------------------------------------------------
# projection surfaces on an edge


def check_project_labels(case, ctx: Ctx) -> None:
    """Project(first) then add_label(second): distinct labels in total decide"""
    first, second = case["first"], case["second"]
    total = len(set(first) | set(second))
    arg1: Any = first[0] if len(first) == 1 and case["as_str"] else first
    if len(set(first)) != len(first):
        e1 = "open"  # repeated names: the documented condition counts surfaces
    else:
        e1 = "accept" if len(first) <= 2 else "reject"
    holder: Dict[str, Any] = {}

    def make():
        holder["edge"] = cbe.Project(arg1)

    raised = judge(ctx, "Project(labels)", f"labels={len(set(first))}", e1, make, labels=first)
    if raised is None and "edge" in holder and second:
        arg2: Any = second[0] if len(second) == 1 and case["as_str"] else second
        if len(set(first)) != len(first):
            e2 = "open"
        else:
            e2 = "accept" if total <= 2 else "reject"
        judge(ctx, "Project.add_label", f"total={min(total, 3)}{'+' if total > 3 else ''}", e2,
              lambda: holder["edge"].add_label(arg2), labels=first, added=second)
    ctx.nt(total == 3 or len(first) == 3)


def check_repeated_project_edge(case, ctx: Ctx) -> None:
    """the same edge of an operation / face projected by successive calls"""
    op = loft_in_frame(case["frame"])
    a, b = case["edge"]
    seen: List[str] = []
    for step, (lab, flip) in enumerate(zip(case["labels"], case["flips"])):
        labs = lab if isinstance(lab, list) else [lab]
        new = [x for x in labs if x not in seen]
        total = len(seen) + len(set(new))
        c1, c2 = (b, a) if flip else (a, b)
        if case["via"] == "operation":
            site, call = "Operation.project_edge(repeated)", (lambda: op.project_edge(c1, c2, lab))
        else:
            face = op.top_face if min(a, b) >= 4 else op.bottom_face
            lo, hi = sorted((a % 4, b % 4))
            corner = 3 if (lo, hi) == (0, 3) else lo
            site, call = "Face.project_edge(repeated)", (lambda: face.project_edge(corner, lab))
        raised = judge(ctx, site, f"surfaces={min(total, 3)}{'+' if total > 3 else ''}", "accept" if total <= 2 else "reject", call,
                       step=step, labels=case["labels"][: step + 1], edge=[a, b])
        if raised is not None:
            break
        seen.extend(dict.fromkeys(new))
    ctx.nt(len(case["labels"]) >= 3)


_label = st.sampled_from(["terrain", "wall", "sky", "sea", "roof"])
_label_arg = st.one_of(_label, _label, st.lists(_label, min_size=1, max_size=2, unique=True))


@st.composite
def repeated_case(draw, via):
    if via == "operation":
        edge = list(draw(st.sampled_from([tuple(e) for e in HEX_EDGES])))
    else:
        edge = list(draw(st.sampled_from([tuple(e) for e in HEX_EDGES if abs(e[0] - e[1]) != 4])))
    n = draw(st.integers(1, 4))
    return {"frame": draw(frame_st()), "via": via, "edge": edge, "labels": [draw(_label_arg) for _ in range(n)],
            "flips": [draw(st.booleans()) for _ in range(n)]}


# --------------------------------------------------------------------------------------------------
# length ratio

_lr = st.one_of(
    st.sampled_from([-1.0, -1e-3, -1e-6, 0.0, 1e-6, 1e-3, 0.5, 1.0 - 1e-9, 1.0, 1.0 + 1e-5, 1.0 + 1e-3, 1.5, 10.0]),
    st.floats(-1.0, 2.0),
)


def lr_class(lr: float):
    if lr <= -1e-6 or lr == 0.0:
        return "ratio<=0", "reject"
    if lr >= 1.0 + 1e-5:
        return "ratio>1", "reject"
    if 1e-6 <= lr <= 1.0:
        return "ratio-in-(0,1]", "accept"
    return "ratio-near-boundary", "open"


def check_length_ratio(case, ctx: Ctx) -> None:
    lr = case["length_ratio"]
    k, expected = lr_class(lr)
    g = Grading(case["L"])
    judge(ctx, "Grading.add_chop", k, expected, lambda: g.add_chop(Chop(length_ratio=lr, count=case["count"])), length_ratio=lr)
    ctx.nt(abs(lr) <= 1e-2 or abs(lr - 1) <= 1e-2)


def check_length_ratio_write(case, ctx: Ctx) -> None:
    """through the public pipeline: Operation.chop(length_ratio=...) and Mesh.write"""
    lr = case["length_ratio"]
    k, expected = lr_class(lr)
    if expected == "accept" and not (0.02 <= lr <= 0.98 or lr == 1.0):
        expected = "open"  # a second section 1 - lr must be meaningful as well
    op = loft_in_frame(case["frame"])
    ax = case["axis"]
    for a in range(3):
        if a != ax:
            op.chop(a, count=2)
    path = os.path.join(core.scratch_dir(), "c20_blockMeshDict")

    def call():
        op.chop(ax, length_ratio=lr, count=case["count"])
        if expected != "reject" and lr != 1.0:
            op.chop(ax, length_ratio=1.0 - lr, count=2)
        mesh = cb.Mesh()
        mesh.add(op)
        mesh.write(path)

    judge(ctx, "Operation.chop(length_ratio)+Mesh.write", k, expected, call, length_ratio=lr, axis=ax)
    ctx.nt(abs(lr) <= 1e-2 or abs(lr - 1) <= 1e-2)


# --------------------------------------------------------------------------------------------------
# inner radius below outer

_rel_dev = pick(                                            # (Hypothesis favours the first entry: keep it ordinary)
    (2, logmag(1e-3, 0.9).map(lambda x: -x)),                # inner below outer
    (2, logmag(1e-9, 3.0)),                                  # inner above outer
    (2, st.just(0.0)),
    (1, st.sampled_from([1e-9, 1e-6, 1e-3, -1e-3, -0.5, 0.5])),
)


def radius_class(d: float):
    if d == 0.0:
        return "inner-equals-outer", "reject"
    if d >= 1e-9:
        return "inner-above-outer", "reject"
    if -0.9 <= d <= -1e-3:
        return "inner-below-outer", "accept"
    return "inner-near-outer", "open"


@st.composite
def ring_case(draw):
    return {"frame": draw(frame_st()), "R": draw(logmag(0.1, 10)), "L": draw(logmag(0.1, 10)), "d": draw(_rel_dev),
            "n": draw(st.sampled_from([3, 4, 5, 6, 8, 8, 9, 12]))}


def check_annulus_radius(case, ctx: Ctx) -> None:
    o, e1, e2, e3 = frame_of(case["frame"])
    R, d = case["R"], case["d"]
    k, expected = radius_class(d)
    inner = R * (1 + d)
    judge(ctx, "Annulus", k, expected, lambda: Annulus(o, o + R * e1, e3, inner, case["n"]), d=d, R=R, n=case["n"])
    ctx.nt(abs(d) <= 1e-2)


def check_ring_radius(case, ctx: Ctx) -> None:
    o, e1, e2, e3 = frame_of(case["frame"])
    R, d, L = case["R"], case["d"], case["L"]
    k, expected = radius_class(d)
    inner = R * (1 + d)
    judge(ctx, "ExtrudedRing", k, expected, lambda: cb.ExtrudedRing(o, o + L * e3, o + R * e1, inner, case["n"]), d=d, R=R, n=case["n"])
    ctx.nt(abs(d) <= 1e-2)


def check_contract_radius(case, ctx: Ctx) -> None:
    """contract(): the source's inner radius becomes the new outer one"""
    o, e1, e2, e3 = frame_of(case["frame"])
    R, d, L = case["R"], case["d"], case["L"]
    k, expected = radius_class(d)
    r0 = 0.6 * R
    ring = fixture("ExtrudedRing.contract", lambda: cb.ExtrudedRing(o, o + L * e3, o + R * e1, r0, case["n"]), R=R, n=case["n"])
    judge(ctx, "ExtrudedRing.contract", k, expected, lambda: cb.ExtrudedRing.contract(ring, r0 * (1 + d)), d=d, R=R, n=case["n"])
    ctx.nt(abs(d) <= 1e-2)


# --------------------------------------------------------------------------------------------------
# perpendicular radius vector, both signs


@st.composite
def lean_case(draw):
    delta = draw(pick((3, logmag(1e-3, 0.5)), (2, st.just(0.0)), (1, logmag(1e-9, 1e-3)), (1, st.sampled_from([0.5, 0.1, 1e-3]))))
    return {"frame": draw(frame_st()), "R": draw(logmag(0.1, 10)), "L": draw(logmag(0.1, 10)), "delta": delta,
            "first": draw(st.sampled_from([1, -1])), "n": draw(st.sampled_from([4, 8, 8, 6]))}


def lean_expected(delta: float, L: float, R: float) -> str:
    if delta == 0.0:
        return "accept"
    # smallest value any normalisation of dot(axis, radius) can take
    m = abs(delta) / math.sqrt(1 + delta * delta) * min(1.0, L) * min(1.0, R)
    return "reject" if m >= 1e-5 else "open"


def _check_lean(case, ctx: Ctx, site: str, build: Callable[[np.ndarray, np.ndarray, np.ndarray], Any]) -> None:
    o, e1, e2, e3 = frame_of(case["frame"])
    R, L, delta = case["R"], case["L"], case["delta"]
    expected = lean_expected(delta, L, R)
    signs = [case["first"], -case["first"]] if delta != 0.0 else [1]
    for s in signs:
        lean = "perpendicular" if delta == 0.0 else ("leaning-along-axis" if s > 0 else "leaning-against-axis")
        rp = o + R * (e1 + s * delta * e3)
        judge(ctx, site, lean, expected, lambda: build(o, o + L * e3, rp), delta=s * delta, L=L, R=R)
    ctx.nt(delta != 0.0 and expected == "reject")


def check_lean_cylinder(case, ctx):
    _check_lean(case, ctx, "Cylinder", lambda a, b, r: cb.Cylinder(a, b, r))


def check_lean_semicylinder(case, ctx):
    _check_lean(case, ctx, "SemiCylinder", lambda a, b, r: cb.SemiCylinder(a, b, r))


def check_lean_frustum(case, ctx):
    R = case["R"]
    _check_lean(case, ctx, "Frustum", lambda a, b, r: cb.Frustum(a, b, r, 0.6 * R))


def check_lean_annulus(case, ctx):
    R, n = case["R"], case["n"]
    _check_lean(case, ctx, "Annulus(perpendicular)", lambda a, b, r: Annulus(a, r, b - a, 0.5 * R, n))


def check_lean_ring(case, ctx):
    R, n = case["R"], case["n"]
    _check_lean(case, ctx, "ExtrudedRing(perpendicular)", lambda a, b, r: cb.ExtrudedRing(a, b, r, 0.5 * R, n))


@st.composite
def coplanar_case(draw):
    return {"frame": draw(frame_st()), "sx": draw(st.floats(0.5, 2.0)), "sy": draw(st.floats(0.5, 2.0)),
            "skew": draw(st.floats(-0.3, 0.3)), "corner": draw(st.integers(0, 3)),
            "h": draw(pick((3, logmag(1e-3, 0.5)), (1, st.just(0.0)), (1, logmag(1e-9, 1e-3)))),
            "first": draw(st.sampled_from([1, -1]))}


def check_coplanar(case, ctx: Ctx) -> None:
    o, e1, e2, e3 = frame_of(case["frame"])
    base = quad_in_frame(case["frame"], case["sx"], case["sy"], case["skew"])
    h = case["h"]
    signs = [case["first"], -case["first"]] if h != 0.0 else [1]
    for s in signs:
        pts = base.copy()
        pts[case["corner"]] += s * h * e3
        # the documented measure (message of the error) and the plain distance from the plane
        triple = abs(np.dot(pts[1] - pts[0], np.cross(pts[3] - pts[0], pts[2] - pts[0])))
        if h == 0.0:
            expected = "accept"
        else:
            expected = "reject" if min(triple, h) >= 1e-5 else "open"
        klass = "coplanar" if h == 0.0 else ("lifted-up" if s > 0 else "lifted-down")
        judge(ctx, "Face(check_coplanar)", klass, expected, lambda: cb.Face(pts, check_coplanar=True), h=s * h,
              corner=case["corner"])
    ctx.nt(h != 0.0 and min(triple, h) >= 1e-5)


# --------------------------------------------------------------------------------------------------
# chain lengths

_length = pick(
    (3, logmag(1e-3, 10.0)), (3, logmag(1e-6, 10.0).map(lambda x: -x)), (1, st.sampled_from([-1.0, -1e-6, -1e-3, 1e-3, 1.0])),
    (1, st.sampled_from([0.0, 1e-9, -1e-9])),
)


def length_class(x: float):
    if x <= -1e-6:
        return "negative-length", "reject"
    if x >= 1e-3:
        return "positive-length", "accept"
    return "length-near-zero", "open"


@st.composite
def chain_case(draw, sources):
    return {"frame": draw(frame_st()), "R": draw(logmag(0.1, 10)), "L": draw(logmag(0.1, 10)), "length": draw(_length),
            "start_face": draw(st.booleans()), "source": draw(st.sampled_from(sources)), "n": draw(st.sampled_from([4, 8, 6]))}


def _source(case, site):
    o, e1, e2, e3 = frame_of(case["frame"])
    R, L = case["R"], case["L"]
    if case["source"] == "cylinder":
        return fixture(site, lambda: cb.Cylinder(o, o + L * e3, o + R * e1), source=case["source"])
    if case["source"] == "frustum":
        return fixture(site, lambda: cb.Frustum(o, o + L * e3, o + R * e1, 0.7 * R), source=case["source"])
    return fixture(site, lambda: cb.ExtrudedRing(o, o + L * e3, o + R * e1, 0.5 * R, case["n"]), source=case["source"])


def check_chain_cylinder(case, ctx: Ctx) -> None:
    src = _source(case, "Cylinder.chain")
    k, expected = length_class(case["length"])
    judge(ctx, "Cylinder.chain", k, expected, lambda: cb.Cylinder.chain(src, case["length"], case["start_face"]),
          length=case["length"], start_face=case["start_face"], source=case["source"])
    ctx.nt(abs(case["length"]) <= 1e-2 or case["start_face"])


def check_chain_frustum(case, ctx: Ctx) -> None:
    src = _source(case, "Frustum.chain")
    k, expected = length_class(case["length"])
    judge(ctx, "Frustum.chain", k, expected,
          lambda: cb.Frustum.chain(src, case["length"], 0.5 * case["R"], case["start_face"]),
          length=case["length"], start_face=case["start_face"], source=case["source"])
    ctx.nt(abs(case["length"]) <= 1e-2 or case["start_face"])


def check_chain_ring(case, ctx: Ctx) -> None:
    src = _source(case, "ExtrudedRing.chain")
    k, expected = length_class(case["length"])
    judge(ctx, "ExtrudedRing.chain", k, expected, lambda: cb.ExtrudedRing.chain(src, case["length"], case["start_face"]),
          length=case["length"], start_face=case["start_face"], source=case["source"])
    ctx.nt(abs(case["length"]) <= 1e-2 or case["start_face"])


# --------------------------------------------------------------------------------------------------
# face counts of sketches


def check_sketch_counts(case, ctx: Ctx) -> None:
    """mids: None | int (a single sketch passed bare) | list of 1-3 ints (a list of sketches)"""
    o, e1, e2, e3 = frame_of(case["frame"])
    n1, n2, mids = case["n1"], case["n2"], case["mids"]

    def ann(n, z):
        return fixture("LoftedShape", lambda: Annulus(o + z * e3, o + z * e3 + e1, e3, 0.5, n), n=n)

    s1, s2 = ann(n1, 0.0), ann(n2, 1.0)
    if mids is None:
        counts: List[int] = []
        mid: Any = None
    elif isinstance(mids, int):
        counts = [mids]
        mid = ann(mids, 0.5)
    else:
        counts = list(mids)
        mid = [ann(n, (k + 1) / (len(mids) + 1)) for k, n in enumerate(mids)]
    wrong = [n for n in counts if n != n1]
    same = n1 == n2 and not wrong
    if same:
        klass = "equal-counts"
    elif n1 != n2:
        klass = "end-differs"
    elif len(wrong) == len(counts):
        klass = "every-mid-differs"
    else:
        klass = "some-mid-differs:" + ("more-faces" if all(n > n1 for n in wrong) else "fewer-faces" if all(n < n1 for n in wrong)
                                       else "both")
    judge(ctx, "LoftedShape", klass, "accept" if same else "reject", lambda: LoftedShape(s1, s2, mid), n1=n1, n2=n2, mids=mids)
    ctx.label("mid=" + ("none" if mids is None else "bare" if isinstance(mids, int) else f"list{len(mids)}"))
    ctx.nt(same or abs(n1 - n2) == 1 or any(abs(n - n1) == 1 for n in wrong))


@st.composite
def sketch_case(draw):
    n1 = draw(st.sampled_from([5, 3, 4, 6, 7, 8, 9]))
    near = pick((3, st.just(n1)), (3, st.just(n1 + 1)), (1, st.just(max(3, n1 - 1))), (1, st.integers(3, 10)))
    n2 = draw(pick((5, st.just(n1)), (1, near)))
    shape = draw(st.sampled_from(["list2", "bare", "none", "list1", "list3", "bare", "list2", "list3"]))
    if shape == "none":
        mids: Any = None
    elif shape == "bare":
        mids = draw(near)
    else:
        k = int(shape[-1])
        mids = draw(st.lists(near, min_size=k, max_size=k))
    return {"frame": draw(frame_st()), "n1": n1, "n2": n2, "mids": mids}


_FIXED_SKETCH = [{"frame": {"axis": [0.0, 0.0, 1.0], "angle": 0.0, "origin": [0.0, 0.0, 0.0]}, "n1": 5, "n2": 5, "mids": m}
                 for m in (None, 5, 6, 4, [5], [6], [5, 5], [5, 6], [6, 5], [5, 4], [4, 6], [5, 5, 6], [6, 5, 4], [5, 5, 5])]


# --------------------------------------------------------------------------------------------------
# clamps and links

QUAD_POS = [[0, 0, 0], [1, 0, 0], [2, 0, 0], [0, 1, 0], [1.1, 0.9, 0], [2, 1, 0], [0, 2, 0], [1, 2, 0], [2, 2, 0]]
QUADS = [[0, 1, 4, 3], [1, 2, 5, 4], [3, 4, 7, 6], [4, 5, 8, 7]]


def make_optimizer(case):
    if case["grid"] == "quad":
        o, e1, e2, e3 = frame_of(case["frame"])
        o = o + case.get("far", 0.0)
        pos = [(o + p[0] * e1 + p[1] * e2).tolist() for p in QUAD_POS]

        def build():
            opt = SketchOptimizer(MappedSketch(pos, QUADS), report=False)
            return opt, np.array(opt.grid.points, dtype=float)
    else:

        def build():
            mesh = cb.Mesh()
            far = case.get("far", 0.0)
            for x in (0, 1):
                box = cb.Box([far + x, far, far], [far + x + 1, far + 1, far + 1])
                for a in range(3):
                    box.chop(a, count=2)
                mesh.add(box)
            mesh.assemble()
            opt = MeshOptimizer(mesh, report=False)
            return opt, np.array(opt.grid.points, dtype=float)

    return fixture("optimizer", build, grid=case["grid"])


@st.composite
def clamp_case(draw):
    return {"frame": draw(frame_st()), "grid": draw(st.sampled_from(["quad", "hex"])), "v": draw(st.integers(0, 11)),
            "w": draw(st.integers(0, 11)), "dir": draw(_unit3), "off": draw(pick((1, logmag(1e-4, 0.3)), (1, st.just(0.0)))),
            "off2": draw(pick((2, st.just(0.0)), (1, logmag(1e-4, 0.3)))),
            "second": draw(st.sampled_from(["free", "free", "line", "plane"])),
            "move": draw(st.sampled_from(["direct", None, "link", None, "direct", "link"])), "amount": draw(st.floats(0.02, 0.2)),
            # the model sits near the origin or 1000 units away from it (matching tolerances are absolute)
            "far": draw(st.sampled_from([1000.0, 0.0, 0.0, 1000.0]))}


def _dir(case) -> np.ndarray:
    d = np.asarray(case["dir"], dtype=float)
    if np.linalg.norm(d) < 1e-3:
        d = np.array([0.3, -0.5, 0.8])
    return d / np.linalg.norm(d)


def check_second_clamp(case, ctx: Ctx) -> None:
    opt, P = make_optimizer(case)
    v, w = case["v"] % len(P), case["w"] % len(P)
    judge(ctx, "add_clamp", "first-clamp", "accept", lambda: opt.add_clamp(FreeClamp(P[v])), vertex=v, grid=case["grid"])
    if w != v:
        judge(ctx, "add_clamp", "clamp-on-another-vertex", "accept", lambda: opt.add_clamp(FreeClamp(P[w])), vertex=w, grid=case["grid"])
    d = _dir(case)

    def second():
        if case["second"] == "free":
            clamp = FreeClamp(P[v])
        elif case["second"] == "line":
            clamp = LineClamp(P[v], P[v] - d, P[v] + d)
        else:
            clamp = PlaneClamp(P[v], P[v], d)
        opt.add_clamp(clamp)

    judge(ctx, "add_clamp", "second-clamp-on-vertex", "reject", second, vertex=v, grid=case["grid"], second=case["second"])
    ctx.nt(True)


def _move_dir(case) -> np.ndarray:
    d = _dir(case)
    if case["grid"] == "quad":  # stay in the sketch plane
        _, e1, e2, _ = frame_of(case["frame"])
        d = d[0] * e1 + (d[1] if abs(d[1]) > 0.1 else 0.5) * e2
        d = d / np.linalg.norm(d)
    return d


def check_clamp_after_move(case, ctx: Ctx) -> None:
    """a junction is moved through GridBase.update (what every optimisation step does), directly or as the follower of a
    link: a clamp at the vacated position matches no vertex any more, a clamp at the current position does"""
    opt, P = make_optimizer(case)
    v, w = case["v"] % len(P), case["w"] % len(P)
    if case["move"] == "link" and w == v:
        w = (v + 1) % len(P)
    step = case["amount"] * _move_dir(case)
    facts = {"grid": case["grid"], "move": case["move"], "amount": case["amount"]}
    if case["move"] == "link":
        def prepare():
            opt.add_clamp(FreeClamp(P[v]))
            opt.add_link(TranslationLink(P[v], P[w]))
            opt.grid.update(v, P[v] + step)
        moved = w
    else:
        def prepare():
            opt.grid.update(v, P[v] + step)
        moved = v
    fixture("add_clamp(after move)", prepare, **facts)
    now = np.array(opt.grid.points[moved], dtype=float)
    if np.linalg.norm(now - (P[moved] + step)) > 1e-9:
        raise Violation("update-did-not-move", f"GridBase.update left junction {moved} at {now.tolist()}", site="GridBase.update",
                        klass="moved", **facts)
    vacated = P[moved].copy()
    judge(ctx, "add_clamp", "clamp-at-vacated-position", "reject", lambda: opt.add_clamp(FreeClamp(vacated)), vertex=moved, **facts)
    judge(ctx, "add_clamp", "clamp-at-current-position", "accept", lambda: opt.add_clamp(FreeClamp(now)), vertex=moved, **facts)
    ctx.label("moved:" + case["move"])
    ctx.nt(True)


def check_clamp_no_vertex(case, ctx: Ctx) -> None:
    if case.get("move"):
        return check_clamp_after_move(case, ctx)
    opt, P = make_optimizer(case)
    ctx.label(f"origin-distance={case.get('far', 0.0):g}")
    v = case["v"] % len(P)
    off = case["off"]
    pos = P[v] + off * _dir(case)
    klass, expected = ("clamp-on-vertex", "accept") if off == 0.0 else ("clamp-off-every-vertex", "reject")
    judge(ctx, "add_clamp", klass, expected, lambda: opt.add_clamp(FreeClamp(pos)), vertex=v, off=off, grid=case["grid"])
    ctx.nt(off != 0.0 and off <= 1e-2 or off == 0.0)


def check_link_no_vertex(case, ctx: Ctx) -> None:
    opt, P = make_optimizer(case)
    ctx.label(f"origin-distance={case.get('far', 0.0):g}")
    v, w = case["v"] % len(P), case["w"] % len(P)
    off_l, off_f = case["off"], case["off2"]
    d = _dir(case)
    leader, follower = P[v] + off_l * d, P[w] - off_f * d
    if off_l == 0.0 and off_f == 0.0:
        klass, expected = ("link-between-vertices", "accept") if v != w else ("leader-is-follower", "open")
    else:
        klass = "leader-off" if off_l != 0.0 and off_f == 0.0 else "follower-off" if off_l == 0.0 else "both-off"
        expected = "reject"
    judge(ctx, "add_link", klass, expected, lambda: opt.add_link(TranslationLink(leader, follower)), leader=v, follower=w,
          off_leader=off_l, off_follower=off_f, grid=case["grid"])
    ctx.nt(expected != "open")


# --------------------------------------------------------------------------------------------------
# life cycle


@st.composite
def lifecycle_case(draw):
    return {"blocks": draw(st.integers(1, 2)), "steps": draw(st.lists(st.sampled_from(["grade", "backport", "assemble", "clear"]),
                                                                      min_size=1, max_size=6))}


def check_lifecycle(case, ctx: Ctx) -> None:
    mesh = cb.Mesh()
    for x in range(case["blocks"]):
        box = cb.Box([x, 0, 0], [x + 1, 1, 1])
        for a in range(3):
            box.chop(a, count=2 + a)
        mesh.add(box)
    assembled = False
    graded = False
    nt = False
    for step, what in enumerate(case["steps"]):
        facts = {"step": step, "history": case["steps"][: step + 1]}
        if what == "assemble":
            if assembled:
                continue  # assembling twice is not a documented use
            judge(ctx, "Mesh.assemble", "assemble", "accept", mesh.assemble, **facts)
            assembled, graded = True, False
        elif what == "clear":
            judge(ctx, "Mesh.clear", "clear", "accept", mesh.clear, **facts)
            assembled, graded = False, False
        elif what == "grade":
            if assembled and graded:
                continue  # grading twice is C12's business
            raised = judge(ctx, "Mesh.grade", "grade-after-assembly" if assembled else "grade-before-assembly",
                           "accept" if assembled else "reject", mesh.grade, **facts)
            graded = assembled and raised is None
            nt = nt or not assembled
        else:
            judge(ctx, "Mesh.backport", "backport-after-assembly" if assembled else "backport-before-assembly",
                  "accept" if assembled else "reject", mesh.backport, **facts)
            graded = False
            nt = nt or not assembled
    ctx.nt(nt)


# --------------------------------------------------------------------------------------------------
# cells

_count = pick((3, st.sampled_from([3, 4, 4, 5])), (1, st.integers(0, 9)))
_pairs = st.fixed_dictionaries({"frame": frame_st(), "pair": pair_st()})


def _fixed_index(lo, hi, **extra):
    fr = {"axis": [0.2, -0.4, 0.9], "angle": 0.7, "origin": [1.0, 2.0, -3.0]}
    return [{"frame": fr, "index": i, **extra} for i in range(lo - 5, hi + 6)]


_FR0 = {"axis": [0.0, 0.0, 1.0], "angle": 0.0, "origin": [0.0, 0.0, 0.0]}
_FIXED_RING = [{"frame": _FR0, "R": 1.0, "L": 1.0, "d": d, "n": n} for n in (8, 5) for d in (0.0, 1e-9, 1e-3, 0.5, -1e-3, -0.5)]
_FIXED_LEAN = [{"frame": _FR0, "R": 1.0, "L": 1.0, "delta": d, "first": f, "n": 8} for d in (0.5, 1e-3, 0.0) for f in (1, -1)]
_FIXED_CHAIN = [{"frame": _FR0, "R": 1.0, "L": 1.0, "length": x, "start_face": sf, "source": None, "n": 8}
                for x in (-1.0, -1e-6, 1e-3, 1.0) for sf in (False, True)]


def _fixed_chain(source):
    return [{**c, "source": source} for c in _FIXED_CHAIN]


def _fixed_pairs():
    fr = {"axis": [0.2, -0.4, 0.9], "angle": 0.7, "origin": [1.0, 2.0, -3.0]}
    return [{"frame": fr, "pair": [a, b]} for a in range(-8, 9) for b in range(-8, 9) if a != b]


CELLS = [
    # wrong numbers of points or edges
    Cell("C20/count/face-points", st.fixed_dictionaries({"frame": frame_st(), "n": _count, "dim": st.sampled_from([3, 3, 3, 2, 4]),
                                                         "as_array": st.booleans()}),
         check_face_points, 80, 3000, "Face(points): n x 3 points accepted iff n = 4 (other coordinate counts only counted)"),
    Cell("C20/count/face-edges", st.fixed_dictionaries({"frame": frame_st(), "n": _count, "curved": st.lists(st.booleans(), min_size=9, max_size=9)}),
         check_face_edges, 80, 3000, "Face(points, edges): edge list accepted iff it has 4 entries"),
    Cell("C20/count/side-vertices", st.fixed_dictionaries({"n": st.one_of(st.sampled_from([7, 8, 9]), st.integers(0, 16)),
                                                           "orient": st.sampled_from(["bottom", "top", "left", "right", "front", "back"])}),
         check_side_vertices, 80, 3000, "Side(orient, vertices) accepted iff 8 vertices"),
    Cell("C20/count/spline-points", st.fixed_dictionaries({"frame": frame_st(), "n": st.sampled_from([2, 1, 1, 0, 3, 5]),
                                                           "kind": st.sampled_from(["spline", "polyLine"])}),
         check_spline_points, 60, 2000, "Spline / PolyLine(points) accepted iff >= 2 points"),
    Cell("C20/count/open", st.fixed_dictionaries({"frame": frame_st(), "n": st.integers(0, 5),
                                                  "what": st.sampled_from(["from_series", "point", "project"])}),
         check_open_counts, 60, 2000, "documented but unlisted counts (from_series faces, point coordinates, zero labels): valid "
         "side asserted, invalid side counted"),
    # indices
    Cell("C20/index/face-add-edge", st.fixed_dictionaries({"frame": frame_st(), "index": index_st(0, 3), "curved": st.booleans()}),
         check_face_add_edge, 80, 3000, "Face.add_edge(corner): accepted iff 0 <= corner <= 3",
         fixed_cases=_fixed_index(0, 3, curved=True)),
    Cell("C20/index/add-side-edge", st.fixed_dictionaries({"frame": frame_st(), "index": index_st(0, 3)}),
         check_add_side_edge, 80, 3000, "Operation.add_side_edge(corner): accepted iff 0 <= corner <= 3", fixed_cases=_fixed_index(0, 3)),
    Cell("C20/index/project-corner", st.fixed_dictionaries({"frame": frame_st(), "index": index_st(0, 7), "single": st.booleans()}),
         check_project_corner, 80, 3000, "Operation.project_corner(corner): accepted iff 0 <= corner <= 7",
         fixed_cases=_fixed_index(0, 7, single=True)),
    Cell("C20/index/project-edge", _pairs, check_project_edge, 150, 6000,
         "Operation.project_edge(c1, c2): the 24 ordered edges accepted, any corner outside 0..7 rejected and in-range pairs that are no edge rejected",
         fixed_cases=_fixed_pairs()),
    Cell("C20/index/block-add-edge", _pairs, check_block_add_edge, 100, 4000,
         "Block.add_edge(c1, c2, edge): as project-edge", fixed_cases=_fixed_pairs()),
    Cell("C20/index/frame-add-beam", _pairs, check_frame_add_beam, 100, 4000, "Frame.add_beam(c1, c2): as project-edge",
         fixed_cases=_fixed_pairs()),
    Cell("C20/index/chop-axis", st.fixed_dictionaries({"frame": frame_st(), "index": index_st(0, 2), "count": st.integers(1, 20)}),
         check_chop_axis, 80, 3000, "Operation.chop(axis): accepted iff axis in 0..2", fixed_cases=_fixed_index(0, 2, count=3)),
    # projection surfaces
    Cell("C20/projection/labels", st.fixed_dictionaries({"first": pick((4, st.lists(_label, min_size=1, max_size=4, unique=True)),
                                                                       (1, st.lists(_label, min_size=2, max_size=3))),
                                                         "as_str": st.booleans(),
                                                         "second": st.lists(_label, min_size=0, max_size=3, unique=True)}),
         check_project_labels, 120, 5000, "Project(labels) and add_label: <= 2 distinct surfaces accepted, >= 3 rejected"),
    Cell("C20/projection/operation-repeated", repeated_case("operation"), check_repeated_project_edge, 120, 5000,
         "Operation.project_edge on one edge (either corner order) with successive labels: the call that brings a third surface "
         "is rejected"),
    Cell("C20/projection/face-repeated", repeated_case("face"), check_repeated_project_edge, 100, 4000,
         "Face.project_edge likewise"),
    # length ratio
    Cell("C20/length-ratio/add-chop", st.fixed_dictionaries({"length_ratio": _lr, "L": logmag(1e-3, 1e3), "count": st.integers(1, 20)}),
         check_length_ratio, 120, 5000, "Grading.add_chop: length_ratio accepted iff in (0, 1]"),
    Cell("C20/length-ratio/write", st.fixed_dictionaries({"frame": frame_st(), "length_ratio": _lr, "axis": st.integers(0, 2),
                                                          "count": st.integers(1, 8)}),
         check_length_ratio_write, 80, 3000, "Operation.chop(length_ratio=...) then Mesh.write: an invalid ratio never reaches a file"),
    # radii
    Cell("C20/radius/annulus", ring_case(), check_annulus_radius, 100, 4000, "Annulus: inner = outer*(1+d) accepted iff d < 0",
         fixed_cases=_FIXED_RING),
    Cell("C20/radius/extruded-ring", ring_case(), check_ring_radius, 80, 3000, "ExtrudedRing likewise", fixed_cases=_FIXED_RING),
    Cell("C20/radius/contract", ring_case(), check_contract_radius, 80, 3000,
         "ExtrudedRing.contract: new inner radius accepted iff below the source's inner radius", fixed_cases=_FIXED_RING),
    # perpendicularity, both signs
    Cell("C20/perp/cylinder", lean_case(), check_lean_cylinder, 60, 2500, "Cylinder: radius vector leaning +-delta towards the axis",
         fixed_cases=_FIXED_LEAN),
    Cell("C20/perp/semicylinder", lean_case(), check_lean_semicylinder, 60, 2500, "SemiCylinder likewise", fixed_cases=_FIXED_LEAN),
    Cell("C20/perp/frustum", lean_case(), check_lean_frustum, 60, 2500, "Frustum likewise", fixed_cases=_FIXED_LEAN),
    Cell("C20/perp/annulus", lean_case(), check_lean_annulus, 80, 3000, "Annulus: outer radius point leaning +-delta along the normal",
         fixed_cases=_FIXED_LEAN),
    Cell("C20/perp/extruded-ring", lean_case(), check_lean_ring, 60, 2500, "ExtrudedRing likewise", fixed_cases=_FIXED_LEAN),
    Cell("C20/perp/coplanar-face", coplanar_case(), check_coplanar, 100, 4000,
         "Face(check_coplanar=True): one corner lifted +-h off the plane of the other three"),
    # chain lengths
    Cell("C20/chain/cylinder", chain_case(["cylinder", "frustum"]), check_chain_cylinder, 60, 2500,
         "Cylinder.chain(source, length, start_face): negative length rejected, positive accepted on both faces",
         fixed_cases=_fixed_chain("cylinder")),
    Cell("C20/chain/frustum", chain_case(["cylinder", "frustum"]), check_chain_frustum, 60, 2500, "Frustum.chain likewise",
         fixed_cases=_fixed_chain("frustum")),
    Cell("C20/chain/extruded-ring", chain_case(["ring"]), check_chain_ring, 60, 2500, "ExtrudedRing.chain likewise",
         fixed_cases=_fixed_chain("ring")),
    # face counts
    Cell("C20/sketch-count/lofted-shape", sketch_case(), check_sketch_counts, 120, 4000,
         "LoftedShape(sketch_1, sketch_2, sketch_mid) with sketch_mid None / one bare sketch / a list of 1-3 sketches: accepted iff the "
         "end sketch and EVERY mid sketch have the start sketch's number of faces", fixed_cases=_FIXED_SKETCH),
    # clamps and links
    Cell("C20/clamp/second", clamp_case(), check_second_clamp, 60, 2500, "a second clamp (free / line / plane) on a clamped vertex is rejected"),
    Cell("C20/clamp/no-vertex", clamp_case(), check_clamp_no_vertex, 90, 3500,
         "a clamp >= 1e-4 away from every vertex is rejected, on a vertex accepted; after GridBase.update moved a junction "
         "(directly or as a link's follower) a clamp at the vacated position is rejected, at the current one accepted"),
    Cell("C20/link/no-vertex", clamp_case(), check_link_no_vertex, 60, 2500, "a link whose leader or follower is >= 1e-4 away from every vertex is rejected"),
    # life cycle
    Cell("C20/lifecycle", lifecycle_case(), check_lifecycle, 100, 4000,
         "histories of assemble / clear / grade / backport: grade and backport rejected iff the mesh is not assembled"),
]

# thorough tier: coverage-guided campaigns (atheris / libFuzzer) over the cheap boundary cells, so that coverage of the
# validation branches steers argument generation
FUZZ_CELLS = [(c.id, 8000) for c in CELLS if c.id.startswith(("C20/index/", "C20/count/", "C20/length-ratio/", "C20/projection/"))]
