"""C12 — assemble / clear / backport / delete / write round-trips preserve the model (DESIGN.md section 4, C12).

A case is a *history*: a pool of operation specs cut from a node lattice plus a program (list of steps, plain JSON).
The program is interpreted against the real Mesh and against a script-level model (what a user script that builds the
same model from scratch would contain).  Steps whose API precondition does not hold at that point are skipped and
counted.  At every write the text is compared with the text written by a FRESH Mesh built from the script model with
a single assembly.
"""

from __future__ import annotations

import os
import re
import warnings
from typing import Any, Dict, List, Optional, Tuple

import numpy as np
from hypothesis import strategies as st

from vf import lattice as lt
from vf import schedule
from vf.core import Cell, Ctx, Violation
from vf.foamdict import FoamParseError
from vf.refmodel import HEX_SIDES

warnings.simplefilter("ignore")

import classy_blocks as cb  # noqa: E402
from classy_blocks.construct.shape import Shape  # noqa: E402

RULE = (
    "A history = pool of <= 4 operations (Lofts cut from a jittered node lattice, random corner numbering, patches, "
    "cell zone, optional curved edge (arc / spline / polyLine / angle-and-axis on a bottom, top or side edge) / projected "
    "side / projected corner, count chops consistent per edge family; one "
    "mesh.add() may bring two of them wrapped in a user-defined Shape) and a "
    "program of <= 12 steps over {add, delete, assemble, move, backport, clear, modify_patch, set_default_patch, "
    "merge_patches, write} followed by a final write; steps are drawn by simulating the life cycle so most are "
    "enabled, the rest are skipped and counted. Non-trivial: a compared write (or a backport check) is preceded by a "
    "re-assembly (clear->assemble or backport), a delete of an added operation, or an earlier write. Distinct = "
    "(lattice dimensions, specs of the operations that were added, sequence of executed steps with their resolved "
    "discrete arguments: which operation / corner / patch / kind), ignoring widths, jitter and displacements."
)
ASSUMPTIONS = [
    "API preconditions taken from the callers in examples/: add / delete / merge_patches only while the mesh is not "
    "assembled; assemble only when not assembled; move / backport only when assembled; clear in every state (on a mesh "
    "that is not assembled it has nothing to undo, the model stays as it is); modify_patch only for "
    "a patch name carried by a live operation; at least one operation stays undeleted",
    "the reference for a history is a new Mesh that receives the live operations (current corner positions, in the "
    "order they were added), the merged pairs and the default patch, is assembled once, then receives the patch "
    "modifications and the vertex moves that were not back-ported, and is written once",
    "texts are compared byte for byte per section; only the boundary section is compared as a name-keyed table of "
    "(type, settings, quads) and patches without faces are ignored (the statement fixes neither the order of patches "
    "nor the fate of a patch whose faces were all deleted)",
    "a vertex 'belongs to' the operations whose block lists it (Block.vertices of the assembled mesh); the moved "
    "target is applied in one of the ways callers use (move_to with a list, move_to with a work array that is "
    "refilled afterwards, translate by the difference - modelled with the same arithmetic -, assignment of single "
    "coordinates), so back-ported coordinates are copies: tolerance 1e-12 + 4 ulp of the coordinate (a third of the models sit 1e3 .. 4.2e6 from the origin)",
    "a move changes each chosen coordinate by 0 or by >= 1e-5 (100 x TOL) and at most 0.15 x the smallest cell width, "
    "over three decades; written coordinates are compared with the model at 1e-8 + 4 ulp (8 printed decimals)",
    "all chops are count-only, so the result of grading does not depend on edge lengths or on propagation order; "
    "when the fresh build itself cannot be written (sparse chops after a delete) the write is counted, not judged",
]

NAMES = ["pA", "pB", "pC"]
ORIENTS = ["bottom", "top", "left", "right", "front", "back"]
KINDS = ["wall", "patch", "symmetry", "empty"]
SETTINGS: List[Optional[List[str]]] = [None, [], ["inGroups (g1)"], ["neighbourPatch pB", "transform none"]]
DEFAULTS = [["defaultFaces", "wall"], ["outer", "patch"], ["defaultFaces", "empty"]]
GEOMETRY = {"geo": ["type sphere", "origin (0 0 0)", "radius 50"]}
MOVE_FRACTION = 0.15  # of the smallest lattice width, per axis, measured from the corner's ORIGINAL position
MOVE_DECADES = [1.0, 1e-2, 1e-4]  # a move may also be a small correction: MOVE_FRACTION x this
MOVE_MIN = 1e-5  # a non-zero displacement component is at least 100 x TOL: distinct vertex, visible in 8 decimals
MOVE_MANNERS = ["move_to-list", "move_to-buffer", "translate", "components"]
AXIS_MASKS = [[1, 1, 1], [1, 0, 0], [0, 1, 0], [0, 0, 1]]  # which coordinates a move changes
EPS = 2.3e-16
ARC_FRACTION = 0.5  # arc control point offset: larger than jitter + move so the three points never line up
EDGE_KINDS = ["arc", "spline", "polyLine", "angle"]  # all but 'arc' depend on the direction the edge is defined in
SECTION_NAMES = ("geometry", "vertices", "blocks", "edges", "faces", "boundary", "defaultPatch", "mergePatchPairs")

# --------------------------------------------------------------------------------------------------
# generator


def _face_adjacent(dims, a: int, b: int) -> bool:
    pa, pb = lt.cell_ijk(dims, a), lt.cell_ijk(dims, b)
    return sum(abs(x - y) for x, y in zip(pa, pb)) == 1


def _dims_pool():
    return [d for d in lt.DIMS if 2 <= d[0] * d[1] * d[2] <= 8]


@st.composite
def history(draw, chops: str = "all", modify: bool = False, max_steps: int = 12):
    """chops: 'all' (every operation chopped on every axis) | 'sparse' (some directions rely on propagation)"""
    dims = draw(st.sampled_from(_dims_pool()))
    ncell = dims[0] * dims[1] * dims[2]
    widths = [[10.0 ** draw(st.floats(-0.5, 0.5)) for _ in range(dims[a])] for a in range(3)]
    nn = (dims[0] + 1) * (dims[1] + 1) * (dims[2] + 1)
    # few drawn floats (5, reused with a stride) so that Hypothesis spends its mutations on the program
    base = [draw(st.floats(-1.0, 1.0)) for _ in range(5)] if draw(st.booleans()) else []
    jitter = [base[(3 * j) % 5] * (1.0 if j % 2 else -0.5) for j in range(3 * nn)] if base else []
    offset = None
    if draw(st.integers(0, 2)) == 0:
        # geo-referenced coordinates: a small move is then far below 1e-5 x coordinate, yet far above TOL
        mag = draw(st.sampled_from([1e3, 1e5, 2e6]))
        offset = [mag * draw(st.sampled_from([1.0, -1.0, 2.1, 0.0])) for _ in range(3)]
    k = min(draw(st.sampled_from([2, 3, 3, 4, 4] if chops == "all" else [3, 3, 4, 4, 4, 2])), ncell)
    # grow the set of cells mostly through face neighbours, so that operations usually share vertices
    cells = [draw(st.integers(0, ncell - 1))]
    while len(cells) < k:
        free = [c for c in range(ncell) if c not in cells]
        near = [c for c in free if any(_face_adjacent(dims, c, d) for d in cells)]
        cells.append(draw(st.sampled_from(near if near and draw(st.integers(0, 4)) else free)))
    rots = [draw(st.integers(0, 23)) for _ in cells]

    fams, _ = lt.lattice_families({"dims": list(dims), "cells": cells})
    count_of, family_of = {}, {}
    for fam in fams:
        n = draw(st.integers(1, 9))
        for member in fam:
            count_of[tuple(member)] = n
            family_of[tuple(member)] = [tuple(x) for x in fam]
    holders: set = set()  # (cell, direction) members of families in which some earlier operation is chopped

    pool = []
    for c, rot in zip(cells, rots):
        axes = lt.local_axes(rot)
        chop = []
        for a in range(3):
            n = count_of[(c, axes[a][0])]
            # a hole only where an operation earlier in the pool holds the family's chop
            if chops == "sparse" and (c, axes[a][0]) in holders and draw(st.integers(0, 2)) != 2:
                chop.append(None)
            else:
                chop.append(n)
                holders.update(family_of[(c, axes[a][0])])
        patches = {}
        for _ in range(draw(st.integers(1, 4))):
            patches[draw(st.sampled_from(ORIENTS))] = draw(st.sampled_from(NAMES))
        extras = draw(st.integers(0, 7))
        pool.append({
            "cell": c,
            "rot": rot,
            "chops": chop,
            "patches": patches,
            "zone": "z1" if draw(st.integers(0, 3)) == 0 else "",
            "arc": [draw(st.sampled_from(["bottom", "top", "side"])), draw(st.integers(0, 3))] if extras & 1 else None,
            "edge": draw(st.sampled_from(EDGE_KINDS)),  # kind of the curved edge placed at "arc" (if any)
            "proj_side": draw(st.sampled_from(ORIENTS)) if extras & 2 and draw(st.booleans()) else None,
            "proj_points": bool(extras & 2 and draw(st.booleans())),  # project_side(..., points=True)
            "proj_corner": draw(st.integers(0, 7)) if extras & 4 else None,
        })

    # program: simulate the life cycle so that most steps are enabled
    program: List[list] = []
    assembled = False
    was_assembled = False
    remaining = k
    alive = 0
    first_adds = max(2, k - draw(st.sampled_from([0, 0, 0, 1, 2])))
    group = st.sampled_from([1, 1, 2])  # operations added by one mesh.add(): 2 = wrapped in a Shape
    while alive < first_adds:
        n = min(draw(group), first_adds - alive)
        program.append(["add", 0, n])
        remaining -= n
        alive += n
    nsteps = draw(st.integers(1, max_steps - first_adds))
    small = st.integers(0, 5)
    deletes = 0
    # Hypothesis favours the first element of sampled_from; rotate the menu so that this is not always 'assemble'
    turn = draw(st.integers(0, 23))
    for step_no in range(nsteps):
        if assembled:
            kinds = ["move"] * 3 + ["backport"] * 3 + ["clear"] * 3 + ["write"] * 2 + ["set_default_patch"]
        else:
            kinds = ["assemble"] * 3 + ["write"] * 2 + ["set_default_patch"] + ["merge_patches"] * 2 + ["clear"] * 2
            if remaining:
                kinds += ["add"] * 2
            if alive >= 2 and deletes < 2:
                # deleting after a first assembly is where state of the earlier assembly can leak
                kinds += ["delete"] * (6 if was_assembled or deletes else 3)
        if modify:
            kinds += ["modify_patch"] * 4
        r = (turn + 5 * step_no) % len(kinds)
        kind = draw(st.sampled_from(kinds[r:] + kinds[:r]))
        if kind == "add":
            n = min(draw(group), remaining)
            program.append(["add", draw(small), n])
            remaining -= n
            alive += n
        elif kind == "delete":
            program.append(["delete", draw(small)])
            alive -= 1
            deletes += 1
        elif kind == "assemble":
            program.append(["assemble"])
            assembled = was_assembled = True
        elif kind == "clear":
            program.append(["clear"])
            assembled = False
        elif kind == "backport":
            program.append(["backport"])
        elif kind == "move":
            picks = [
                [draw(small), draw(st.integers(0, 7)), [draw(st.floats(-1.0, 1.0)) for _ in range(3)],
                 draw(st.integers(0, len(MOVE_DECADES) - 1)), draw(st.integers(0, len(AXIS_MASKS) - 1)),
                 draw(st.integers(0, len(MOVE_MANNERS) - 1))]
                for _ in range(draw(st.integers(1, 3)))
            ]
            program.append(["move", picks])
        elif kind == "modify_patch":
            program.append(["modify_patch", draw(small), draw(st.integers(0, len(KINDS) - 1)),
                            draw(st.integers(0, len(SETTINGS) - 1))])
        elif kind == "set_default_patch":
            program.append(["set_default_patch", draw(st.integers(0, len(DEFAULTS) - 1))])
        elif kind == "merge_patches":
            program.append(["merge_patches", draw(small), draw(small)])
        else:
            program.append(["write", draw(st.booleans())])
            assembled = was_assembled = True
    program.append(["write", draw(st.booleans())])
    case = {"dims": list(dims), "widths": widths, "jitter": jitter, "pool": pool, "program": program}
    if offset is not None:
        case["offset"] = offset
    return case


@st.composite
def sized_history(draw):
    """A row of 2-3 operations; one edge family gets its only chop as a cell size on one operation (the others take
    the count from it) and that count is within a few percent of a rounding step, so moving a vertex by the usual
    amount often changes it.  Program: add all, write, move, write (no backport in between), then a few free steps."""
    n_ops = draw(st.integers(2, 3))
    dims = [n_ops, 1, 1]
    widths = [[10.0 ** draw(st.floats(-0.3, 0.3)) for _ in range(n_ops)],
              [10.0 ** draw(st.floats(-0.3, 0.3))], [10.0 ** draw(st.floats(-0.3, 0.3))]]
    t = draw(st.sampled_from([1, 2]))  # the direction across the row whose count is given by a size
    holder = draw(st.integers(0, n_ops - 1))
    cells_needed = draw(st.integers(3, 9))
    size = widths[t][0] / (cells_needed + draw(st.sampled_from([-1, 1])) * draw(st.floats(0.005, 0.05)))
    other = draw(st.integers(1, 6))
    order = list(draw(st.permutations(list(range(n_ops)))))
    pool = []
    for c in order:
        rot = draw(st.integers(0, 23))
        axes = lt.local_axes(rot)
        chop: List[Any] = []
        for a in range(3):
            g = axes[a][0]
            if g == 0:
                chop.append(draw(st.integers(1, 6)))  # along the row every operation has its own family
            elif g == t:
                chop.append({"start_size": size} if c == holder else None)
            else:
                chop.append(other)
        pool.append({"cell": c, "rot": rot, "chops": chop, "patches": {}, "zone": "", "arc": None, "edge": "arc",
                     "proj_side": None, "proj_points": False, "proj_corner": None})
    move = st.lists(
        st.tuples(st.integers(0, 5), st.integers(0, 7), st.lists(st.floats(-1.0, 1.0), min_size=3, max_size=3),
                  st.just(0), st.integers(0, len(AXIS_MASKS) - 1), st.integers(0, len(MOVE_MANNERS) - 1)).map(list),
        min_size=1, max_size=3)
    program: List[list] = [["add", 0, 1] for _ in range(n_ops)]
    program += [["write", draw(st.booleans())], ["move", draw(move)], ["write", draw(st.booleans())]]
    for _ in range(draw(st.integers(0, 3))):
        kind = draw(st.sampled_from(["move", "write", "backport", "clear"]))
        program.append({"move": ["move", draw(move)], "write": ["write", draw(st.booleans())],
                        "backport": ["backport"], "clear": ["clear"]}[kind])
    program.append(["write", draw(st.booleans())])
    return {"dims": dims, "widths": widths, "jitter": [], "pool": pool, "program": program}


# --------------------------------------------------------------------------------------------------
# script-level model


class Bundle(Shape):
    """a user-defined Shape: several operations added to the mesh by one mesh.add()"""

    def __init__(self, operations) -> None:
        self._operations = list(operations)

    @property
    def operations(self):
        return self._operations

    @property
    def grid(self):
        return [self._operations]


class Model:
    """What a script that builds the current model from scratch would contain."""

    def __init__(self, case) -> None:
        self.case = case
        self.pool = case["pool"]
        nodes = lt.node_positions(case)
        self.minw = min(min(w) for w in case["widths"])
        self.orig: List[np.ndarray] = []
        for spec in self.pool:
            ids = lt.cell_nodes(case["dims"], spec["cell"])
            perm = lt.ROT[spec["rot"]]
            self.orig.append(np.array([nodes[ids[perm[i]]] for i in range(8)]))
        self.pos = [p.copy() for p in self.orig]  # committed corner positions (what the operations hold)
        self.edge_payloads = [self._edge_payload(i) for i in range(len(self.pool))]
        self.added: List[int] = []  # pool indices in the order they were added
        self.bundles: List[List[int]] = []  # the same, grouped by mesh.add() call (>= 2: one Shape holding them)
        self.deleted: set = set()
        self.assembled = False
        self.pending: Dict[Tuple[int, int], np.ndarray] = {}  # (pool index, corner) -> moved, not back-ported
        self.mods: Dict[str, list] = {}  # name -> [kind, settings]
        self.default: Optional[List[str]] = None
        self.merged: List[List[str]] = []
        self.uses_geometry = any(s["proj_side"] or s["proj_corner"] is not None for s in self.pool)

    def _edge_payload(self, i: int):
        """control data of the operation's curved edge, fixed at the ORIGINAL corner positions, in the sense the
        edge is defined in (face edge k: point k -> k+1, closing edge 3 -> 0; side edge k: k -> k+4)"""
        arc = self.pool[i]["arc"]
        if arc is None:
            return None
        where, k = arc
        a, b = {"bottom": (k, (k + 1) % 4), "top": (4 + k, 4 + (k + 1) % 4), "side": (k, k + 4)}[where]
        pa, pb = self.orig[i][a], self.orig[i][b]
        g = int(np.argmax(np.abs(pb - pa)))
        off = np.zeros(3)
        off[(g + 1) % 3] = ARC_FRACTION * self.minw
        kind = self.pool[i].get("edge", "arc")
        if kind == "arc":
            return 0.5 * (pa + pb) + off
        if kind in ("spline", "polyLine"):
            # two interior points, not symmetric about the middle
            return [pa + 0.25 * (pb - pa) + off, pa + 0.6 * (pb - pa) + 0.4 * off]
        axis = np.zeros(3)
        axis[(g + 2) % 3] = 1.0
        return [0.7, axis]  # sector angle and axis

    def edge_data(self, i: int):
        """a new EdgeData object (user data) for the operation's curved edge"""
        kind = self.pool[i].get("edge", "arc")
        payload = self.edge_payloads[i]
        if kind == "arc":
            return cb.Arc(payload)
        if kind == "spline":
            return cb.Spline([p.copy() for p in payload])
        if kind == "polyLine":
            return cb.PolyLine([p.copy() for p in payload])
        return cb.Angle(payload[0], payload[1].copy())

    @property
    def alive(self) -> List[int]:
        return [i for i in self.added if i not in self.deleted]

    def names_in_use(self) -> List[str]:
        return sorted({n for i in self.alive for n in self.pool[i]["patches"].values()})

    def live_pos(self, i: int, corner: int) -> np.ndarray:
        return self.pending.get((i, corner), self.pos[i][corner])

    def make_op(self, i: int):
        spec = self.pool[i]
        pts = self.pos[i]
        arc = spec["arc"]
        edges: Dict[str, Any] = {"bottom": None, "top": None}
        if arc is not None and arc[0] in edges:
            lst: List[Any] = [None, None, None, None]
            lst[arc[1]] = self.edge_data(i)
            edges[arc[0]] = lst
        op = cb.Loft(cb.Face(pts[:4], edges["bottom"]), cb.Face(pts[4:], edges["top"]))
        if arc is not None and arc[0] == "side":
            op.add_side_edge(arc[1], self.edge_data(i))
        for axis, n in enumerate(spec["chops"]):
            if isinstance(n, dict):
                op.chop(axis, start_size=n["start_size"])  # the count follows the current edge lengths
            elif n is not None:
                op.chop(axis, count=n)
        for orient in ORIENTS:  # fixed order: the JSON case may arrive with sorted keys
            if orient in spec["patches"]:
                op.set_patch(orient, spec["patches"][orient])
        if spec["zone"]:
            op.set_cell_zone(spec["zone"])
        if spec["proj_side"]:
            op.project_side(spec["proj_side"], "geo", points=bool(spec.get("proj_points")))
        if spec["proj_corner"] is not None:
            op.project_corner(spec["proj_corner"], "geo")
        return op

    def new_mesh(self):
        mesh = cb.Mesh()
        if self.uses_geometry:
            mesh.add_geometry(dict(GEOMETRY))
        # Axis.neighbours / Wire.coincidents are address-hashed sets; copying a grading from an anti-aligned
        # neighbour prints '1.0' where an aligned one prints '1'.  Every iteration order is a feasible schedule, so
        # both the history and the reference walk them in one canonical order (a function of the script).
        grade = mesh.grade

        def grade_in_canonical_order():
            schedule.inject(mesh, [0])
            grade()

        mesh.grade = grade_in_canonical_order
        return mesh

    def fresh_mesh(self):
        """single assembly of the script model"""
        mesh = self.new_mesh()
        alive = self.alive
        for bundle in self.bundles:
            members = [self.make_op(i) for i in bundle if i in alive]
            if len(bundle) == 1 and members:
                mesh.add(members[0])
            elif members:
                mesh.add(Bundle(members))
        for master, slave in self.merged:
            mesh.merge_patches(master, slave)
        if self.default is not None:
            mesh.set_default_patch(*self.default)
        mesh.assemble()
        in_use = set(self.names_in_use())
        for name, (kind, settings) in self.mods.items():
            if name in in_use:
                mesh.modify_patch(name, kind, list(settings))
        for (i, corner), target in self.pending.items():
            if i in alive:
                mesh.blocks[alive.index(i)].vertices[corner].move_to(target.tolist())
        return mesh


# --------------------------------------------------------------------------------------------------
# text comparison


def sections(text: str) -> Dict[str, str]:
    """top-level sections of a written blockMeshDict, keyed by their keyword ('header' before the first one)"""
    out: Dict[str, str] = {}
    name = "header"
    buf: List[str] = []
    for line in text.split("\n"):
        if line in SECTION_NAMES:
            out[name] = "\n".join(buf)
            name, buf = line, []
        buf.append(line)
    out[name] = "\n".join(buf)
    return out


_NUMBER = re.compile(r"(?<![\w.])[-+]?(?:\d+\.?\d*|\.\d+)(?:[eE][-+]?\d+)?(?![\w.])")


def canon_numbers(text: str) -> str:
    """'1' and '1.0' are the same number to blockMesh"""
    return _NUMBER.sub(lambda mo: repr(float(mo.group(0))), text)


def patch_table(bmd) -> Tuple[Dict[str, tuple], List[str]]:
    table = {}
    for p in bmd.patches:
        if p.faces:
            table[p.name] = (p.type, [" ".join(s) for s in p.settings], [list(q) for q in p.faces])
    return table, [p.name for p in bmd.patches if p.faces]


def write_to(mesh, name: str) -> str:
    path = lt.write_path(name)
    if os.path.exists(path):
        os.remove(path)
    mesh.write(path)
    with open(path) as f:
        return f.read()


# --------------------------------------------------------------------------------------------------
# interpreter


class Run:
    def __init__(self, case, ctx: Ctx) -> None:
        self.case = case
        self.ctx = ctx
        self.m = Model(case)
        self.mesh = self.m.new_mesh()
        self.ops: Dict[int, Any] = {}
        self.executed: List[str] = []
        self.trace: List[list] = []  # executed steps with their resolved discrete arguments (distinctness key)
        self.resolved: list = []
        self.features: set = set()  # things that happened so far: reassembled, deleted, written, modified, moved...
        self.judged = 0
        self.nontrivial = False
        self.small_move_pending = False
        self.buffer = np.zeros(3)  # the caller's work array for move_to
        self.last_counts: Optional[list] = None  # cell counts of the hex entries at the previous judged write

    # ---- facts attached to every violation
    def facts(self, **extra) -> dict:
        out = {
            "steps": list(self.executed),
            "alive": len(self.m.alive),
            "deleted": len(self.m.deleted),
            "merged": len(self.m.merged),
            "features": sorted(self.features),
        }
        out.update(extra)
        return out

    def fail(self, kind: str, msg: str, **extra):
        raise Violation(kind, msg, **self.facts(**extra)) from None

    def lib(self, what: str, fn, *args):
        """a library call that must succeed in this state"""
        try:
            return fn(*args)
        except Exception as ex:  # noqa: BLE001
            self.fail(f"{what}-failed", f"{what} raised {type(ex).__name__}: {ex}", error=type(ex).__name__)

    def skip(self, name: str, why: str) -> None:
        self.ctx.label(f"skipped:{name}:{why}")

    # ---- steps
    def step(self, st_: list) -> None:
        name = st_[0]
        self.resolved = []
        done = getattr(self, "do_" + name)(*st_[1:])
        if done:
            self.executed.append(name)
            self.trace.append([name, *self.resolved])

    def do_add(self, k: int, n: int = 1) -> bool:
        m = self.m
        rest = [i for i in range(len(m.pool)) if i not in m.added]
        if m.assembled:
            self.skip("add", "assembled")
            return False
        if not rest:
            self.skip("add", "pool-empty")
            return False
        start = k % len(rest)
        bundle = (rest[start:] + rest[:start])[:n]
        self.resolved = list(bundle)
        for i in bundle:
            self.ops[i] = m.make_op(i)
        entity = self.ops[bundle[0]] if len(bundle) == 1 else Bundle([self.ops[i] for i in bundle])
        self.lib("add", self.mesh.add, entity)
        m.added.extend(bundle)
        m.bundles.append(bundle)
        if len(bundle) > 1:
            self.features.add("added-shape")
        return True

    def do_delete(self, k: int) -> bool:
        m = self.m
        alive = m.alive
        if m.assembled:
            self.skip("delete", "assembled")
            return False
        if len(alive) < 2:
            self.skip("delete", "last-operation")
            return False
        i = alive[k % len(alive)]
        self.resolved = [i]
        self.lib("delete", self.mesh.delete, self.ops[i])
        m.deleted.add(i)
        self.features.add("deleted")
        self.features.add("deleted-first" if i == m.added[0] else "deleted-later")
        if self.features & {"written", "reassembled", "cleared"}:
            self.features.add("deleted-after-an-assembly")
        return True

    def do_assemble(self) -> bool:
        m = self.m
        if m.assembled:
            self.skip("assemble", "assembled")
            return False
        if not m.alive:
            self.skip("assemble", "empty")
            return False
        self.lib("assemble", self.mesh.assemble)
        self._assembled_now()
        return True

    def _assembled_now(self) -> None:
        if not self.m.assembled:
            self.m.assembled = True
            if "cleared" in self.features:
                self.features.add("reassembled")
                self.features.discard("cleared")

    def do_clear(self) -> bool:
        m = self.m
        self.lib("clear", self.mesh.clear)
        if not m.assembled:
            # clear() undoes assemble(); with nothing assembled it must leave the model (script) as it is
            self.resolved = ["unassembled"]
            self.features.add("cleared-unassembled")
            if m.mods:
                self.features.add("cleared-unassembled-after-modify")
            return True
        m.assembled = False
        if m.pending:
            self.features.add("moves-dropped-by-clear")
        m.pending.clear()
        self.small_move_pending = False
        self.features.add("cleared")
        if m.mods:
            self.features.add("cleared-after-modify")
        return True

    def do_move(self, picks: list) -> bool:
        m = self.m
        if not m.assembled:
            self.skip("move", "not-assembled")
            return False
        alive = m.alive
        blocks = self.mesh.blocks
        if len(blocks) != len(alive):
            self.fail("block-count", f"{len(blocks)} blocks for {len(alive)} live operations")
        for pick in picks:
            k, corner, frac = pick[:3]
            decade, mask = (pick[3], pick[4]) if len(pick) > 3 else (0, 0)
            manner = MOVE_MANNERS[pick[5]] if len(pick) > 5 else "move_to-list"
            i = alive[k % len(alive)]
            self.resolved.append([i, corner])
            vertex = blocks[alive.index(i)].vertices[corner]
            self._expect_position(vertex.position, m.live_pos(i, corner), "assembled-position",
                                  f"vertex of operation {i} corner {corner}")
            disp = MOVE_FRACTION * MOVE_DECADES[decade] * m.minw * np.array(frac, dtype=float) * np.array(AXIS_MASKS[mask])
            disp = np.where((disp != 0) & (np.abs(disp) < MOVE_MIN), np.copysign(MOVE_MIN, disp), disp)
            current = np.array(m.live_pos(i, corner), dtype=float)
            target = m.orig[i][corner] + disp
            if manner == "translate":
                # the same arithmetic as Point.translate (position += displacement), so the model is bit-exact
                target = current.copy()
                target += m.orig[i][corner] + disp - current
            elif manner == "components":
                # only the chosen coordinates are assigned, the others keep their current value
                target = np.where(np.array(AXIS_MASKS[mask]) == 1, target, current)
            step = np.abs(target - current)
            if step.max() >= MOVE_MIN and np.all(step <= 1e-8 + 1e-5 * np.abs(target)):
                # every component changes by less than 1e-5 of its value (numpy's default 'close'), yet it is a real move
                self.features.add("moved-less-than-1e-5-of-coordinate")
                self.small_move_pending = True
            # the vertex belongs to every operation whose block lists it
            for bi, block in enumerate(blocks):
                for c, v in enumerate(block.vertices):
                    if v is vertex:
                        m.pending[(alive[bi], c)] = target.copy()
            # the ways callers move a vertex (tests, examples/): the caller's own data stays the caller's
            if manner == "move_to-list":
                self.lib("move_to", vertex.move_to, target.tolist())
            elif manner == "move_to-buffer":
                self.buffer[:] = target  # one work array, refilled for every vertex
                self.lib("move_to", vertex.move_to, self.buffer)
            elif manner == "translate":
                self.lib("translate", vertex.translate, m.orig[i][corner] + disp - current)
            else:
                for a in range(3):
                    if AXIS_MASKS[mask][a]:
                        vertex.position[a] = float(target[a])
            self.ctx.label("move:" + manner)
        # ... and is used for something else afterwards
        self.buffer[:] = m.orig[0][0] - 7.0 * m.minw
        self.features.add("moved")
        return True

    def _expect_position(self, got, want, kind: str, what: str) -> None:
        # positions are copied, never computed: 1e-12 + a few ulp of the coordinate (offsets up to 4.2e6)
        err = float(np.max(np.abs(np.asarray(got, dtype=float) - want)))
        if not err <= 1e-12 + 4 * EPS * float(np.max(np.abs(want))):
            self.fail(kind, f"{what}: position {np.asarray(got).tolist()} expected {want.tolist()}", error=err)

    def do_backport(self) -> bool:
        m = self.m
        if not m.assembled:
            self.skip("backport", "not-assembled")
            return False
        moved = bool(m.pending)
        if moved and self.small_move_pending:
            self.features.add("backported-move-less-than-1e-5-of-coordinate")
        self.small_move_pending = False
        self.lib("backport", self.mesh.backport)
        for (i, corner), target in m.pending.items():
            m.pos[i][corner] = target
        m.pending.clear()
        # exactly the operations the moved vertices belong to are updated, deleted ones are untouched
        for i in m.added:
            got = np.asarray(self.ops[i].point_array, dtype=float)
            err = float(np.max(np.abs(got - m.pos[i])))
            if not err <= 1e-12 + 4 * EPS * float(np.max(np.abs(m.pos[i]))):
                self.fail(
                    "backport-wrong-operation",
                    f"operation {i} ({'deleted' if i in m.deleted else 'live'}) holds {got.tolist()} after backport, "
                    f"expected {m.pos[i].tolist()}",
                    operation_deleted=i in m.deleted, error=err, moved=moved,
                )
        # ... and the re-assembled mesh has the moved positions
        alive = m.alive
        blocks = self.mesh.blocks
        if len(blocks) != len(alive):
            self.fail("block-count", f"{len(blocks)} blocks for {len(alive)} live operations after backport")
        for bi, i in enumerate(alive):
            for c in range(8):
                self._expect_position(blocks[bi].vertices[c].position, m.pos[i][c], "reassembled-position",
                                      f"after backport, block {bi} corner {c}")
        self.features.add("reassembled")
        self.features.add("backported-moves" if moved else "backported-unmoved")
        if moved and m.deleted:
            self.features.add("backported-moves-with-deleted")
        flags = [i in m.deleted for i in m.added]
        if any(flags[j] and flags[j + 1] and not all(flags[j + 2:]) for j in range(len(flags) - 1)):
            self.features.add("backported-past-two-adjacent-deleted")
        if self.m.mods:
            self.features.add("cleared-after-modify")
        self.judged += 1
        self.nontrivial = True
        return True

    def do_modify_patch(self, k: int, kind: int, settings: int) -> bool:
        m = self.m
        names = m.names_in_use()
        if not names:
            self.skip("modify_patch", "no-patch")
            return False
        name = names[k % len(names)]
        self.resolved = [name, kind, settings]
        sett = SETTINGS[settings]
        self.lib("modify_patch", self.mesh.modify_patch, name, KINDS[kind], None if sett is None else list(sett))
        old = m.mods.get(name, ["patch", []])
        m.mods[name] = [KINDS[kind], old[1] if sett is None else list(sett)]
        self.features.add("modified")
        return True

    def do_set_default_patch(self, k: int) -> bool:
        self.resolved = [k]
        self.lib("set_default_patch", self.mesh.set_default_patch, *DEFAULTS[k])
        self.m.default = list(DEFAULTS[k])
        self.features.add("default-set")
        return True

    def do_merge_patches(self, a: int, b: int) -> bool:
        m = self.m
        names = m.names_in_use()
        if m.assembled:
            self.skip("merge_patches", "assembled")
            return False
        if len(names) < 2:
            self.skip("merge_patches", "no-patches")
            return False
        master, slave = names[a % len(names)], names[b % len(names)]
        used = {n for pair in m.merged for n in pair}
        if master == slave or master in used or slave in used:
            self.skip("merge_patches", "same-or-used")
            return False
        self.resolved = [master, slave]
        self.lib("merge_patches", self.mesh.merge_patches, master, slave)
        m.merged.append([master, slave])
        self.features.add("merged")
        return True

    def do_write(self, twice: bool) -> bool:
        m = self.m
        self.resolved = [bool(twice)]
        if not m.alive:
            self.skip("write", "empty")
            return False
        # reference: fresh mesh, single assembly
        try:
            want = write_to(m.fresh_mesh(), "c12_fresh")
        except Exception as ex:  # noqa: BLE001
            want = None
            self.ctx.label("fresh-write-raised:" + type(ex).__name__)
        try:
            got = write_to(self.mesh, "c12_real")
        except Exception as ex:  # noqa: BLE001
            self._assembled_now()
            if want is None:
                return True
            self.fail("write-failed", f"write raised {type(ex).__name__} (a fresh build of the same model is written): {ex}",
                      error=type(ex).__name__, written_before="written" in self.features)
        self._assembled_now()
        if want is None:
            self.ctx.label("real-written-fresh-not")
            self.features.add("written")
            return True
        self.compare(got, want)
        self.check_against_model(got)
        if m.pending:
            self.ctx.label("write-with-pending-moves")
        counts = [tuple(b.counts) for b in lt.parse(got).blocks]
        if self.last_counts is not None and len(counts) == len(self.last_counts) and counts != self.last_counts:
            self.ctx.label("cell-counts-changed-since-last-write")
        self.last_counts = counts
        if self.features & {"reassembled", "deleted", "written"}:
            self.nontrivial = True
        self.judged += 1
        self.features.add("written")
        if twice:
            try:
                again = write_to(self.mesh, "c12_real")
            except Exception as ex:  # noqa: BLE001
                self.fail("second-write-failed", f"second write raised {type(ex).__name__}: {ex}", error=type(ex).__name__)
            if again != got:
                sec = self._first_difference(sections(again), sections(got))
                self.fail("second-write-differs", f"writing the same mesh twice gives different files (section {sec})",
                          section=sec)
            self.nontrivial = True
            self.ctx.label("write-twice")
        return True

    # ---- oracles on a written text
    @staticmethod
    def _first_difference(a: Dict[str, str], b: Dict[str, str]) -> Optional[str]:
        for name in ("header", *SECTION_NAMES):
            if a.get(name) != b.get(name):
                return name
        return None

    def compare(self, got: str, want: str) -> None:
        """history text against the text of the fresh build"""
        if got == want:
            return
        sg, sw = sections(got), sections(want)
        for name in ("header", *SECTION_NAMES):
            if name == "boundary":
                continue
            if sg.get(name) != sw.get(name):
                if name == "blocks" and canon_numbers(sg[name]) == canon_numbers(sw.get(name, "")):
                    self.ctx.label("number-format-differs")
                    continue
                a, b = (sg.get(name) or "").split("\n"), (sw.get(name) or "").split("\n")
                k = next((j for j in range(min(len(a), len(b))) if a[j] != b[j]), min(len(a), len(b)))
                self.fail(
                    f"{name}-differ",
                    f"section {name!r} differs from a fresh build at its line {k}: "
                    f"{a[k].strip() if k < len(a) else '<end>'!r} written, fresh build has "
                    f"{b[k].strip() if k < len(b) else '<end>'!r}",
                    section=name,
                )
        try:
            tg, og = patch_table(lt.parse(got))
            tw, ow = patch_table(lt.parse(want))
        except FoamParseError as ex:
            self.fail("unparsable", f"written file does not parse: {ex}")
        if og != ow:
            self.ctx.label("patch-order-differs")
        if sorted(tg) != sorted(tw):
            self.fail("boundary-patches-differ", f"patches {sorted(tg)} written, fresh build has {sorted(tw)}",
                      section="boundary")
        for name in sorted(tw):
            (kg, stg, fg), (kw, stw, fw) = tg[name], tw[name]
            if fg != fw:
                self.fail("boundary-faces-differ", f"patch {name}: quads {fg}, fresh build has {fw}", section="boundary",
                          patch=name)
            if (kg, stg) != (kw, stw):
                self.fail(
                    "patch-type-differs",
                    f"patch {name}: type {kg!r} settings {stg}, fresh build has {kw!r} {stw} "
                    f"(set through modify_patch: {self.m.mods.get(name)})",
                    section="boundary", patch=name, modified=name in self.m.mods,
                )

    def check_against_model(self, text: str) -> None:
        """independent of the fresh build: one hex per live operation, at the model's corner positions"""
        m = self.m
        try:
            bmd = lt.parse(text)
        except FoamParseError as ex:
            self.fail("unparsable", f"written file does not parse: {ex}")
        alive = m.alive
        if len(bmd.blocks) != len(alive):
            self.fail("block-count", f"{len(bmd.blocks)} hex entries for {len(alive)} live operations")
        nv = len(bmd.vertices)
        for bi, i in enumerate(alive):
            for c, vid in enumerate(bmd.blocks[bi].ids):
                if not 0 <= vid < nv:
                    self.fail("bad-vertex-label", f"hex {bi} refers to vertex {vid} of {nv}")
                want = m.live_pos(i, c)
                err = float(np.max(np.abs(np.array(bmd.vertices[vid].pos) - want)))
                # 8 printed decimals (5e-9) + a few ulp of the coordinate; the smallest move is 1e-5
                if not err <= 1e-8 + 4 * EPS * float(np.max(np.abs(want))):
                    self.fail("written-position", f"hex {bi} corner {c}: written {bmd.vertices[vid].pos}, model {want.tolist()}",
                              error=err)
        # quads of a patch are sides of live blocks carrying that patch name
        expected: Dict[str, set] = {}
        for bi, i in enumerate(alive):
            for orient, name in m.pool[i]["patches"].items():
                ids = bmd.blocks[bi].ids
                expected.setdefault(name, set()).add(frozenset(ids[c] for c in HEX_SIDES[orient]))
        table, _ = patch_table(bmd)
        for name, quads in expected.items():
            got = {frozenset(q) for q in table.get(name, ("", [], []))[2]}
            if got != quads:
                self.fail("patch-quads", f"patch {name}: quads {sorted(map(sorted, got))}, model {sorted(map(sorted, quads))}",
                          patch=name)
        if set(table) - set(expected):
            self.fail("patch-quads", f"patches {sorted(set(table) - set(expected))} carry faces no live operation assigns")
        if [list(p) for p in bmd.merge_pairs] != m.merged:
            self.fail("merge-pairs", f"mergePatchPairs {bmd.merge_pairs}, model {m.merged}")
        dp = None if bmd.default_patch is None else [bmd.default_patch.get("name"), bmd.default_patch.get("type")]
        if dp != m.default:
            self.fail("default-patch", f"defaultPatch {dp}, model {m.default}")


def check_history(case, ctx: Ctx) -> None:
    run = Run(case, ctx)
    for step in case["program"]:
        run.step(step)
    ctx.key = [case["dims"], [case["pool"][i] for i in run.m.added], run.trace]
    ctx.nt(run.nontrivial and run.judged > 0)
    ctx.label(*("did:" + f for f in sorted(run.features)))
    ctx.label(f"judged={min(run.judged, 4)}")
    ctx.label(f"alive={len(run.m.alive)}")
    curved = [s for i, s in enumerate(run.m.pool) if i in run.m.added and s["arc"]]
    if curved:
        ctx.label("has-curved-edge")
        ctx.label(*sorted({"edge:" + s.get("edge", "arc") for s in curved}))
        if any(s.get("edge", "arc") != "arc" and s["arc"][0] != "side" and s["arc"][1] == 3 for s in curved):
            ctx.label("directional-closing-edge" + ("+reassembled" if "reassembled" in run.features else ""))
    if run.m.uses_geometry:
        ctx.label("has-projection")


# --------------------------------------------------------------------------------------------------

CELLS = [
    Cell("C12/history/chopped", history("all"), check_history, 700, 21000,
         "every operation chopped on every axis; no modify_patch; text vs fresh build at every write, point arrays after "
         "backport, second write"),
    Cell("C12/history/propagated", history("sparse"), check_history, 700, 21000,
         "about two thirds of the block directions whose edge family is chopped on an earlier operation get their count from "
         "neighbours; writes that a fresh build cannot do either (family left without a chop after a delete) are counted"),
    Cell("C12/history/patches", history("all", modify=True), check_history, 600, 18000,
         "as chopped, plus modify_patch steps (types and settings changed through the mesh must survive clear/backport)"),
    Cell("C12/history/rewritten-after-move", sized_history(), check_history, 400, 12000,
         "row of 2-3 operations, one family chopped by a cell size close to a rounding step on one operation and "
         "propagated to the others; write, move, write without backport, then free steps: counts must follow the moved "
         "lengths exactly as in a fresh build that receives the same moves"),
]
