"""C18 — finders are exact; viewpoint re-orientation canonicalises block numbering (DESIGN.md section 4, C18)."""

from __future__ import annotations

import math
import warnings

import numpy as np
from hypothesis import strategies as st

from vf.core import Cell, Ctx, Violation
from vf.refmodel import (HEX_SIDES, apply, apply_dir, hex_corner_jacobians, hex_mirrorings, hex_rotations, m_mirror, m_rotate,
                         m_translate, rodrigues)

warnings.simplefilter("ignore")

import classy_blocks as cb  # noqa: E402
from classy_blocks.modify.find.geometric import GeometricFinder  # noqa: E402
from classy_blocks.modify.find.shape import RoundSolidFinder  # noqa: E402
from classy_blocks.modify.reorient.viewpoint import ViewpointReorienter  # noqa: E402

RULE = (
    "Finder cells: 1-4 shapes (boxes in an arbitrary frame, rows of 2-3 boxes sharing faces, Cylinder, SemiCylinder, "
    "Frustum, Elbow, Cylinder + chained Cylinder) at size 0.1-30 in separate slots, the whole "
    "model placed at an offset of 0 / 1e3 / 1e5 sizes (1e3 at most when round shapes are present: their constructors "
    "test perpendicularity against the absolute TOL) from the origin along a general direction, assembled; 1-4 queries per mesh. "
    "Spheres: centre at / next to (0.3, 3, 30 TOL, 1e-3 S) a mesh vertex or anywhere, radius None (= TOL) or over 3.5 "
    "decades; planes through 3 / 2 / 1 / 0 mesh vertices with a non-unit normal, shifted by 0, 0.3, 3, 30 TOL. Margin "
    "rule: a radius closer than 1e-6 (relative) to a vertex distance is moved to a clear value by construction; a query "
    "with a vertex between 0.9 and 1.1 TOL from the boundary is not judged (counted). The expected set is a brute-force "
    "numpy selection over mesh.vertices' current positions: after the first queries, 0-3 rounds follow in which 1-3 mesh "
    "vertices are moved on their own (move_to / translate, by 1e-3 ... 3 S) and the same finder object is queried again, "
    "also exactly at the new and at the former position of a moved vertex. Round-shape finder: a round shape may be mirrored (every loft inverted), rotated or "
    "translated as a whole by the library before it is added; expected sets come from the case's own axis / radius data, "
    "mapped by the harness "
    "(end plane, radial distance = R for the rim, < R for the core). The round cell also draws micro-scale models (S = "
    "1e-4 ... 7e-6, radii >= 2.1e-6, closest distinct sketch points 2.4 TOL apart). Merged cell: two cylinders end to end (aligned, "
    "twisted by 45 degrees or by a general angle) joined with mesh.merge_patches in both insertion orders and both "
    "master choices, so the interface holds duplicated vertices; expected = every mesh vertex within TOL of an end-face "
    "corner of the shape's own blocks (positions read from the assembled blocks). Re-orientation: a cube, tapered, jittered (<= 0.15 "
    "edge), mapped by rotation x anisotropic scaling x shear, placed 0 / 1e3 / 1e5 / 2e6 sizes from the origin (all three "
    "coordinates large), viewed from a point near the normal of a drawn face with "
    "the ceiling near the normal of a drawn lateral face; every one of the 48 numberings is re-oriented and compared "
    "with the numbering the harness derives from R-HEX. Many-blocks cell: one ViewpointReorienter, 2-4 blocks of one size placed 3-16 sizes from the "
    "observer in drawn directions (beside, behind, opposite each other), each turned so that its drawn front / top sides "
    "face observer / ceiling with the margin rule re-checked in place, each in a drawn numbering, judged one by one. "
    "Non-trivial: the query selects a proper non-empty subset; a "
    "non-identity numbering changed the block."
)
ASSUMPTIONS = [
    "TOL = 1e-7 (constants.TOL) is the merge tolerance meant by the statement; 'within the sphere' is distance < radius, "
    "'on the plane' is |n.(v - p)| < TOL; cases on the boundary itself (0.9-1.1 TOL, 1e-6 relative in radius) are outside "
    "the checked domain",
    "end-face vertices are those within 1e-6 S of the end plane and within R (1 + 1e-6) of its centre; rim: |r - R| <= "
    "1e-6 R, core: r <= 0.999 R (the sketches put core points at <= 0.89 R); shapes sit in separate slots so no foreign "
    "vertex comes near an end face",
    "merged cell: the end-face points are the positions of corners 0-3 / 4-7 of the shape's own blocks as assembled; all "
    "mesh vertices coincident with them (duplicates of a merge_patches pair included) count as vertices of that face",
    "general position for re-orientation: for each of the six view directions (to the observer, to the ceiling "
    "orthogonalised against it, their cross product, and the opposites) the worst-aligned triangle of the chosen face "
    "(either diagonal) beats the best-aligned triangle of any other face by 0.1, and the six chosen faces are distinct "
    "with front/back, top/bottom, left/right opposite; the 8 points are the vertices of their convex hull and every hull "
    "triangle lies in one face",
    "re-oriented points are copies of the input points: compared to 1e-12 of the block size + 8 eps x the largest "
    "coordinate; offsets stop at 2e6 sizes (coordinates <= 6e7, one ulp = 7.5e-9 < TOL / 10), beyond which the library's "
    "absolute TOL = 1e-7 comparisons would legitimately meet rounding",
]

TOL = 1e-7

_unit = st.floats(-1.0, 1.0)
_vec = st.tuples(_unit, _unit, _unit).map(list)
_size = st.floats(-1.0, 1.5).map(lambda u: 10.0**u)


def _normalised(v, fallback):
    v = np.asarray(v, dtype=float)
    n = np.linalg.norm(v)
    return np.asarray(fallback, dtype=float) if n < 0.05 else v / n


def rotation_of(fr):
    return rodrigues(_normalised(fr["axis"], [0, 0, 1]), fr["angle"])


# placement far from the origin (a metre-sized block at UTM coordinates, a mm part in a large assembly): offset = ratio x size
# along a direction with all three components >= 0.3
_offset_dir = st.tuples(*[st.tuples(st.floats(0.3, 1.0), st.sampled_from([1.0, -1.0])).map(lambda t: t[0] * t[1])] * 3).map(list)


def _offset(ratios):
    return st.fixed_dictionaries({"ratio": st.sampled_from(ratios), "dir": _offset_dir})


def offset_vector(off, S):
    return np.zeros(3) if not off else off["ratio"] * S * np.array(off["dir"])


_frame = st.fixed_dictionaries({"axis": _vec, "angle": st.floats(-math.pi, math.pi), "jitter": _vec})

# --------------------------------------------------------------------------------------------------
# meshes of boxes and round shapes

CUBE = np.array([[0, 0, 0], [1, 0, 0], [1, 1, 0], [0, 1, 0], [0, 0, 1], [1, 0, 1], [1, 1, 1], [0, 1, 1]], dtype=float)
ROUND_KINDS = ("cylinder", "semicylinder", "frustum", "frustum-mid", "elbow", "chain")


@st.composite
def shape_spec(draw, kinds):
    kind = draw(st.sampled_from(list(kinds)))
    spec = {"kind": kind, "frame": draw(_frame)}
    ratio = st.floats(0.3, 2.0)
    if kind == "box":
        spec["size"] = [draw(ratio), draw(ratio), draw(ratio)]
        spec["count"] = draw(st.sampled_from([1, 1, 2, 3]))
    else:
        spec["radius"] = draw(st.floats(0.3, 1.0))
        spec["length"] = draw(ratio)
        if kind.startswith("frustum") or kind == "elbow":
            spec["radius_2"] = draw(st.floats(0.3, 1.0))
        if kind == "frustum-mid":
            spec["radius_mid"] = draw(st.floats(0.4, 1.2))
        if kind == "elbow":
            spec["sweep"] = draw(st.floats(0.3, 2.5))
            spec["arc_radius"] = draw(st.floats(1.5, 3.0))
        if kind == "chain":
            spec["length_2"] = draw(ratio)
        # the finished shape is moved as a whole with the library's own methods before it is added to the mesh
        # (a mirrored shape has every loft inverted); the harness maps its end-face data with R-AFFINE
        how = draw(st.sampled_from([None, None, "mirror", "mirror", "rotate", "translate"]))
        if how:
            spec["moved"] = {"how": how, "vector": draw(_vec), "about": draw(_vec), "angle": draw(st.floats(-3.0, 3.0))}
    return spec


# micro-scale models: radii are 0.3-1 x S, so >= 2.1e-6; the closest pair of distinct sketch points of a disk (rim point and
# core corner on the same diagonal, 0.115 R apart) stays >= 2.4e-7 = 2.4 TOL apart, i.e. distinct for the merge tolerance
_MICRO = [1e-4, 3e-5, 1e-5, 7e-6]


@st.composite
def mesh_spec(draw, kinds, first_kinds=None, max_shapes=4, offsets=(0.0,), micro=False):
    n = draw(st.integers(1, max_shapes))
    shapes = [draw(shape_spec(first_kinds or kinds))]
    shapes += [draw(shape_spec(kinds)) for _ in range(n - 1)]
    size = draw(st.one_of(_size, st.sampled_from(_MICRO))) if micro else draw(_size)
    off = draw(_offset(list(offsets)))
    if size < 0.05:
        off = {"ratio": 0.0, "dir": off["dir"]}  # far-away placement and micro size are not combined
    return {"S": size, "shapes": shapes, "offset": off}


def build_mesh(spec):
    """-> (assembled mesh, list of library shapes / operations, list of end-face descriptions for round shapes)"""
    S = spec["S"]
    mesh = cb.Mesh()
    items, ends = [], []
    for k, sh in enumerate(spec["shapes"]):
        rot = rotation_of(sh["frame"])
        org = S * (np.array([14.0 * k, 0, 0]) + np.array(sh["frame"]["jitter"])) + offset_vector(spec.get("offset"), S)
        e1, e2, e3 = rot[:, 0], rot[:, 1], rot[:, 2]
        kind = sh["kind"]
        if kind == "box":
            size = S * np.array(sh["size"])
            for i in range(sh["count"]):
                pts = org + ((CUBE + [i, 0, 0]) * size) @ rot.T
                op = cb.Loft(cb.Face(pts[:4]), cb.Face(pts[4:]))
                mesh.add(op)
                items.append(op)
            ends.append(None)
            continue
        R, length = S * sh["radius"], S * sh["length"]
        p2 = org + e3 * length
        rim = org + e1 * R
        if kind in ("cylinder", "semicylinder", "chain"):
            shape = (cb.SemiCylinder if kind == "semicylinder" else cb.Cylinder)(org, p2, rim)
            faces = [(org, e3, R), (p2, e3, R)]
        elif kind.startswith("frustum"):
            R2 = S * sh["radius_2"]
            shape = cb.Frustum(org, p2, rim, R2, S * sh["radius_mid"] if kind == "frustum-mid" else None)
            faces = [(org, e3, R), (p2, e3, R2)]
        else:
            R2 = S * sh["radius_2"]
            arc_center = org + e1 * S * sh["arc_radius"]
            shape = cb.Elbow(org, rim, e3, sh["sweep"], arc_center, e2, R2)
            M = m_rotate(sh["sweep"], e2, arc_center)
            faces = [(org, e3, R), (apply(M, org), apply_dir(M, e3), R2)]
        group, group_faces = [shape], [faces]
        if kind == "chain":
            length_2 = S * sh["length_2"]
            group.append(cb.Cylinder.chain(shape, length_2))
            group_faces.append([(p2, e3, R), (p2 + e3 * length_2, e3, R)])
        mv = sh.get("moved")
        if mv:
            about = org + S * np.array(mv["about"])
            direction = _normalised(mv["vector"], [0, 0, 1])
            if mv["how"] == "mirror":
                M = m_mirror(direction, about)
                for item in group:
                    item.mirror(direction * 2.5, about)
            elif mv["how"] == "rotate":
                M = m_rotate(mv["angle"], direction, about)
                for item in group:
                    item.rotate(mv["angle"], direction, about)
            else:
                M = m_translate(S * np.array(mv["vector"]))
                for item in group:
                    item.translate(S * np.array(mv["vector"]))
            group_faces = [[(apply(M, c), apply_dir(M, n), r) for c, n, r in fs] for fs in group_faces]
        for item, fs in zip(group, group_faces):
            mesh.add(item)
            items.append(item)
            ends.append(fs)
    mesh.assemble()
    return mesh, items, ends


def positions(mesh) -> np.ndarray:
    return np.array([np.asarray(v.position, dtype=float) for v in mesh.vertices])


def returned_indexes(found, mesh, facts):
    """positions (in mesh.vertices) of the returned vertices; they must be the mesh's own objects"""
    ids = {id(v): i for i, v in enumerate(mesh.vertices)}
    try:
        items = list(found)
    except TypeError:
        raise Violation("finder-result-type", f"finder returned {type(found).__name__}", **facts) from None
    out = []
    for v in items:
        if id(v) not in ids:
            raise Violation("finder-foreign-vertex", f"returned object {v!r} is not one of mesh.vertices", **facts)
        out.append(ids[id(v)])
    if len(set(out)) != len(out):
        raise Violation("finder-duplicates", "a vertex was returned twice", **facts)
    return sorted(out)


def compare_sets(kind_prefix, got, want, pos, facts, describe):
    missed = sorted(set(want) - set(got))
    extra = sorted(set(got) - set(want))
    if missed:
        raise Violation(kind_prefix + "-missed", f"{describe}: vertex {missed[0]} at {pos[missed[0]].tolist()} not returned "
                        f"({len(missed)} missed, {len(extra)} extra)", **facts, missed=len(missed), extra=len(extra))
    if extra:
        raise Violation(kind_prefix + "-extra", f"{describe}: vertex {extra[0]} at {pos[extra[0]].tolist()} returned although "
                        f"it does not qualify ({len(extra)} extra)", **facts, missed=0, extra=len(extra))


# --------------------------------------------------------------------------------------------------
# sphere

_OFFSETS = [0.0, 0.3 * TOL, 3 * TOL, 30 * TOL]


@st.composite
def sphere_query(draw):
    q = {"anchor": draw(st.integers(0, 200)), "dir": draw(_vec)}
    # "moved-new" / "moved-old": at the new / former position of a vertex moved in this round (else: at a vertex)
    q["where"] = draw(st.sampled_from(["at-vertex", "next-to-vertex", "near-vertex", "anywhere", "moved-new", "moved-old"]))
    if q["where"] == "next-to-vertex":
        q["offset"] = draw(st.sampled_from(_OFFSETS))
    elif q["where"] == "near-vertex":
        q["offset_rel"] = draw(st.sampled_from([1e-3, 0.1, 0.5]))
    elif q["where"] == "anywhere":
        q["offset_rel"] = draw(st.floats(0.5, 20.0))
    q["radius_rel"] = draw(st.one_of(st.none(), st.floats(-3.0, 1.5).map(lambda u: 10.0**u),
                                     st.sampled_from([1.0, 0.5, 2.0, math.sqrt(2.0)])))
    # radius just below / above the distance of another vertex (a boundary 100x wider than the margin rule)
    q["radius_at"] = draw(st.one_of(st.none(), st.tuples(st.integers(0, 200), st.sampled_from([-1e-4, 1e-4, -1e-2, 1e-2])).map(list)))
    return q


def clear_radius(dist: np.ndarray, r: float, S: float) -> float:
    """the drawn radius, moved (deterministically, by <= 0.1 %) until no vertex is within the rounding margin of it"""
    margin = 1e-6 * max(r, S)
    for j in range(200):
        cand = r * (1 + 1e-5 * ((j + 1) // 2) * (1 if j % 2 else -1))
        if cand > 0 and np.all(np.abs(dist - cand) > margin):
            return cand
    return -1.0


@st.composite
def move_spec(draw):
    return {"vertex": draw(st.integers(0, 200)), "dir": draw(_vec), "dist_rel": draw(st.sampled_from([1e-3, 0.05, 0.5, 3.0])),
            "how": draw(st.sampled_from(["move_to", "translate"]))}


def apply_moves(mesh, moves, S):
    """moves mesh vertices on their own (as an optimiser or the user does); -> [(index, old position, new position)]"""
    out = []
    vertices = mesh.vertices
    for m in moves:
        i = m["vertex"] % len(vertices)
        v = vertices[i]
        old = np.array(v.position, dtype=float)
        step = _normalised(m["dir"], [0, 1, 0]) * m["dist_rel"] * S
        if m["how"] == "move_to":
            v.move_to(old + step)
        else:
            v.translate(step)
        out.append((i, old, np.array(v.position, dtype=float)))
    return out


def run_rounds(case, ctx: Ctx, mesh, S, one_query) -> None:
    """round 0: the case's queries; then per round: move 1-3 vertices, query again - always with the same finder and
    always judged against the current positions"""
    nt = False
    for k, rnd in enumerate([{"moves": [], "queries": case["queries"]}, *case.get("rounds", [])]):
        moved = apply_moves(mesh, rnd["moves"], S)
        pos = positions(mesh)
        for qi, q in enumerate(rnd["queries"]):
            nt = one_query(pos, q, {"round": k, "query": qi, "moved": [m[0] for m in moved]}, moved) or nt
    ctx.nt(nt)
    ctx.label("rounds=%d" % len(case.get("rounds", [])), "offset/size=%g" % (case["mesh"].get("offset") or {"ratio": 0.0})["ratio"])


def check_sphere(case, ctx: Ctx) -> None:
    spec = case["mesh"]
    S = spec["S"]
    mesh, _items, _ends = build_mesh(spec)
    finder = GeometricFinder(mesh)

    def one_query(pos, q, where, moved) -> bool:
        anchor = pos[q["anchor"] % len(pos)]
        if q["where"] in ("moved-new", "moved-old") and moved:
            _i, old, new = moved[q["anchor"] % len(moved)]
            anchor = new if q["where"] == "moved-new" else old
            ctx.label("sphere:" + q["where"])
        u = _normalised(q["dir"], [1, 0, 0])
        centre = anchor + u * (q.get("offset", 0.0) + q.get("offset_rel", 0.0) * S)
        dist = np.linalg.norm(pos - centre, axis=1)
        facts = {**where, "where": q["where"], "offset": q.get("offset"), "default_radius": q["radius_rel"] is None,
                 "shapes": [s["kind"] for s in spec["shapes"]]}
        if q["radius_rel"] is None:
            r_arg, r = None, TOL
            if np.any(np.abs(dist - TOL) < 0.1 * TOL):
                ctx.label("sphere:boundary-skipped")
                return False
        else:
            r0 = q["radius_rel"] * S
            if q.get("radius_at") and dist[q["radius_at"][0] % len(pos)] > 1e-3 * S:
                r0 = dist[q["radius_at"][0] % len(pos)] * (1 + q["radius_at"][1])
                ctx.label("sphere:radius-at-vertex")
            r = clear_radius(dist, r0, S)
            if r < 0:
                ctx.label("sphere:boundary-skipped")
                return False
            r_arg = r
        facts["radius"] = r
        try:
            found = finder.find_in_sphere(centre, r_arg) if r_arg is not None else finder.find_in_sphere(centre)
        except Exception as ex:  # noqa: BLE001
            raise Violation("sphere-raised", f"find_in_sphere raised {type(ex).__name__}: {ex}", **facts) from None
        got = returned_indexes(found, mesh, facts)
        want = [int(i) for i in np.nonzero(dist < r)[0]]
        compare_sets("sphere", got, want, pos, facts, f"sphere at {centre.tolist()} radius {r}")
        ctx.label("sphere:default-radius" if r_arg is None else "sphere:radius",
                  "sphere:empty" if not want else ("sphere:all" if len(want) == len(pos) else
                                                   ("sphere:one" if len(want) == 1 else "sphere:several")))
        if q["where"] == "next-to-vertex":
            ctx.label("sphere:offset=%g" % q["offset"])
        if moved and any(i in want for i, _o, _n in moved):
            ctx.label("sphere:selects-moved-vertex")
        return 0 < len(want) < len(pos)

    run_rounds(case, ctx, mesh, S, one_query)
    n = len(mesh.vertices)
    ctx.label("vertices<=8" if n <= 8 else ("vertices<=40" if n <= 40 else "vertices>40"))


# --------------------------------------------------------------------------------------------------
# plane


@st.composite
def plane_query(draw):
    return {
        "through": draw(st.sampled_from([3, 3, 2, 1, 0])),
        "anchors": [draw(st.integers(0, 200)) for _ in range(3)],
        "dir": draw(_vec),
        "shift": draw(st.sampled_from(_OFFSETS)),
        "normal_length": draw(st.sampled_from([1.0, 1e-3, 0.37, 25.0])),
        "flip": draw(st.booleans()),
        # the first anchor is the new / former position of a vertex moved in this round (when there is one)
        "moved": draw(st.sampled_from([None, None, "new", "old"])),
    }


def check_plane(case, ctx: Ctx) -> None:
    spec = case["mesh"]
    S = spec["S"]
    mesh, _items, _ends = build_mesh(spec)
    finder = GeometricFinder(mesh)

    def one_query(pos, q, where, moved) -> bool:
        a, b, c = (pos[i % len(pos)] for i in q["anchors"])
        through = q["through"]
        if q.get("moved") and moved:
            _i, old, new = moved[q["anchors"][0] % len(moved)]
            a = new if q["moved"] == "new" else old
            through = through if q["moved"] == "new" else min(through, 1)
            ctx.label("plane:moved-" + q["moved"])
        u = _normalised(q["dir"], [0, 0, 1])
        normal = None
        if through == 3:
            normal = np.cross(b - a, c - a)
            if np.linalg.norm(normal) < 1e-6 * S * S:
                through = 2
        if through == 2:
            normal = np.cross(b - a, u)
            if np.linalg.norm(normal) < 1e-6 * S:
                through = 1
        if through <= 1:
            normal = u
        n_hat = normal / np.linalg.norm(normal)
        point = a if through >= 1 else a + u * 0.37 * S
        point = point + n_hat * q["shift"]
        normal = n_hat * q["normal_length"] * (-1 if q["flip"] else 1)
        signed = (pos - point) @ n_hat
        facts = {**where, "through": through, "shift": q["shift"], "normal_length": q["normal_length"],
                 "shapes": [s["kind"] for s in spec["shapes"]]}
        if np.any((np.abs(signed) > 0.9 * TOL) & (np.abs(signed) < 1.1 * TOL)):
            ctx.label("plane:boundary-skipped")
            return False
        try:
            found = finder.find_on_plane(point, normal)
        except Exception as ex:  # noqa: BLE001
            raise Violation("plane-raised", f"find_on_plane raised {type(ex).__name__}: {ex}", **facts) from None
        got = returned_indexes(found, mesh, facts)
        want = [int(i) for i in np.nonzero(np.abs(signed) < TOL)[0]]
        compare_sets("plane", got, want, pos, facts, f"plane through {point.tolist()} normal {normal.tolist()}")
        ctx.label("plane:through=%d" % through, "plane:shift=%g" % q["shift"],
                  "plane:empty" if not want else ("plane:1-2" if len(want) <= 2 else ("plane:3-4" if len(want) <= 4 else "plane:>4")),
                  "plane:one-sided" if (np.all(signed > -TOL) or np.all(signed < TOL)) else "plane:cutting")
        if moved and any(i in want for i, _o, _n in moved):
            ctx.label("plane:selects-moved-vertex")
        return 0 < len(want) < len(pos)

    run_rounds(case, ctx, mesh, S, one_query)


# --------------------------------------------------------------------------------------------------
# round shapes: core / outer rim of an end face


def check_round(case, ctx: Ctx) -> None:
    spec = case["mesh"]
    S = spec["S"]
    mesh, items, ends = build_mesh(spec)
    pos = positions(mesh)
    rounds = [(it, en) for it, en in zip(items_by_spec(spec, items), ends) if en is not None]
    round_specs = [sh for sh in spec["shapes"] if sh["kind"] != "box" for _ in range(2 if sh["kind"] == "chain" else 1)]
    nt = False
    for qi, q in enumerate(case["queries"]):
        shape, faces = rounds[q["shape"] % len(rounds)]
        centre, normal, R = faces[1 if q["end"] else 0]
        rel = pos - centre
        axial = rel @ normal
        radial = np.linalg.norm(rel - np.outer(axial, normal), axis=1)
        on_face = (np.abs(axial) <= 1e-6 * S) & (radial <= R * (1 + 1e-6))
        # margin rule: nothing may sit just off the end face or between core and rim
        near = (np.abs(axial) <= 1e-3 * S) & (radial <= R * (1 + 1e-3))
        between = on_face & (radial > 0.999 * R) & (np.abs(radial - R) > 1e-6 * R)
        facts = {"query": qi, "shape": type(shape).__name__, "end": q["end"], "which": q["which"],
                 "shapes": [s["kind"] for s in spec["shapes"]]}
        if np.any(near & ~on_face) or np.any(between):
            ctx.label("round:ambiguous-skipped")
            continue
        rim = on_face & (np.abs(radial - R) <= 1e-6 * R)
        want = [int(i) for i in np.nonzero(rim if q["which"] == "shell" else on_face & ~rim)[0]]
        finder = RoundSolidFinder(mesh, shape)
        try:
            found = finder.find_shell(q["end"]) if q["which"] == "shell" else finder.find_core(q["end"])
        except Exception as ex:  # noqa: BLE001
            raise Violation("round-raised", f"find_{q['which']} raised {type(ex).__name__}: {ex}", **facts) from None
        got = returned_indexes(found, mesh, facts)
        compare_sets("round", got, want, pos, facts,
                     f"{q['which']} of the {'end' if q['end'] else 'start'} face of {type(shape).__name__} (centre "
                     f"{centre.tolist()}, radius {R})")
        if not want:
            raise Violation("round-empty", "the end face has no vertices at all (harness or assembly problem)", **facts)
        nt = True
        ctx.label("round:" + type(shape).__name__, "round:" + q["which"], "round:end" if q["end"] else "round:start",
                  "round:moved=" + str((round_specs[q["shape"] % len(rounds)].get("moved") or {}).get("how")),
                  "round:n=%d" % len(want))
    ctx.nt(nt)
    ctx.label("size<1e-4" if S < 1e-4 else ("size<0.05" if S < 0.05 else "size>=0.1"))
    ctx.label("shapes=%d" % len(spec["shapes"]), "offset/size=%g" % (spec.get("offset") or {"ratio": 0.0})["ratio"])


def items_by_spec(spec, items):
    """library objects in the order of build_mesh's `ends` list (a row of boxes is one entry)"""
    out, i = [], 0
    for sh in spec["shapes"]:
        if sh["kind"] == "box":
            out.append(items[i])
            i += sh["count"]
        elif sh["kind"] == "chain":
            out.extend(items[i : i + 2])
            i += 2
        else:
            out.append(items[i])
            i += 1
    return out


# two cylinders end to end, joined by mesh.merge_patches: the interface holds duplicated vertices


@st.composite
def merged_case(draw):
    return {
        "S": draw(_size),
        "frame": draw(_frame),
        "radius": draw(st.floats(0.3, 1.0)),
        "lengths": [draw(st.floats(0.3, 2.0)), draw(st.floats(0.3, 2.0))],
        # aligned, a multiple of the 45 degree block pattern, or in general position
        "twist": draw(st.sampled_from(["aligned", "45", "45", "general", "general"]).flatmap(
            lambda k: st.sampled_from([0.0, math.pi / 2, math.pi]) if k == "aligned" else (
                st.just(math.pi / 4) if k == "45" else st.floats(0.05, 3.0)))),
        "order": draw(st.sampled_from(["upstream-first", "downstream-first"])),
        "master": draw(st.sampled_from(["upstream", "downstream"])),
        "queries": draw(st.lists(st.fixed_dictionaries({"shape": st.sampled_from(["upstream", "downstream"]), "end": st.booleans(),
                                                        "which": st.sampled_from(["core", "shell"])}), min_size=1, max_size=4)),
    }


def check_round_merged(case, ctx: Ctx) -> None:
    S = case["S"]
    rot = rotation_of(case["frame"])
    e1, e2, e3 = rot[:, 0], rot[:, 1], rot[:, 2]
    org = S * np.array(case["frame"]["jitter"])
    R = S * case["radius"]
    mid = org + e3 * S * case["lengths"][0]
    end = mid + e3 * S * case["lengths"][1]
    tw = case["twist"]
    shapes = {
        "upstream": cb.Cylinder(org, mid, org + e1 * R),
        "downstream": cb.Cylinder(mid, end, mid + R * (math.cos(tw) * e1 + math.sin(tw) * e2)),
    }
    shapes["upstream"].set_end_patch("interface_up")
    shapes["downstream"].set_start_patch("interface_down")
    mesh = cb.Mesh()
    for name in (("upstream", "downstream") if case["order"] == "upstream-first" else ("downstream", "upstream")):
        mesh.add(shapes[name])
    pair = ("interface_up", "interface_down") if case["master"] == "upstream" else ("interface_down", "interface_up")
    mesh.merge_patches(*pair)
    mesh.assemble()
    pos = positions(mesh)
    ids = {id(v): i for i, v in enumerate(mesh.vertices)}
    faces = {"upstream": [(org, R), (mid, R)], "downstream": [(mid, R), (end, R)]}
    duplicated = len(pos) - len(cluster_count(pos))
    for qi, q in enumerate(case["queries"]):
        shape = shapes[q["shape"]]
        centre, _R = faces[q["shape"]][1 if q["end"] else 0]
        facts = {"query": qi, "shape": q["shape"], "end": q["end"], "which": q["which"], "order": case["order"],
                 "master": case["master"], "twist": tw, "interface": (q["shape"] == "upstream") == q["end"]}
        # end-face points = where the shape's own blocks have their bottom / top corners (read from the assembled mesh)
        own = set()
        for op in shape.operations:
            block = mesh.blocks[mesh.operations.index(op)]
            own.update(ids[id(block.vertices[c])] for c in ((4, 5, 6, 7) if q["end"] else (0, 1, 2, 3)))
        own = sorted(own)
        radial = np.linalg.norm(pos[own] - centre, axis=1)
        axial = np.abs((pos[own] - centre) @ e3)
        if axial.max() > 1e-6 * S or radial.max() > R * (1 + 1e-6):
            raise Violation("round-own-vertices-off-face", "corners of the shape's own blocks are not on its end face", **facts)
        on_rim = np.abs(radial - R) <= 1e-6 * R
        if np.any(~on_rim & (radial > 0.999 * R)):
            ctx.label("round:ambiguous-skipped")
            continue
        points = pos[[i for i, rim in zip(own, on_rim) if rim == (q["which"] == "shell")]]
        gap = np.linalg.norm(pos[:, None, :] - points[None, :, :], axis=2).min(axis=1)
        if np.any((gap > 0.1 * TOL) & (gap < 10 * TOL)):
            ctx.label("round:boundary-skipped")
            continue
        want = [int(i) for i in np.nonzero(gap < TOL)[0]]
        finder = RoundSolidFinder(mesh, shape)
        try:
            found = finder.find_shell(q["end"]) if q["which"] == "shell" else finder.find_core(q["end"])
        except Exception as ex:  # noqa: BLE001
            raise Violation("round-raised", f"find_{q['which']} raised {type(ex).__name__}: {ex}", **facts) from None
        got = returned_indexes(found, mesh, facts)
        compare_sets("round", got, want, pos, facts,
                     f"{q['which']} of the {'end' if q['end'] else 'start'} face of the {q['shape']} cylinder")
        extra = len(want) - len(points)
        ctx.label("merged:interface" if facts["interface"] else "merged:outer-face", "merged:" + q["which"],
                  "merged:coincident-foreign=0" if extra == 0 else ("merged:coincident-foreign=1" if extra == 1 else
                                                                    "merged:coincident-foreign>1"))
    ctx.nt(duplicated > 0)
    ctx.label(case["order"], "master=" + case["master"], "duplicated=%d" % duplicated,
              "twist=aligned" if tw in (0.0, math.pi / 2, math.pi) else ("twist=45" if tw == math.pi / 4 else "twist=general"))


def cluster_count(pos):
    """representatives of the distinct positions (TOL)"""
    reps = []
    for p in pos:
        if not any(np.linalg.norm(p - r) < TOL for r in reps):
            reps.append(p)
    return reps


_round_query = st.fixed_dictionaries({"shape": st.integers(0, 5), "end": st.booleans(), "which": st.sampled_from(["core", "shell"])})

# --------------------------------------------------------------------------------------------------
# viewpoint re-orientation

SIDE_NAMES = ["bottom", "top", "left", "right", "front", "back"]
OPPOSITE = {"bottom": "top", "top": "bottom", "left": "right", "right": "left", "front": "back", "back": "front"}
ROTATIONS = hex_rotations()
NUMBERINGS = hex_mirrorings()


def side_triangle_normals(p):
    """{side: 4 outward unit normals of the triangles of both diagonals}; HEX_SIDES lists corners outward-counter-clockwise"""
    out = {}
    for name, (a, b, c, d) in HEX_SIDES.items():
        tri = [(a, b, c), (a, c, d), (a, b, d), (b, c, d)]
        normals = []
        for i, j, k in tri:
            n = np.cross(p[j] - p[i], p[k] - p[i])
            normals.append(n / np.linalg.norm(n))
        out[name] = np.array(normals)
    return out


def side_normals(p):
    """outward unit normal of each side (cross product of the diagonals = Newell normal of a quadrilateral)"""
    out = {}
    for name, (a, b, c, d) in HEX_SIDES.items():
        n = np.cross(p[c] - p[a], p[d] - p[b])
        out[name] = n / np.linalg.norm(n)
    return out


def view_directions(p, observer, ceiling):
    centre = p.mean(axis=0)
    v_obs = observer - centre
    v_obs /= np.linalg.norm(v_obs)
    v_ceil = ceiling - centre
    v_ceil /= np.linalg.norm(v_ceil)
    v_top = v_ceil - (v_ceil @ v_obs) * v_obs
    if np.linalg.norm(v_top) < 0.2:
        return None
    v_top /= np.linalg.norm(v_top)
    v_left = np.cross(v_obs, v_top)
    return {"front": v_obs, "back": -v_obs, "top": v_top, "bottom": -v_top, "left": v_left, "right": -v_left}


def general_position(p, observer, ceiling, margin=0.1):
    """{view: side of p that unambiguously faces it} or None"""
    dirs = view_directions(p, observer, ceiling)
    if dirs is None:
        return None
    tri = side_triangle_normals(p)
    chosen = {}
    for view, d in dirs.items():
        worst = {s: float((tri[s] @ d).min()) for s in SIDE_NAMES}
        best = {s: float((tri[s] @ d).max()) for s in SIDE_NAMES}
        winner = max(SIDE_NAMES, key=lambda s: worst[s])
        if worst[winner] - max(best[s] for s in SIDE_NAMES if s != winner) < margin:
            return None
        chosen[view] = winner
    if len(set(chosen.values())) != 6 or any(chosen[OPPOSITE[v]] != OPPOSITE[chosen[v]] for v in chosen):
        return None
    return chosen


def hull_is_the_block(p) -> bool:
    from scipy.spatial import ConvexHull

    try:
        hull = ConvexHull(p)
    except Exception:  # noqa: BLE001
        return False
    if len(hull.vertices) != 8 or len(hull.simplices) != 12:
        return False
    sides = [set(s) for s in HEX_SIDES.values()]
    return all(any(set(int(i) for i in simplex) <= s for s in sides) for simplex in hull.simplices)


def block_points(g):
    """8 points (R-HEX numbering, right-handed) from the drawn shape parameters; jitter is halved until the block is valid"""
    A = rotation_of(g["frame"]) @ np.diag(g["stretch"]) @ np.array([[1, g["shear"][0], g["shear"][1]], [0, 1, g["shear"][2]], [0, 0, 1]])
    jitter = np.array(g["jitter"]) * 0.15
    for attempt in range(5):
        q = CUBE - 0.5
        q[4:, :2] *= g["taper"]
        q = q + jitter
        p = g["S"] * (q @ A.T) + g["S"] * 3 * np.array(g["frame"]["jitter"]) + offset_vector(g.get("offset"), g["S"])
        if hex_corner_jacobians(p).min() > 0.05 and hull_is_the_block(p):
            return p
        jitter = jitter * 0.5 if attempt < 3 else jitter * 0
    return None


@st.composite
def block_case(draw):
    g = {
        "S": draw(_size),
        "frame": draw(_frame),
        "stretch": [10.0 ** draw(st.floats(-0.3, 0.3)) for _ in range(3)],
        "shear": [draw(st.floats(-0.3, 0.3)) for _ in range(3)],
        "taper": draw(st.floats(0.6, 1.4)),
        "jitter": [draw(_vec) for _ in range(8)],
        "offset": draw(_offset([0.0, 1e3, 1e5, 1e5, 2e6, 2e6])),
    }
    return {
        "block": g,
        "front": draw(st.sampled_from(SIDE_NAMES)),
        "top": draw(st.integers(0, 3)),
        "wobble": [draw(_vec), draw(_vec)],
        "lean": draw(st.sampled_from([0.0, 0.0, 0.5, -0.5, 1.5, -1.5, 2.5, -2.5])),
        "distance": [10.0 ** draw(st.floats(0.5, 1.5)), 10.0 ** draw(st.floats(0.5, 1.5))],
    }


def viewpoint(case, p):
    """(observer, ceiling, chosen sides) in general position by construction: the wobble is halved until the margins hold"""
    normals = side_normals(p)
    front = case["front"]
    lateral = [s for s in SIDE_NAMES if s not in (front, OPPOSITE[front])]
    top = lateral[case["top"]]
    centre = p.mean(axis=0)
    size = case["block"]["S"]
    w = 0.35
    for attempt in range(6):
        v_obs = normals[front] + w * np.array(case["wobble"][0])
        # the ceiling may lean far towards / away from the observer: only its part at right angles to the view counts
        v_ceil = normals[top] + w * np.array(case["wobble"][1]) + case.get("lean", 0.0) * v_obs / np.linalg.norm(v_obs)
        observer = centre + size * case["distance"][0] * v_obs / np.linalg.norm(v_obs)
        ceiling = centre + size * case["distance"][1] * v_ceil / np.linalg.norm(v_ceil)
        chosen = general_position(p, observer, ceiling)
        if chosen is not None:
            return observer, ceiling, chosen
        w = w * 0.5 if attempt < 4 else 0.0
    return None


def expected_numbering(chosen):
    """the rotation (new corner i <- old corner perm[i]) that puts the chosen sides at front and top"""
    hits = []
    for perm in ROTATIONS:
        ok = all({perm[i] for i in HEX_SIDES[view]} == set(HEX_SIDES[chosen[view]]) for view in ("front", "top"))
        if ok:
            hits.append(perm)
    assert len(hits) == 1, hits
    return hits[0]


def judge_reoriented(r, p, want, dirs, chosen, tol, label, facts) -> None:
    """r: point_array after reorient of a renumbering of p; want: p in the numbering derived from R-HEX"""
    if r.shape != (8, 3):
        raise Violation("reorient-shape", f"point_array has shape {r.shape}", **facts)
    # same eight points
    d = np.linalg.norm(r[:, None, :] - p[None, :, :], axis=2)
    match = d.argmin(axis=1)
    if d.min(axis=1).max() > tol or len(set(match.tolist())) != 8:
        raise Violation("reorient-points-changed", f"{label}: result is not a renumbering of the eight points "
                        f"(corner-to-point map {match.tolist()}, worst distance {d.min(axis=1).max()})", **facts)
    if np.linalg.norm(r - want, axis=1).max() <= tol:
        return
    # diagnose in the order of the statement
    if hex_corner_jacobians(r).min() <= 0:
        raise Violation("reorient-not-right-handed", f"{label}: corner Jacobians {hex_corner_jacobians(r).round(3).tolist()}"
                        f" (corner-to-point map {match.tolist()})", **facts)
    nr = side_normals(r)
    for view, kind in (("front", "reorient-front-not-facing-observer"), ("top", "reorient-top-not-facing-ceiling")):
        scores = {s: float(nr[s] @ dirs[view]) for s in SIDE_NAMES}
        if max(scores, key=lambda s: scores[s]) != view:
            raise Violation(kind, f"{label}: alignment of the sides with the {view} direction {scores}", **facts)
    raise Violation("reorient-numbering", f"{label}: corner-to-point map {match.tolist()}, expected "
                    f"{list(expected_numbering(chosen))}", **facts)


def check_reorient(case, ctx: Ctx) -> None:
    p = block_points(case["block"])
    if p is None:
        ctx.label("excluded:not-convex")
        return
    vp = viewpoint(case, p)
    if vp is None:
        ctx.label("excluded:not-general-position")
        return
    observer, ceiling, chosen = vp
    want = p[list(expected_numbering(chosen))]
    size = case["block"]["S"]
    tol = 1e-12 * size * 10 + 8 * np.finfo(float).eps * float(np.abs(p).max())
    dirs = view_directions(p, observer, ceiling)
    results = []
    for k, perm in enumerate(NUMBERINGS):
        q = p[list(perm)]
        facts = {"numbering": k, "mirrored": k >= 24, "front": case["front"], "top": chosen["top"]}
        loft = cb.Loft(cb.Face(q[:4]), cb.Face(q[4:]))
        try:
            ViewpointReorienter(observer, ceiling).reorient(loft)
            r = np.array(loft.point_array, dtype=float)
        except Exception as ex:  # noqa: BLE001
            raise Violation("reorient-raised", f"numbering {k} {perm}: {type(ex).__name__}: {ex}", **facts) from None
        results.append(r)
        judge_reoriented(r, p, want, dirs, chosen, tol, f"numbering {k}", facts)
    # all 48 give the identical array (follows from the above; kept as the metamorphic statement itself)
    for k, r in enumerate(results[1:], start=1):
        if np.linalg.norm(r - results[0], axis=1).max() > tol:
            raise Violation("reorient-depends-on-numbering", f"numbering {k} gives a different result than numbering 0",
                            numbering=k, mirrored=k >= 24)
    ctx.nt(True)
    g = case["block"]
    ctx.label("front=" + case["front"], "jittered" if np.abs(np.array(g["jitter"])).max() > 0.3 else "regular",
              "sheared" if np.abs(np.array(g["shear"])).max() > 0.1 else "unsheared",
              "identity-expected" if list(expected_numbering(chosen)) == list(range(8)) else "renumbered",
              "lean=%g" % abs(case.get("lean", 0.0)), "offset/size=%g" % (g.get("offset") or {"ratio": 0.0})["ratio"])


# one reorienter, several blocks around the viewpoint


@st.composite
def many_blocks_case(draw):
    n = draw(st.integers(2, 4))
    S = draw(_size)
    blocks = []
    for _ in range(n):
        b = draw(block_case())
        b["block"]["S"] = S
        b["block"]["offset"] = None
        # where the block sits: the observer is seen from it in direction `towards`, at `distance` block sizes
        b["towards"] = draw(_vec)
        b["distance"] = [10.0 ** draw(st.floats(0.5, 1.2))]
        b["numbering"] = draw(st.integers(0, 47))
        blocks.append(b)
    return {"S": S, "observer": draw(_vec), "ceiling_dir": draw(_vec), "ceiling_distance": 10.0 ** draw(st.floats(0.7, 1.7)),
            "blocks": blocks}


def place_block(b, observer, ceiling, S):
    """The block (drawn shape, own frame) turned and moved so that its drawn front side faces the observer from the drawn
    direction and its drawn top side faces the ceiling; -> (points, chosen sides) or None when not in general position."""
    p0 = block_points(b["block"])
    if p0 is None:
        return None
    local = viewpoint({**b, "distance": [b["distance"][0], b["distance"][0]]}, p0)
    if local is None:
        return None
    d0 = view_directions(p0, local[0], local[1])
    u = _normalised(b["towards"], [1, 0, 0])
    centre = observer - u * b["distance"][0] * S
    w = ceiling - centre
    w = w / np.linalg.norm(w)
    top = w - (w @ u) * u
    if np.linalg.norm(top) < 0.3:
        return None
    top /= np.linalg.norm(top)
    world = np.stack([u, top, np.cross(u, top)], axis=1)
    own = np.stack([d0["front"], d0["top"], d0["left"]], axis=1)
    turn = world @ own.T
    p = (p0 - p0.mean(axis=0)) @ turn.T + centre
    chosen = general_position(p, observer, ceiling)
    if chosen is None or chosen != local[2]:
        return None
    return p, chosen


def check_reorient_many(case, ctx: Ctx) -> None:
    S = case["S"]
    observer = S * 5 * np.array(case["observer"])
    ceiling = observer + S * case["ceiling_distance"] * _normalised(case["ceiling_dir"], [0, 0, 1])
    reorienter = ViewpointReorienter(observer, ceiling)
    judged, directions = 0, []
    for k, b in enumerate(case["blocks"]):
        placed = place_block(b, observer, ceiling, S)
        if placed is None:
            ctx.label("excluded:not-general-position")
            continue
        p, chosen = placed
        perm = NUMBERINGS[b["numbering"]]
        q = p[list(perm)]
        facts = {"block": k, "judged_before": judged, "numbering": b["numbering"], "mirrored": b["numbering"] >= 24}
        loft = cb.Loft(cb.Face(q[:4]), cb.Face(q[4:]))
        try:
            reorienter.reorient(loft)
            r = np.array(loft.point_array, dtype=float)
        except Exception as ex:  # noqa: BLE001
            raise Violation("reorient-raised", f"block {k} (the reorienter's call no. {judged + 1}): {type(ex).__name__}: {ex}",
                            **facts) from None
        tol = 1e-12 * S * 10 + 8 * np.finfo(float).eps * float(np.abs(p).max())
        judge_reoriented(r, p, p[list(expected_numbering(chosen))], view_directions(p, observer, ceiling), chosen, tol,
                         f"block {k} (call no. {judged + 1})", facts)
        judged += 1
        directions.append(_normalised(b["towards"], [1, 0, 0]))
    spread = min((float(a @ b) for i, a in enumerate(directions) for b in directions[i + 1:]), default=1.0)
    ctx.nt(judged >= 2 and spread < 0.7)
    ctx.label("blocks-judged=%d" % judged, "views-differ>45deg" if spread < 0.7 else "views-similar",
              "views-opposed" if spread < -0.5 else "views-not-opposed")


# --------------------------------------------------------------------------------------------------

_ALL = ("box", "box", "box", *ROUND_KINDS)


def _with_queries(mesh_strategy, query_strategy, rounds=True):
    spec = {"mesh": mesh_strategy, "queries": st.lists(query_strategy, min_size=1, max_size=4)}
    if rounds:
        one = st.fixed_dictionaries({"moves": st.lists(move_spec(), min_size=1, max_size=3),
                                     "queries": st.lists(query_strategy, min_size=1, max_size=3)})
        spec["rounds"] = st.integers(0, 3).flatmap(lambda k: st.lists(one, min_size=k, max_size=k))
    return st.fixed_dictionaries(spec)


CELLS = [
    Cell("C18/reorient-many", many_blocks_case(), check_reorient_many, 150, 3000,
         "ONE ViewpointReorienter applied in turn to 2-4 blocks that see the observer from different directions, each in a "
         "drawn numbering: every block judged on its own (same points, right-handed, front to the observer, top to the "
         "ceiling as seen from that block)"),
    Cell("C18/sphere/boxes", _with_queries(mesh_spec(("box",), offsets=(0.0, 0.0, 1e3, 1e5)), sphere_query()), check_sphere, 500, 10000,
         "find_in_sphere on 1-4 rows of boxes: returned set == brute-force selection (margin rule on the radius)"),
    Cell("C18/sphere/mixed", _with_queries(mesh_spec(_ALL, max_shapes=3, offsets=(0.0, 0.0, 1e3)), sphere_query()), check_sphere, 120, 2400,
         "find_in_sphere on meshes with round shapes"),
    Cell("C18/plane/boxes", _with_queries(mesh_spec(("box",), offsets=(0.0, 0.0, 1e3, 1e5)), plane_query()), check_plane, 500, 10000,
         "find_on_plane on rows of boxes: planes through 0-3 vertices, shifted across TOL, non-unit normals"),
    Cell("C18/plane/mixed", _with_queries(mesh_spec(_ALL, max_shapes=3, offsets=(0.0, 0.0, 1e3)), plane_query()), check_plane, 120, 2400,
         "find_on_plane on meshes with round shapes (end faces hold 17 coplanar vertices)"),
    Cell("C18/round", _with_queries(mesh_spec(_ALL, first_kinds=ROUND_KINDS, max_shapes=3, offsets=(0.0, 0.0, 1e3), micro=True), _round_query, rounds=False), check_round, 160, 3200,
         "RoundSolidFinder.find_core / find_shell of both end faces of Cylinder, SemiCylinder, Frustum, Elbow, chained "
         "cylinders == vertices on the end plane inside / on the rim circle"),
    Cell("C18/round-merged", merged_case(), check_round_merged, 60, 1200,
         "two cylinders end to end (aligned / twisted) joined by merge_patches, both insertion orders and master choices: "
         "find_core / find_shell == every mesh vertex within TOL of the end-face points of the shape's own blocks "
         "(duplicated interface vertices included)"),
    Cell("C18/reorient", block_case(), check_reorient, 160, 3200,
         "distorted convex hexahedron x 48 numberings: same points, right-handed, front faces the observer, top faces the "
         "ceiling, result identical for all numberings"),
]
