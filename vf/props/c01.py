"""C01 — blocks that share an edge always agree on its cell count (DESIGN.md section 4, C01)."""

from __future__ import annotations

import os

from hypothesis import strategies as st

from vf import lattice as lt
from vf.core import Cell, Ctx, Violation
from vf.foamdict import FoamParseError
from vf.refmodel import HEX_EDGES_BY_AXIS, families

from classy_blocks.base.exceptions import InconsistentGradingsError

RULE = (
    "Assemblies are cut from a jittered node lattice (<= 8 hexahedra, the crowd cell <= 12, each in one of the 24 corner numberings, random "
    "insertion order); chops are placed per edge family computed by the harness's own union-find. The written file is "
    "parsed by an independent reader and counts are compared per shared edge (vertex-id pairs). Non-trivial: >= 2 blocks "
    "that share >= 1 edge; distinct = distinct generated case."
)
ASSUMPTIONS = [
    "two hex entries share an edge iff they list the same unordered pair of vertex labels on one of their 12 edges",
    "conflict cells: both conflicting chops are count-only chops, so the conflict is unambiguous",
]


def facts_of(case):
    return {
        "mode": case.get("mode"),
        "blocks": len(case["cells"]),
        "contacts": lt.contact_labels(case),
        "conflict": case.get("conflict"),
    }


def decode_and_check(case, built, text, ctx: Ctx):
    try:
        bmd = lt.parse(text)
    except FoamParseError as ex:
        raise Violation("unparsable", f"written file does not parse: {ex}", **facts_of(case)) from None
    hexes = [h.ids for h in bmd.blocks]
    if len(hexes) != len(built.ops):
        raise Violation("block-count", f"{len(hexes)} hex entries for {len(built.ops)} operations", **facts_of(case))
    uf, edge_map = families(hexes)
    shared = 0
    for edge, users in edge_map.items():
        if len(users) < 2:
            continue
        shared += 1
        counts = {(b, ax): bmd.blocks[b].counts[ax] for b, ax, _ in users}
        if len(set(counts.values())) != 1:
            raise Violation(
                "shared-edge-count-differs",
                f"edge {sorted(edge)} has counts {sorted(counts.items())}",
                edge=sorted(edge), **facts_of(case),
            )
    # live model: four parallel wires carry the written count
    for bi, block in enumerate(built.mesh.blocks):
        for ax in range(3):
            written = bmd.blocks[bi].counts[ax]
            wire_counts = [w.grading.count for w in block.axes[ax].wires]
            if any(c != written for c in wire_counts):
                raise Violation(
                    "wire-count-differs",
                    f"block {bi} axis {ax}: written {written}, wires {wire_counts}",
                    block=bi, axis=ax, **facts_of(case),
                )
            # the grading written for an edge must contain that many cells as well (multi-section sums)
    for bi, h in enumerate(bmd.blocks):
        from vf.foamdict import hex_edge_gradings

        for k, g in enumerate(hex_edge_gradings(h)):
            if isinstance(g, list):
                ax = k // 4
                if sum(int(s[1]) for s in g) != h.counts[ax]:
                    raise Violation("section-counts", f"block {bi} edge {k}: sections {g} do not add up to {h.counts[ax]}",
                                    **facts_of(case))
    return bmd, shared


@st.composite
def with_history(draw, strategy):
    """how the mesh gets written: once | twice (the second file is judged) | assemble, grade, write"""
    case = draw(strategy)
    case["history"] = draw(st.sampled_from(["write", "write", "write-write", "grade-write"]))
    return case


def check_success(case, ctx: Ctx) -> None:
    built = lt.build(case)
    try:
        if case.get("history") == "grade-write":
            built.mesh.assemble()
            built.mesh.grade()
        text, _ = lt.write_text(built.mesh)
        if case.get("history") == "write-write":
            text, _ = lt.write_text(built.mesh)
    except Exception as ex:  # whether a well-posed model must be written is C02's business
        ctx.label("write-raised:" + type(ex).__name__)
        return
    ctx.label("history:" + case.get("history", "write"))
    bmd, shared = decode_and_check(case, built, text, ctx)
    # chops that give a count are honoured on the chopped block direction
    for ap in built.applied:
        want = lt.chop_total_count(ap["kwargs"])
        if want is not None:
            got = bmd.blocks[ap["op"]].counts[ap["axis"]]
            if got != want:
                raise Violation("chop-count-not-honoured", f"op {ap['op']} axis {ap['axis']}: chop {want}, written {got}",
                                **facts_of(case))
    ctx.nt(len(built.ops) >= 2 and shared >= 1)
    ctx.label(*lt.contact_labels(case))
    if any(isinstance(c["args"], list) for c in case["chops"]):
        ctx.label("multi-section")


def check_conflict(case, ctx: Ctx) -> None:
    built = lt.build(case)
    path = lt.write_path()
    if os.path.exists(path):
        os.remove(path)
    from vf import schedule

    built.mesh.assemble()
    schedule.inject(built.mesh, [0])
    try:
        built.mesh.write(path)
    except InconsistentGradingsError:
        if os.path.exists(path):
            raise Violation("file-left-behind", "write raised but left a file", **facts_of(case)) from None
        # asking again (e.g. with a debug file, to look at the blocking) must not produce the refused dictionary
        try:
            built.mesh.write(path, path + ".vtk")
        except InconsistentGradingsError:
            pass
        except Exception as ex:
            raise Violation("conflict-wrong-error", f"second write of a refused model raised {type(ex).__name__}: {ex}",
                            error=type(ex).__name__, **facts_of(case)) from None
        else:
            raise Violation("conflict-written", "a model refused by write() was written by the next write()",
                            second_write=True, **facts_of(case))
        ctx.nt(True)
        ctx.label(*lt.contact_labels(case))
        ctx.label("conflict-adjacent" if _adjacent(case) else "conflict-through-others")
        return
    except Exception as ex:
        raise Violation(
            "conflict-wrong-error", f"conflicting chops raised {type(ex).__name__} instead of InconsistentGradingsError: {ex}",
            error=type(ex).__name__, **facts_of(case),
        ) from None
    raise Violation("conflict-written", "conflicting counts in one edge family were written without an error",
                    **facts_of(case))


def _adjacent(case) -> bool:
    cf = case["conflict"]
    dims = case["dims"]
    a = set(lt.cell_nodes(dims, cf["first"][0]))
    b = set(lt.cell_nodes(dims, cf["second"][0]))
    return len(a & b) >= 2


# An un-chopped block B whose four parallel edges meet two conflicting demands unevenly: two edges belong to A
# (count 5, face neighbour), one to D (count 7, touching B along one edge only), one is free.  All 24 numberings of B
# are enumerated, so the edge shared with D takes every position among B's four wires.
_UNEVEN = [
    {
        "dims": [3, 2, 1], "widths": [[1.0, 1.0, 1.0], [1.0, 1.0], [1.0]], "jitter": [], "cells": [0, 5, 1],
        "orient": [0, 0, rot], "mode": "conflict", "conflict": {"family": 0, "first": [0, 2], "second": [5, 2]},
        "chops": [
            {"cell": 0, "gdir": 2, "args": {"count": 5}}, {"cell": 5, "gdir": 2, "args": {"count": 7}},
            {"cell": 0, "gdir": 0, "args": {"count": 2}}, {"cell": 1, "gdir": 0, "args": {"count": 2}},
            {"cell": 5, "gdir": 0, "args": {"count": 2}}, {"cell": 0, "gdir": 1, "args": {"count": 3}},
            {"cell": 5, "gdir": 1, "args": {"count": 3}},
        ],
    }
    for rot in range(24)
]

# A row of three boxes: both ends chopped 5, the middle one chopped 15; all insertion orders (when the middle box
# comes last all four of its edges are already graded by its neighbours)
_SURROUNDED = [
    {
        "dims": [3, 1, 1], "widths": [[1.0, 1.0, 1.0], [1.0], [1.0]], "jitter": [], "cells": list(order),
        "orient": [0, 0, 0], "mode": "conflict", "conflict": {"family": 0, "first": [0, 2], "second": [1, 2]},
        "chops": [
            {"cell": 0, "gdir": 2, "args": {"count": 5}}, {"cell": 2, "gdir": 2, "args": {"count": 5}},
            {"cell": 1, "gdir": 2, "args": {"count": 15}}, {"cell": 0, "gdir": 1, "args": {"count": 3}},
            {"cell": 0, "gdir": 0, "args": {"count": 2}}, {"cell": 1, "gdir": 0, "args": {"count": 2}},
            {"cell": 2, "gdir": 0, "args": {"count": 2}},
        ],
    }
    for order in ([0, 1, 2], [0, 2, 1], [1, 0, 2], [1, 2, 0], [2, 0, 1], [2, 1, 0])
]

# A block B without any chop of its own, squeezed in x between A (z count 5) and C (z count 15) that do not touch each
# other; B's x count comes from E stacked on top of it (E's own z edges belong to another family), its y count from A.
# Six insertion orders of the four blocks, four numberings of B.
_SQUEEZED = [
    {
        "dims": [3, 1, 2], "widths": [[1.0, 1.0, 1.0], [1.0], [1.0, 1.0]], "jitter": [], "cells": list(order),
        "orient": [rot if c == 1 else 0 for c in order], "mode": "conflict",
        "conflict": {"family": 0, "first": [0, 2], "second": [2, 2]},
        "chops": [
            {"cell": 0, "gdir": 2, "args": {"count": 5}}, {"cell": 2, "gdir": 2, "args": {"count": 15}},
            {"cell": 4, "gdir": 0, "args": {"count": 2}}, {"cell": 0, "gdir": 1, "args": {"count": 3}},
            {"cell": 4, "gdir": 2, "args": {"count": 4}}, {"cell": 0, "gdir": 0, "args": {"count": 2}},
            {"cell": 2, "gdir": 0, "args": {"count": 2}},
        ],
    }
    for order in ([0, 2, 1, 4], [1, 0, 2, 4], [4, 1, 2, 0], [2, 4, 0, 1], [0, 1, 4, 2], [1, 4, 0, 2])
    for rot in (0, 7, 13, 22)
]

@st.composite
def crowd_conflict(draw):
    """One dissenting block inside a crowd: a 3 x 3 layer (optionally with a second layer) of which the middle cell D
    and a random subset of its eight neighbours are present; D asks for m cells along the layer's normal, some or all of
    the others ask for n != m.  Every neighbour shares an edge of that direction with D (the diagonal ones and the
    arms of a 'plus' touch each other along a single edge only), so edges are shared by two, three or four blocks and
    the conflicting pair can be any of the pairs on an edge.  Random numberings, widths, insertion orders."""
    d = draw(st.integers(0, 2))
    depth = draw(st.sampled_from([1, 1, 2]))
    dims = [3, 3, 3]
    dims[d] = depth
    layer = draw(st.integers(0, depth - 1))
    cross = [a for a in range(3) if a != d]

    def cell_at(u, v, w):
        ijk = [0, 0, 0]
        ijk[cross[0]], ijk[cross[1]], ijk[d] = u, v, w
        return lt.cell_index(dims, *ijk)

    centre = cell_at(1, 1, layer)
    ring = [cell_at(u, v, layer) for u in range(3) for v in range(3) if (u, v) != (1, 1)]
    shape = draw(st.sampled_from(["plus", "ring", "random", "random"]))
    if shape == "plus":
        present = [cell_at(u, v, layer) for u, v in ((0, 1), (2, 1), (1, 0), (1, 2))]
    elif shape == "ring":
        present = list(ring)
    else:
        present = draw(st.lists(st.sampled_from(ring), min_size=2, max_size=8, unique=True))
    extra = []
    if depth == 2:
        other = [cell_at(u, v, 1 - layer) for u in range(3) for v in range(3)]
        extra = draw(st.lists(st.sampled_from(other), min_size=0, max_size=3, unique=True))
    crowd = draw(st.permutations(present + extra))
    # where the dissenting block is inserted: last (everything around it is there already), first or anywhere
    where = draw(st.sampled_from(["last", "last", "first", "any"]))
    cells = list(crowd)
    pos = {"last": len(cells), "first": 0}.get(where)
    if pos is None:
        pos = draw(st.integers(0, len(cells)))
    cells.insert(pos, centre)
    case = {
        "dims": dims, "widths": [[10.0 ** draw(st.floats(-0.5, 0.5)) for _ in range(dims[a])] for a in range(3)],
        "jitter": [], "cells": cells, "orient": [draw(st.integers(0, 23)) for _ in cells], "chops": [], "mode": "conflict",
    }
    if draw(st.booleans()):
        nn = (dims[0] + 1) * (dims[1] + 1) * (dims[2] + 1)
        case["jitter"] = [draw(st.floats(-1.0, 1.0)) for _ in range(3 * nn)]
    n = draw(st.one_of(st.integers(1, 12), st.integers(60, 1200)))
    m = n + draw(st.sampled_from([-3, -2, -1, 1, 2, 3, 7]))
    if m < 1:
        m = n + 1
    # who speaks up in the crowd: everybody, or only some (the rest gets its count from a neighbour)
    vocal = list(present) if draw(st.booleans()) else draw(st.lists(st.sampled_from(present), min_size=1, max_size=len(present), unique=True))
    chops = [{"cell": c, "gdir": d, "args": {"count": n}} for c in vocal]
    chops.append({"cell": centre, "gdir": d, "args": {"count": m}})
    fams, _ = lt.lattice_families(case)
    for fam in fams:
        if (centre, d) in fam:
            continue
        c, g = draw(st.sampled_from(fam))
        chops.append({"cell": c, "gdir": g, "args": {"count": draw(st.integers(1, 6))}})
    case["chops"] = list(draw(st.permutations(chops)))
    case["conflict"] = {"family": -1, "first": [vocal[0], d], "second": [centre, d], "shape": shape, "where": where,
                        "vocal": len(vocal), "crowd": len(present)}
    lt.decorate(draw, case)
    return case


@st.composite
def camps_conflict(draw):
    """Two camps: a row (or a two-row slab) of 3-6 blocks, every block chopped across the row; the blocks on one side of
    a cut ask for n cells, those on the other side for m != n.  The only disagreeing pairs sit at the cut, and each of
    the two blocks there also has edges of that direction in common with a block of its own camp."""
    k = draw(st.integers(3, 6))
    rows = draw(st.sampled_from([1, 1, 2])) if k <= 4 else 1
    base = [k, rows, 1]
    perm = draw(st.permutations([0, 1, 2]))
    dims = [base[perm[a]] for a in range(3)]
    row_axis = dims.index(k) if k != rows else perm.index(0)
    d = draw(st.sampled_from([a for a in range(3) if a != row_axis]))
    ncell = dims[0] * dims[1] * dims[2]
    cells = list(draw(st.permutations(list(range(ncell)))))
    cut = draw(st.integers(1, k - 1))
    case = {
        "dims": dims, "widths": [[10.0 ** draw(st.floats(-0.5, 0.5)) for _ in range(dims[a])] for a in range(3)],
        "jitter": [], "cells": cells, "orient": [draw(st.integers(0, 23)) for _ in cells], "chops": [], "mode": "conflict",
    }
    n = draw(st.one_of(st.integers(1, 12), st.integers(60, 1200)))
    m = n + draw(st.sampled_from([-3, -2, -1, 1, 2, 3, 7]))
    if m < 1:
        m = n + 1
    fams, _ = lt.lattice_families(case)
    chops = []
    camp_fams = set()
    for c in cells:
        along = lt.cell_ijk(dims, c)[row_axis]
        chops.append({"cell": c, "gdir": d, "args": {"count": n if along < cut else m}})
    for fi, fam in enumerate(fams):
        if any(g == d for _, g in fam):
            camp_fams.add(fi)
            continue
        c, g = draw(st.sampled_from(fam))
        chops.append({"cell": c, "gdir": g, "args": {"count": draw(st.integers(1, 6))}})
    case["chops"] = list(draw(st.permutations(chops)))
    first = [c for c in cells if lt.cell_ijk(dims, c)[row_axis] == cut - 1][0]
    second = [c for c in cells if lt.cell_ijk(dims, c)[row_axis] == cut][0]
    case["conflict"] = {"family": -1, "first": [first, d], "second": [second, d], "shape": "camps", "where": f"cut-{min(cut, k - cut)}",
                        "vocal": ncell, "crowd": ncell}
    lt.decorate(draw, case)
    return case


def check_crowd(case, ctx: Ctx) -> None:
    check_conflict(case, ctx)
    cf = case["conflict"]
    ctx.label("shape:" + cf["shape"], "dissenter-" + cf["where"], "all-vocal" if cf["vocal"] == cf["crowd"] else "some-silent")


CELLS = [
    Cell("C01/success/wellposed", with_history(lt.chopped_lattice("wellposed")), check_success, 150, 8000,
         "one count chop (1-in-5 multi-section) per edge family, written once / twice / after an explicit grade(); counts "
         "agree on every shared edge, wires carry the written count, chops honoured"),
    Cell("C01/success/redundant", with_history(lt.chopped_lattice("redundant")), check_success, 150, 8000,
         "as well-posed plus identical chops on further members of a family"),
    Cell("C01/success/graded", with_history(lt.chopped_lattice("wellposed", graded=True, jitter="yes")), check_success, 100, 6000,
         "graded chops (sizes, ratios, preserve modes) on jittered lattices"),
    Cell("C01/conflict", lt.chopped_lattice("conflict").filter(lambda c: c is not None), check_conflict, 200, 10000,
         "two count chops with different totals in one family: InconsistentGradingsError and no file",
         fixed_cases=_UNEVEN + _SURROUNDED + _SQUEEZED),
    Cell("C01/conflict/camps", camps_conflict(), check_crowd, 300, 10000,
         "a row / slab of 3-6 blocks all chopped across the row, n cells on one side of a cut and m on the other: "
         "refused, no file"),
    Cell("C01/conflict/crowd", crowd_conflict(), check_crowd, 300, 10000,
         "one dissenting block among up to eight neighbours that share an edge of the direction with it (plus, ring, "
         "random subsets; edges shared by 2-4 blocks), dissenter inserted last / first / anywhere: refused, no file"),
]
