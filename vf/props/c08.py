"""C08 — alternative arc specifications equal the analytic circle (DESIGN.md section 4, C08)."""

from __future__ import annotations

import math
import warnings
from typing import Any, Dict

import numpy as np
from hypothesis import strategies as st

from vf import lattice as lt
from vf import x_edges as xe
from vf.core import Cell, Ctx, Violation
from vf.foamdict import FoamParseError

warnings.simplefilter("ignore")

import classy_blocks as cb  # noqa: E402
from classy_blocks.construct.edges import Line  # noqa: E402
from classy_blocks.items.edges.arcs.angle import arc_from_theta  # noqa: E402
from classy_blocks.items.edges.arcs.origin import arc_from_origin  # noqa: E402
from classy_blocks.items.edges.factory import factory  # noqa: E402
from classy_blocks.items.vertex import Vertex  # noqa: E402
from classy_blocks.util import functions as f  # noqa: E402

RULE = (
    "A circle is drawn analytically: centre (up to 10 radii from the origin, any direction), unit axis k (any "
    "direction), radius 10^U(-1, 2), start angle a0, sector angle theta in +-(0.1, 2 pi - 0.05); end points "
    "P(a0), P(a0 + theta) with P(a) = c + R (cos a e1 + sin a e2), (e1, e2, k) right-handed. The library's angle/axis and "
    "origin conversions, the 3-point arc length and the written arc line are compared with P(a0 + theta/2) and R |theta|. "
    "Non-trivial: axis more than 5 degrees from every coordinate axis and |theta| not within 1e-3 of pi/2 or pi; "
    "distinct = distinct generated case."
)
ASSUMPTIONS = [
    "sense of `arc a b angle (axis)`: rotating a about the axis by +angle gives b (OpenFOAM arcEdge, pinned by the "
    "repository's test_arc_from_theta); (-angle, -axis) describes the same arc",
    "origin specification: flatness 1 and a centre equidistant from both ends up to rounding; the arc is the minor one "
    "(included angle < pi)",
    "mid point tolerance 1e-7 R (centre within 10 R of the origin keeps conditioning below 1e-12 R); length tolerance "
    "1e-7 relative (arccos near +-1 loses half the digits); written coordinates 1e-7 + 1e-9 R",
    "arcs keep |theta| at least 1e-4 away from pi outside the witness cells C08/witness/*/semicircle (the library's "
    "mid-point construction and its arccos are singular there; at 1e-4 the conditioning error is below 1e-10 R)",
    "3-point arcs whose given point lies more than pi beyond the start of a reflex arc are generated only in the "
    "witness cell (ledger F10: OpenFOAM's own interior/exterior test; blockMesh draws the same minor arc)",
    "ArcEdgeBase.is_valid drops an arc when |(a - p) x (b - p)| <= 1e-7 in absolute terms: sector angles start at 0.1 "
    "(R = 0.1 gives 1.2e-6) and the 3-point cell keeps that product >= 1e-5 by raising the radius; the dropped class is "
    "generated in the witness cell C08/witness/arc3/shallow-small; the band in between is not explored",
    "placement: the whole construction sits 0, 1e3, 1e5 or 2e6 radii from the origin in a general direction; tolerances "
    "gain FAR_K eps |coordinate| R / (shortest distance between given points), FAR_K = 4000 (measured worst case of the "
    "unchanged library 31, constant up to 1e8 R); written coordinates 2e-8 absolute",
    "re-assembly histories (file cells): write, then either move all mesh vertices (optionally followed by backport()) "
    "or clear() and move the operation in place, then write the same Mesh again; Revolve cell: assemble/write + clear() "
    "between two usage steps; the judged file is always the last one",
    "Revolve cell: expected arcs are the circles about the axis LINE (origin, direction) through each face corner, "
    "mapped by the rigid motions / reflections of the usage steps composed with vf.refmodel; Operation.invert() does not "
    "change geometry; tolerance 2e-8 + 1e-7 r + 1e-12 size",
    "histories (query/write, rigid move of the end vertices, query/write again): moves are translations up to 3 R per "
    "step and rotations about the arc's own axis direction through a point within 5 R of the centre, so an angle/axis "
    "specification stays valid; edge data that holds points (Origin) is moved by the same in-place calls; the "
    "expected circle is moved by vf.refmodel's Rodrigues maps",
    "chord bound: exact kinds 1e-12 relative; curve-snapped edges 1e-6 relative (end parameters come from an "
    "iterative closest-point search, measured 1e-8)",
]

MID_TOL = 1e-7  # x R
LEN_RTOL = 1e-7
EPS = 2.220446049250313e-16
# placement far from the origin: every input coordinate carries a rounding error eps |coordinate|, amplified by
# radius / (shortest distance between the given points).  Measured worst case of the unchanged library over placements
# up to 1e8 R: 31 eps |c| R / chord; 4000 gives > 100x margin
FAR_K = 4000.0
PRINT_ABS = 2e-8  # 8 printed decimals: 5e-9 per coordinate (8.7e-9 in norm)


def far_tol(arc, shortest=None) -> float:
    """absolute tolerance contributed by the placement (arc: Arc or MovedArc)"""
    chord = float(np.linalg.norm(np.asarray(arc.p2) - np.asarray(arc.p1))) if shortest is None else shortest
    size = float(max(np.linalg.norm(arc.c), np.linalg.norm(arc.p1)))
    return FAR_K * EPS * size * arc.R / chord


# --------------------------------------------------------------------------------------------------
# analytic circle


class Arc:
    def __init__(self, case):
        self.R = 10.0 ** case["R_exp"]
        k = np.array(case["axis"], float)
        self.k = k / np.linalg.norm(k)
        j = int(np.argmin(np.abs(self.k)))
        a = np.zeros(3)
        a[j] = 1.0
        e1 = np.cross(self.k, a)
        self.e1 = e1 / np.linalg.norm(e1)
        self.e2 = np.cross(self.k, self.e1)
        d = np.array(case["centre_dir"], float)
        self.c = self.R * case["centre_s"] * d / np.linalg.norm(d)
        if case.get("far"):
            # the whole construction placed far from the origin, in a general direction (in units of the radius)
            fd = np.array(case["far_dir"], float)
            self.c = self.c + self.R * case["far"] * fd / np.linalg.norm(fd)
        self.a0 = case["a0"]
        self.theta = case["theta"]

    def P(self, a: float) -> np.ndarray:
        return self.c + self.R * (math.cos(a) * self.e1 + math.sin(a) * self.e2)

    @property
    def p1(self):
        return self.P(self.a0)

    @property
    def p2(self):
        return self.P(self.a0 + self.theta)

    @property
    def mid(self):
        return self.P(self.a0 + self.theta / 2)

    @property
    def length(self):
        return self.R * abs(self.theta)


class MovedArc:
    """the same circle after the rigid moves of the case: translations and rotations about the arc's own axis direction
    through a general point (so the angle/axis specification stays valid); built with vf.refmodel (Rodrigues)"""

    def __init__(self, arc: Arc, moves):
        from vf.refmodel import apply, m_rotate, m_translate

        M = np.eye(4)
        self.steps = []
        for mv in moves:
            d = arc.R * np.array(mv["d"], float)
            qd = np.array(mv["q_dir"], float)
            q = arc.c + arc.R * mv["q_s"] * qd / np.linalg.norm(qd)
            self.steps.append((d, mv["beta"], q))
            M = m_rotate(mv["beta"], arc.k, q) @ m_translate(d) @ M
        self.R, self.k, self.theta, self.length = arc.R, arc.k, arc.theta, arc.length
        self.p1, self.p2, self.mid, self.c = (apply(M, x) for x in (arc.p1, arc.p2, arc.mid, arc.c))

    def move(self, vertices, datas) -> None:
        """the library's in-place API on mesh/edge vertices and on the edge data that holds points"""
        for d, beta, q in self.steps:
            for obj in [*vertices, *datas]:
                obj.translate(d)
                obj.rotate(beta, self.k, q)


def facts_of(case, arc: Arc) -> Dict[str, Any]:
    return {"theta": arc.theta, "reflex": abs(arc.theta) > math.pi, "negative": arc.theta < 0, "R": arc.R,
            "axis": arc.k.tolist(), "semicircle": abs(abs(arc.theta) - math.pi) < 1e-9}


def label(case, arc: Arc, ctx: Ctx) -> None:
    away = float(np.max(np.abs(arc.k))) < math.cos(math.radians(5))
    special = min(abs(abs(arc.theta) - math.pi / 2), abs(abs(arc.theta) - math.pi)) < 1e-3
    ctx.nt(away and not special)
    ctx.label("reflex" if abs(arc.theta) > math.pi else "non-reflex", "negative" if arc.theta < 0 else "positive")
    ctx.label("R<1" if arc.R < 1 else ("R<10" if arc.R < 10 else "R>=10"))
    ctx.label("placed-at-%gR" % case.get("far", 0.0))


def must(fn, what: str, facts):
    try:
        return fn()
    except Exception as ex:
        raise Violation("raised", f"{what} raised {type(ex).__name__}: {ex}", **facts) from None


def cmp_point(got, want, arc: Arc, what: str, facts) -> None:
    got = np.asarray(got, float)
    err = float(np.linalg.norm(got - want))
    tol = MID_TOL * arc.R + far_tol(arc)
    if not err <= tol:
        tag = "mid-point"
        if np.linalg.norm(got - (2 * arc.c - want)) <= tol:
            tag = "mid-point-antipode"  # the middle of the complementary arc
        raise Violation(tag, f"{what} = {got.tolist()}, analytic middle {want.tolist()} (error {err / arc.R:.3g} R)", **facts)


def cmp_length(got: float, want: float, what: str, facts, extra: float = 0.0) -> None:
    if not abs(got - want) <= LEN_RTOL * want + extra:
        raise Violation("arc-length-nan" if math.isnan(got) else "arc-length", f"{what} = {got!r}, R |theta| = {want!r}", **facts)


# --------------------------------------------------------------------------------------------------
# checks


def requery(case, arc: Arc, edge, name: str, facts, ctx: Ctx) -> None:
    """history: the edge has been queried; its end vertices (and the data that holds points) move rigidly; the same
    queries must now describe the moved circle"""
    if not case.get("moves"):
        return
    moved = MovedArc(arc, case["moves"])
    must(lambda: moved.move([edge.vertex_1, edge.vertex_2], [edge.data]), "moving the end vertices", facts)
    facts = dict(facts, after_move=True)
    third = must(lambda: edge.third_point.position, name + ".third_point after the move", facts)
    cmp_point(third, moved.mid, moved, name + ".third_point after the move", facts)
    cmp_length(must(lambda: float(edge.length), name + ".length after the move", facts), moved.length,
               name + ".length after the move", facts, far_tol(moved))
    ctx.label("moved-and-requeried")


def check_angle(case, ctx: Ctx) -> None:
    arc = Arc(case)
    facts = facts_of(case, arc)
    sg = -1.0 if case["flip"] else 1.0  # (-theta, -k) is the same arc
    angle, axis = sg * arc.theta, sg * arc.k
    got = must(lambda: arc_from_theta(arc.p1, arc.p2, angle, axis), "arc_from_theta", facts)
    cmp_point(got, arc.mid, arc, "arc_from_theta", facts)
    edge = factory.create(Vertex(arc.p1, 0), Vertex(arc.p2, 1), cb.Angle(angle, axis * case["axis_scale"]))
    third = must(lambda: edge.third_point.position, "AngleEdge.third_point", facts)
    cmp_point(third, arc.mid, arc, "AngleEdge.third_point", facts)
    cmp_length(must(lambda: float(edge.length), "AngleEdge.length", facts), arc.length, "AngleEdge.length", facts, far_tol(arc))
    requery(case, arc, edge, "AngleEdge", facts, ctx)
    label(case, arc, ctx)


def check_origin(case, ctx: Ctx) -> None:
    arc = Arc(case)
    facts = facts_of(case, arc)
    got = must(lambda: arc_from_origin(arc.p1, arc.p2, arc.c), "arc_from_origin", facts)
    cmp_point(got, arc.mid, arc, "arc_from_origin", facts)
    edge = factory.create(Vertex(arc.p1, 0), Vertex(arc.p2, 1), cb.Origin(arc.c))
    third = must(lambda: edge.third_point.position, "OriginEdge.third_point", facts)
    cmp_point(third, arc.mid, arc, "OriginEdge.third_point", facts)
    cmp_length(must(lambda: float(edge.length), "OriginEdge.length", facts), arc.length, "OriginEdge.length", facts, far_tol(arc))
    requery(case, arc, edge, "OriginEdge", facts, ctx)
    label(case, arc, ctx)


def check_arc3(case, ctx: Ctx) -> None:
    arc = Arc(case)
    pb = arc.P(arc.a0 + case["t"] * arc.theta)
    late = abs(arc.theta) > math.pi + 1e-9 and case["t"] * abs(arc.theta) > math.pi
    tri = 4 * arc.R ** 2 * abs(math.sin(case["t"] * arc.theta / 2) * math.sin((1 - case["t"]) * arc.theta / 2) * math.sin(arc.theta / 2))
    facts = dict(facts_of(case, arc), t=case["t"], point_beyond_pi=late, triangle_cross=tri)

    legs = [float(np.linalg.norm(a - b)) for a, b in ((pb, arc.p1), (pb, arc.p2), (arc.p1, arc.p2))]

    def judge(got: float, what: str) -> None:
        if abs(got - arc.length) <= LEN_RTOL * arc.length + far_tol(arc, min(legs)):
            return
        minor = arc.R * (2 * math.pi - abs(arc.theta))
        chord = float(np.linalg.norm(arc.p2 - arc.p1))
        tag = "arc-length-of-complement" if abs(got - minor) <= LEN_RTOL * minor else "arc-length"
        if math.isnan(got):
            tag = "arc-length-nan"
        if abs(got - chord) <= 1e-12 * chord:
            tag = "arc-length-is-chord"
        raise Violation(tag, f"{what} = {got!r}, the arc through the given point is R |theta| = {arc.length!r} long", **facts)

    judge(must(lambda: float(f.arc_length_3point(arc.p1, pb, arc.p2)), "arc_length_3point", facts), "arc_length_3point")
    edge = factory.create(Vertex(arc.p1, 0), Vertex(arc.p2, 1), cb.Arc(pb))
    judge(must(lambda: float(edge.length), "ArcEdge.length", facts), "ArcEdge.length")
    label(case, arc, ctx)
    ctx.label("point-beyond-pi" if late else "point-within-pi")


def check_file(case, ctx: Ctx) -> None:
    """the arc line of the written file carries the analytic middle point"""
    arc = Arc(case)
    facts = dict(facts_of(case, arc), spec=case["spec"])
    p1, p2 = arc.p1, arc.p2
    chord = float(np.linalg.norm(p2 - p1))
    e1 = (p2 - p1) / chord
    # any hexahedron on the chord: width along k, height along the in-plane normal of the chord
    w = arc.k * chord
    h = np.cross(e1, arc.k) * chord
    bottom = [p1, p2, p2 + w, p1 + w]
    if case["spec"] == "angle":
        data = cb.Angle(arc.theta, arc.k * case["axis_scale"])
    else:
        data = cb.Origin(arc.c)
    # the arc sits on any of the 12 edge positions of the operation, declared in that position's own sense: the block
    # is renumbered by the rotation of the hexahedron that takes the directed edge 0->1 to that position
    from vf.refmodel import hex_rotations

    pos_corners = [(0, 1), (1, 2), (2, 3), (3, 0), (4, 5), (5, 6), (6, 7), (7, 4), (0, 4), (1, 5), (2, 6), (3, 7)]
    position = case.get("position", 0)
    c1, c2 = pos_corners[position]
    perm = [r for r in hex_rotations() if r[c1] == 0 and r[c2] == 1][0]
    base = bottom + [p + h for p in bottom]
    Q = [base[perm[i]] for i in range(8)]
    op = cb.Loft(cb.Face(Q[:4], [data if position == i else None for i in range(4)]),
                 cb.Face(Q[4:], [data if position == i + 4 else None for i in range(4)]))
    if position >= 8:
        op.add_side_edge(position - 8, data)
    facts["position"] = position
    for ax in range(3):
        op.chop(ax, count=1)
    mesh = cb.Mesh()
    mesh.add(op)
    judge_file(mesh, arc, facts)
    how = case.get("rewrite", "move-vertices" if case.get("moves") else "none")
    if how != "none":
        moved = MovedArc(arc, case.get("moves") or [])  # no moves: the same model is assembled again
        facts = dict(facts, after_move=True, rewrite=how)
        if how == "clear-move-operation":
            # the assembly is thrown away, the operation itself is moved in place, the same Mesh is written again
            must(lambda: (mesh.clear(), moved.move([op], [])), "clear() and moving the operation", facts)
        else:
            # every mesh vertex moves rigidly (as an optimizer or a user would move them), edge data that holds points too
            must(lambda: moved.move(mesh.vertices, [e.data for e in mesh.edge_list.edges]), "moving the mesh vertices", facts)
            if how in ("move-vertices-backport", "backport-twice"):
                must(mesh.backport, "backport()", facts)
        judge_file(mesh, moved, facts)
        if how == "backport-twice":
            must(mesh.backport, "second backport()", facts)
            judge_file(mesh, moved, dict(facts, assembly=3))
        ctx.label("rewritten:" + how + ("" if case.get("moves") else "(unmoved)"))
    ctx.label("position:%d" % position)
    label(case, arc, ctx)


def judge_file(mesh, arc, facts) -> None:
    """arc: Arc or MovedArc (p1, p2, mid, c, R, length)"""
    p1, p2 = arc.p1, arc.p2
    try:
        text, _ = lt.write_text(mesh)
        bmd = lt.parse(text)
    except FoamParseError as ex:
        raise Violation("unparsable", str(ex), **facts) from None
    except Exception as ex:
        raise Violation("write-failed", f"{type(ex).__name__}: {ex}", **facts) from None
    arcs = [e for e in bmd.edges if e.kind == "arc"]
    if len(arcs) != 1 or len(bmd.edges) != 1:
        raise Violation("arc-line-count", f"{len(bmd.edges)} edge entries, {len(arcs)} arcs; one arc expected", **facts)
    e = arcs[0]
    pa, pb = np.array(bmd.vertices[e.a].pos), np.array(bmd.vertices[e.b].pos)
    tol = PRINT_ABS + MID_TOL * arc.R + far_tol(arc)
    ends_ok = (np.linalg.norm(pa - p1) <= tol and np.linalg.norm(pb - p2) <= tol) or \
              (np.linalg.norm(pa - p2) <= tol and np.linalg.norm(pb - p1) <= tol)
    if not ends_ok:
        raise Violation("arc-line-vertices", "the arc entry does not join the two end points", **facts)
    if len(e.payload) != 3:
        raise Violation("arc-line-form", "arc entry is not the three-point form", **facts)
    err = float(np.linalg.norm(np.array(e.payload) - arc.mid))
    if err > tol:
        tag = "mid-point-antipode" if np.linalg.norm(np.array(e.payload) - (2 * arc.c - arc.mid)) <= tol else "mid-point"
        raise Violation(tag, f"written arc point {list(e.payload)}, analytic middle {np.asarray(arc.mid).tolist()}", **facts)
    cmp_length(must(lambda: float(mesh.edge_list.edges[0].length), "Edge.length", facts), arc.length,
               "Edge.length of the written arc", facts, far_tol(arc))


def check_chord(case, ctx: Ctx) -> None:
    """Edge.length >= distance of the end points, every kind"""
    X, Y = np.array(case["X"], float), np.array(case["Y"], float)
    truth = xe.Truth(case["spec"], X, Y)
    data = truth.edge_data() if truth.kind != "line" else Line()
    facts = {"edge_kind": truth.kind, "spec": case["spec"]}
    edge = factory.create(Vertex(X, 0), Vertex(Y, 1), data)
    length = must(lambda: float(edge.length), "Edge.length", facts)
    rtol = 1e-6 if truth.kind in xe.CURVE_KINDS else 1e-12
    if not length >= truth.chord * (1 - rtol):
        raise Violation("shorter-than-chord", f"{truth.kind} edge length {length!r} < distance of its ends {truth.chord!r}", **facts)
    ctx.nt(truth.kind not in ("line", "project", "arc-collinear"))
    ctx.label("kind:" + truth.kind)
    if truth.length is not None and truth.kind not in ("line", "arc-collinear"):
        ctx.label("bulge>1%" if truth.length > 1.01 * truth.chord else "bulge<=1%")


# --------------------------------------------------------------------------------------------------
# generators

_vec = st.tuples(st.floats(-1, 1), st.floats(-1, 1), st.floats(-1, 1)).map(
    lambda v: list(v) if max(abs(x) for x in v) >= 0.05 else [1.0, v[1], v[2]])
# general position by construction: every component at least 0.15 of the largest (>= 12 degrees from each coordinate axis)
_general = st.tuples(*[st.tuples(st.floats(0.15, 1.0), st.sampled_from([1, -1])).map(lambda t: t[0] * t[1])] * 3).map(list)
_axis = st.one_of(_general, _general, _general, _vec, st.sampled_from([[0.0, 0.0, 1.0], [1.0, 0.0, 0.0], [0.0, -1.0, 0.0]]))


HOLE = 1e-4  # |theta| stays this far from pi outside the semicircle witness cell (see ASSUMPTIONS)


def _theta(lo: float, hi: float, signed: bool = True):
    special = [x for x in (math.pi / 2, 3 * math.pi / 2, math.pi - HOLE, math.pi + HOLE, lo, hi) if lo <= x <= hi]
    mag = st.one_of(st.floats(lo, hi), st.floats(lo, hi), st.sampled_from(special)).map(
        lambda x: x if abs(x - math.pi) >= HOLE else (math.pi - HOLE if x < math.pi or math.pi + HOLE > hi else math.pi + HOLE))
    if not signed:
        return mag
    return st.tuples(mag, st.sampled_from([1, -1])).map(lambda t: t[0] * t[1])


SEMI = st.tuples(st.sampled_from([0.0, 0.0, 1e-15, -1e-15, 1e-13, -1e-13]), st.sampled_from([1, -1])).map(
    lambda t: (math.pi + t[0]) * t[1])


# rigid move in units of the radius: translation d, rotation beta about the arc's axis through c + q_s R q_dir
_move = st.fixed_dictionaries({
    "d": st.tuples(st.floats(-3, 3), st.floats(-3, 3), st.floats(-3, 3)).map(list),
    "beta": st.one_of(st.just(0.0), st.floats(-math.pi, math.pi)),
    "q_dir": _vec, "q_s": st.floats(0.0, 5.0)})


@st.composite
def circle_case(draw, theta, **extra):
    case = {"R_exp": draw(st.floats(-1.0, 2.0)), "axis": draw(_axis), "centre_dir": draw(_vec),
            "centre_s": draw(st.one_of(st.just(0.0), st.floats(0.0, 10.0))), "a0": draw(st.floats(-math.pi, math.pi)),
            "theta": draw(theta), "axis_scale": draw(st.sampled_from([1.0, 1.0, 3.0, 0.2])), "flip": draw(st.booleans())}
    for k, v in extra.items():
        case[k] = draw(v)
    case["moves"] = [draw(_move) for _ in range([0, 1, 1, 2][draw(st.integers(0, 3))])]
    case["rewrite"] = draw(st.sampled_from(["none", "move-vertices", "clear-move-operation", "move-vertices-backport",
                                            "backport-twice"]))
    case["position"] = (draw(st.integers(0, 11)) + 5 * draw(st.integers(0, 11))) % 12  # two draws: flatter histogram
    case["far"] = draw(st.sampled_from([0.0, 0.0, 1e3, 1e5, 2e6]))
    case["far_dir"] = draw(_general)
    return case


FULL = _theta(0.1, 2 * math.pi - 0.05)


@st.composite
def arc3_case(draw, late: bool):
    if late:
        th = draw(st.floats(math.pi + 0.05, 2 * math.pi - 0.05)) * draw(st.sampled_from([1, -1]))
        case = draw(circle_case(st.just(th)))
        lo = (math.pi + 0.01) / abs(th)
        case["t"] = draw(st.floats(min(lo, 0.985), 0.99))
        return case
    case = draw(circle_case(FULL))
    th = abs(case["theta"])
    hi = 0.95 if th <= math.pi else min(0.95, (math.pi - 0.01) / th)
    case["t"] = t = draw(st.floats(0.05, hi))
    # the library drops an arc as collinear when |(a - p) x (b - p)| <= 1e-7 (absolute): keep 100x above by radius
    tri = 4 * math.sin(t * th / 2) * math.sin((1 - t) * th / 2) * math.sin(th / 2)
    case["R_exp"] = max(case["R_exp"], 0.5 * math.log10(1e-5 / tri) + 1e-3)
    return case


@st.composite
def semicircle3_case(draw):
    case = draw(circle_case(SEMI))
    case["t"] = draw(st.floats(0.1, 0.9))
    return case


@st.composite
def shallow_case(draw):
    """small radius, small sector, point near the start: |(a - p) x (b - p)| < 0.9e-7 although the arc is a proper one"""
    case = draw(circle_case(st.floats(0.05, 0.055)))
    case["R_exp"] = draw(st.floats(-1.0, -0.95))
    case["t"] = draw(st.floats(0.05, 0.09))
    return case


@st.composite
def chord_case(draw, kinds):
    X = [draw(st.floats(-10, 10)) for _ in range(3)]
    d = draw(_vec)
    L = 10.0 ** draw(st.floats(-1.0, 1.5))
    n = math.sqrt(sum(x * x for x in d))
    Y = [X[i] + L * d[i] / n for i in range(3)]
    kind = draw(st.sampled_from(list(kinds)))
    if kind == "arc-late":  # reflex 3-point arc with the point beyond pi (ledger F10 class): still not below the chord
        th = draw(st.floats(3.3, 5.5))
        sp = {"kind": "arc", "theta": th, "phi": draw(st.floats(0, 6.28)), "frac": draw(st.floats((math.pi + 0.01) / th, 0.97))}
    else:
        sp = draw(xe.spec(kind, reflex=True))
    return {"X": X, "Y": Y, "spec": sp}


# --------------------------------------------------------------------------------------------------
# angle-and-axis arcs made by cb.Revolve, then used


def _frame_of(k):
    j = int(np.argmin(np.abs(k)))
    a = np.zeros(3)
    a[j] = 1.0
    e1 = np.cross(k, a)
    e1 /= np.linalg.norm(e1)
    return e1, np.cross(k, e1)


def check_revolve(case, ctx: Ctx) -> None:
    from vf.refmodel import apply, m_mirror, m_rotate, m_translate, rodrigues

    S = 10.0 ** case["S_exp"]
    k = np.array(case["axis"], float)
    k /= np.linalg.norm(k)
    e1, _ = _frame_of(k)
    o = S * np.array(case["o"], float)
    theta = case["theta"]
    rz = [(case["r0"], 0.0), (case["r0"] + case["w"], 0.0), (case["r0"] + case["w"], case["h"]), (case["r0"], case["h"])]
    rz = [(r + jr * 0.2 * min(case["w"], case["r0"]), z + jz * 0.2 * case["h"]) for (r, z), (jr, jz) in zip(rz, case["jitter"])]
    pts = [o + S * (z * k + r * e1) for r, z in rz]
    radii = [S * r for r, _ in rz]
    # the face normal has to look along the sense of rotation (a right-handed block)
    normal = np.cross(pts[1] - pts[0], pts[3] - pts[0])
    if float(normal @ np.cross(k, e1)) * theta < 0:
        pts, radii = pts[::-1], radii[::-1]
    facts: Dict[str, Any] = {"theta": theta, "reflex": abs(theta) > math.pi, "usage": [s[0] for s in case["usage"]],
                             "axis": k.tolist()}

    def about_axis(p, ang):
        return o + rodrigues(k, ang) @ (p - o)

    start = pts
    end = [about_axis(p, theta) for p in pts]
    mid = [about_axis(p, theta / 2) for p in pts]

    def vec(v):
        return S * np.array(v, float)

    M = np.eye(4)
    mesh = None
    try:
        op = cb.Revolve(cb.Face(pts), theta, k * case["axis_scale"], o)
        for ax in range(3):
            op.chop(ax, count=1)
        for n_done, st_ in enumerate(case["usage"]):
            if case.get("reassemble_at") == n_done:
                # history: the operation is already in a Mesh that was written (or only assembled) and cleared;
                # the remaining steps act on the operation in place and the same Mesh is written at the end
                mesh = cb.Mesh()
                mesh.add(op)
                if case.get("first_pass") == "write":
                    lt.write_text(mesh)
                else:
                    mesh.assemble()
                mesh.clear()
            kind = st_[0]
            if kind == "copy-rotate" and mesh is not None:
                kind = "rotate"  # a copy would not be the operation the Mesh holds
            if kind == "translate":
                op.translate(vec(st_[1]))
                M = m_translate(vec(st_[1])) @ M
            elif kind in ("rotate", "copy-rotate"):
                if kind == "copy-rotate":
                    op = op.copy()
                op.rotate(st_[1], st_[2], vec(st_[3]))
                M = m_rotate(st_[1], st_[2], vec(st_[3])) @ M
            elif kind == "mirror":
                op.mirror(st_[1], vec(st_[2]))
                M = m_mirror(st_[1], vec(st_[2])) @ M
            elif kind == "invert":
                op.invert()
            else:  # transform list
                trs = []
                for t in st_[1]:
                    if t[0] == "T":
                        trs.append(cb.Translation(vec(t[1])))
                        M = m_translate(vec(t[1])) @ M
                    elif t[0] == "R":
                        trs.append(cb.Rotation(t[1], t[2], vec(t[3])))
                        M = m_rotate(t[2], t[1], vec(t[3])) @ M
                    else:
                        trs.append(cb.Mirror(t[1], vec(t[2])))
                        M = m_mirror(t[1], vec(t[2])) @ M
                op.transform(trs)
    except Exception as ex:
        raise Violation("usage-raised", f"{type(ex).__name__}: {ex}", **facts) from None
    if mesh is None:
        mesh = cb.Mesh()
        mesh.add(op)
    else:
        facts["reassembled_after_step"] = case["reassemble_at"]
    try:
        text, _ = lt.write_text(mesh)
        bmd = lt.parse(text)
    except FoamParseError as ex:
        raise Violation("unparsable", str(ex), **facts) from None
    except Exception as ex:
        raise Violation("write-failed", f"{type(ex).__name__}: {ex}", **facts) from None
    if len(bmd.edges) != 4 or any(e.kind != "arc" or len(e.payload) != 3 for e in bmd.edges):
        raise Violation("arc-line-count", f"{[e.kind for e in bmd.edges]} written, four three-point arcs expected", **facts)
    vpos = [np.array(v.pos) for v in bmd.vertices]
    size = float(max(np.linalg.norm(apply(M, q)) for q in start + end)) + max(radii)
    for i in range(4):
        a, b, m = apply(M, start[i]), apply(M, end[i]), apply(M, mid[i])
        tol = PRINT_ABS + MID_TOL * radii[i] + 1e-12 * size
        mine = [e for e in bmd.edges if (
            (np.linalg.norm(vpos[e.a] - a) <= tol and np.linalg.norm(vpos[e.b] - b) <= tol)
            or (np.linalg.norm(vpos[e.a] - b) <= tol and np.linalg.norm(vpos[e.b] - a) <= tol))]
        f2 = dict(facts, side_edge=i, radius=radii[i])
        if len(mine) != 1:
            raise Violation("arc-line-vertices", f"{len(mine)} arc entries join the ends of side edge {i}", **f2)
        got = np.array(mine[0].payload)
        if np.linalg.norm(got - m) > tol:
            centre = apply(M, o + ((start[i] - o) @ k) * k)
            tag = "mid-point-antipode" if np.linalg.norm(got - (2 * centre - m)) <= tol else "mid-point"
            raise Violation(tag, f"side edge {i}: written arc point {got.tolist()}, middle of the revolved arc {m.tolist()}", **f2)
        for edge in mesh.edge_list.edges:
            ea, eb = np.asarray(edge.vertex_1.position, float), np.asarray(edge.vertex_2.position, float)
            if (np.linalg.norm(ea - a) <= tol and np.linalg.norm(eb - b) <= tol) or \
                    (np.linalg.norm(ea - b) <= tol and np.linalg.norm(eb - a) <= tol):
                cmp_length(must(lambda: float(edge.length), "Edge.length", f2), radii[i] * abs(theta),  # noqa: B023
                           f"Edge.length of side edge {i}", f2, 1e-12 * size)
    ctx.nt(len(case["usage"]) >= 1 and float(np.max(np.abs(k))) < math.cos(math.radians(5)))
    ctx.label("reflex" if abs(theta) > math.pi else "non-reflex", "negative" if theta < 0 else "positive")
    ctx.label("steps=%d" % len(case["usage"]))
    if "reassembled_after_step" in facts:
        ctx.label("reassembled-then-%d-more-steps" % (len(case["usage"]) - case["reassemble_at"]))
    for s_ in case["usage"]:
        ctx.label("step:" + s_[0])


_p3 = st.tuples(st.floats(-3, 3), st.floats(-3, 3), st.floats(-3, 3)).map(list)
_ang = st.floats(-math.pi, math.pi).map(lambda x: x if abs(x) > 0.05 else 0.7)
_usage_step = st.one_of(
    st.tuples(st.just("translate"), _p3).map(list),
    st.tuples(st.just("rotate"), _ang, _general, _p3).map(list),
    st.tuples(st.just("mirror"), _general, _p3).map(list),
    st.just(["invert"]),
    st.tuples(st.just("copy-rotate"), _ang, _general, _p3).map(list),
    st.tuples(st.just("transform"), st.lists(st.one_of(
        st.tuples(st.just("T"), _p3).map(list),
        st.tuples(st.just("R"), _general, _ang, _p3).map(list),
        st.tuples(st.just("M"), _general, _p3).map(list)), min_size=1, max_size=3)).map(list),
)


@st.composite
def revolve_case(draw):
    case = {"S_exp": draw(st.floats(-1.0, 1.5)), "axis": draw(_axis), "axis_scale": draw(st.sampled_from([1.0, 2.0, 0.3])),
            "o": draw(_p3), "theta": draw(FULL), "r0": draw(st.floats(0.2, 3.0)), "w": draw(st.floats(0.2, 2.0)),
            "h": draw(st.floats(0.2, 2.0)),
            "jitter": [[draw(st.floats(-1, 1)), draw(st.floats(-1, 1))] for _ in range(4)]}
    n = [0, 1, 1, 1, 2, 2, 3, 3][draw(st.integers(0, 7))]
    case["usage"] = [draw(_usage_step) for _ in range(n)]
    # optionally the operation sits in a Mesh that is assembled / written and cleared before step `reassemble_at`
    case["reassemble_at"] = draw(st.sampled_from([None, *range(n)])) if n else None
    case["first_pass"] = draw(st.sampled_from(["write", "assemble"]))
    # keep |(a - p) x (b - p)| of the smallest side arc >= 1e-5 (the library's absolute collinearity tolerance is 1e-7,
    # known finding C08-N2) by raising the size
    th = abs(case["theta"])
    tri = 4 * math.sin(th / 4) ** 2 * abs(math.sin(th / 2)) * (0.8 * case["r0"]) ** 2
    case["S_exp"] = max(case["S_exp"], 0.5 * math.log10(1e-5 / tri) + 1e-3)
    return case


EXACT_KINDS = ("arc", "arc-late", "origin", "angle", "spline", "polyLine", "project", "line", "arc-collinear")

CELLS = [
    Cell("C08/angle/mid-point-and-length", circle_case(FULL), check_angle, 3000, 150000,
         "arc_from_theta and AngleEdge.third_point = P(a0 + theta/2), AngleEdge.length = R |theta|; theta of either sign "
         "up to 2 pi - 0.05, (theta, k) or (-theta, -k), non-unit axis"),
    Cell("C08/witness/angle/semicircle", circle_case(SEMI), check_angle, 200, 5000,
         "sector angle pi (exactly and within 1e-13): the library projects the chord's middle from the centre, which is "
         "0/0 for a semicircle in general position (new finding)"),
    Cell("C08/origin/mid-point-and-length", circle_case(_theta(0.1, math.pi - 0.05)), check_origin, 3000, 150000,
         "arc_from_origin and OriginEdge.third_point = middle of the minor arc about the given centre, length R theta"),
    Cell("C08/arc3/length", arc3_case(False), check_arc3, 3000, 150000,
         "arc_length_3point and ArcEdge.length = R |theta| for the arc from a through the given point to b (point within pi "
         "of the start)"),
    Cell("C08/witness/arc3/point-beyond-pi", arc3_case(True), check_arc3, 300, 10000,
         "reflex 3-point arc whose given point lies more than pi beyond the start (ledger F10)"),
    Cell("C08/witness/arc3/semicircle", semicircle3_case(), check_arc3, 300, 8000,
         "3-point arc over exactly half a circle in general position: the arccos argument leaves [-1, 1] by rounding "
         "(new finding)"),
    Cell("C08/witness/arc3/shallow-small", shallow_case(), check_arc3, 150, 3000,
         "R about 0.1, sector 0.05, point near the start: a proper arc that the library's absolute collinearity "
         "tolerance drops (new finding)"),
    Cell("C08/file/arc-line", circle_case(_theta(0.1, math.pi - 0.05), spec=st.sampled_from(["angle", "origin"])), check_file,
         250, 8000, "one block with an angle/origin edge on any of its 12 edge positions: the single `arc a b (p)` line carries the "
         "analytic middle (minor arcs: a block edge); then a drawn re-assembly / move history and the file again"),
    Cell("C08/file/arc-line-reflex", circle_case(_theta(math.pi + 0.05, 2 * math.pi - 0.05), spec=st.just("angle")), check_file,
         150, 5000, "the same for reflex angle/axis arcs"),
    Cell("C08/file/revolve", revolve_case(), check_revolve, 300, 10000,
         "cb.Revolve of a quadrilateral about a general axis line (either sign, also reflex), then 0-3 usage steps "
         "(translate, rotate about a general axis, mirror, invert, copy-then-rotate, transform list): the four written arc "
         "points are the middles of the revolved arcs mapped by the same motions (vf.refmodel), Edge.length = r |theta|"),
    Cell("C08/chord/exact-kinds", chord_case(EXACT_KINDS), check_chord, 2000, 80000,
         "Edge.length >= |v2 - v1| (1 - 1e-12) for line, arc (also reflex, point anywhere), origin, angle, spline, "
         "polyLine, project, collinear arc"),
    Cell("C08/chord/curve-kinds", chord_case(xe.CURVE_KINDS), check_chord, 200, 6000,
         "Edge.length >= |v2 - v1| (1 - 1e-6) for edges snapped to line, circle and interpolated curves"),
]

# thorough tier: coverage-guided campaigns (atheris / libFuzzer) over the purely numeric arc cells
FUZZ_CELLS = [(c.id, 20000) for c in CELLS if c.id in ("C08/angle/mid-point-and-length", "C08/origin/mid-point-and-length", "C08/arc3/length")]
