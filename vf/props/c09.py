"""C09 — transforming or copying an entity equals transforming its output geometry (DESIGN.md section 4, C09)."""

from __future__ import annotations

import re
import warnings

import numpy as np
from hypothesis import strategies as st

from vf import lattice as lt
from vf import refmodel as rm
from vf import x_c09 as x
from vf.core import Cell, Ctx, Violation
from vf.x_c09 import ENTS, Frame

warnings.simplefilter("ignore")

import classy_blocks as cb  # noqa: E402
from classy_blocks.construct.array import Array  # noqa: E402
from classy_blocks.construct.point import Point, Vector  # noqa: E402
from classy_blocks.util import functions as f  # noqa: E402

RULE = (
    "Cells = entity class x transformation kind (translate | rotate | scale | mirror | compose of 2-3 | copy). A case "
    "= (entity parameters in a drawn placement frame, list of transformation steps, each by method call or inside a "
    "transform([...]) list, numpy arrays as arguments). The entity is built twice; one instance is transformed by the "
    "library, both are assembled in a Mesh (faces, edge data and sketches inside harness-built lofts whose other face "
    "is mapped by the harness) and G(T x) is compared with M_T(G(x)), M_T composed from vf.refmodel (Rodrigues): corner "
    "positions per block, projection labels, curved edges by location (arc kinds: third point on the image circle, on "
    "the same side of the chord; spline/polyLine/curve: control points; project: labels), Edge.length x |ratio|, "
    "Angle.axis as a direction. When a mirror is involved the block numbering may be kept or have bottom and top "
    "swapped (Operation.mirror), edges are compared as geometry between the matched end points (control points in "
    "the order of the matched direction). All discrepancies of a case are collected; one that the facts pin to a "
    "separately listed root cause (tag `cause`) is raised only if nothing else is wrong. copy cells: G(copy) = "
    "G(x), transforming the copy leaves G(x) unchanged, the transformed copy obeys the same law, both write the same "
    "dict (modulo sphere_<id> names) with the same set of undefined geometry references. Non-trivial: no step is the "
    "identity, at least one step has origin != 0 and an axis/normal that is non-unit or not axis-aligned (translation: "
    "d != 0; scale: ratio != 1 about origin != 0), and the entity carries a curved or projected edge (where its class "
    "can: not Box, Grid, MappedSketch, Shell, bare Face); distinct "
    "= distinct generated case. Cases that only reproduce a listed known finding are not counted at all."
)
ASSUMPTIONS = [
    f"positions: |p' - M p| <= {x.POS_TOL} * (1 + largest coordinate) (measured worst case 4e-14 relative)",
    f"lengths: relative {x.LEN_TOL} (library TOL); arcs: third point within {x.ARC_TOL} * radius of the image circle",
    f"OnCurve edges: control points within {x.CURVE_TOL} * chord, length within {10 * x.CURVE_TOL} relative (their end "
    "parameters come from scipy L-BFGS-B on a non-smooth objective; measured worst case 9.2e-9 / 1.4e-8 over 3000 cases)",
    "scale ratios are positive: 0.2..5 for one step (1 in 5: a unit conversion 1e-3, 1e-2, 1e2, 1e3), 0.5..2 per step in "
    "compositions; features stay >= 100 x the library's absolute TOL = 1e-7: a single down-scaling is capped so that the "
    "smallest vertex distance stays >= 1e-5 and the smallest arc's |arm x arm| >= 1e-5, other cases that would come "
    "closer are counted, not judged; every comparison is relative to the coordinates/chords/radii of the transformed geometry",
    "default origins (origin=None) are used only for classes that inherit ElementBase.rotate/scale (documented: the "
    "entity's center, read through the public .center just before the step) and for mirror (documented: [0, 0, 0])",
    "an origin may be one of the entity's own stored points, passed as the very array the library hands out (Point.position, "
    "a row of a curve's point array); the reference map uses its value when the call is made, such a step is never "
    "placed after another element of the same transform([...]) list, and that argument is exempt from the "
    "arguments-untouched check (it belongs to the entity)",
    "a transform([...]) call may be issued twice with the same Transformation objects: each use is the affine map the "
    "list describes (default origins from the entity as it is then), and the objects still hold exactly what they were "
    "given afterwards",
    "curves (as entities and inside OnCurve/Spline/PolyLine edge data of any entity) are evaluated before the "
    "transformation in 6 of 7 cases (get_point, discretize, length, get_closest_param or all of them), as a caller may "
    "have done",
    "block numbering after mirror: kept or bottom/top swapped are both accepted (handedness of the result is C11's "
    "business); return values of the methods are not used",
    "a default origin in the middle of a transform([...]) list is the image of the center read before the call under "
    "the earlier elements (centers are means or fixed points of the entity); joints and Hemisphere (center = a corner "
    "of a particular face, which changes when a mirror swaps bottom and top) get such steps in a call of their own, with "
    "the center read just before",
    "generated Angle edges have their axis perpendicular to the chord (a rotation about an axis, as Revolve makes them); "
    "generated 3-point arcs keep the third point within 0.3..0.7 of the chord (sagitta 0.08..0.6 chord)",
    "AnalyticCurve with a user function is excluded (the library documents that it cannot be transformed); shear is "
    "not part of the statement",
]

I4 = np.eye(4)


def _identity() -> x.Applied:
    return x.Applied()


def base_facts(ent: x.Ent, tkind: str, case) -> dict:
    return {"entity": ent.name, "family": ent.family, "tkind": tkind, "steps": [t["k"] for t in case["tf"]],
            "vias": [t["via"] for t in case["tf"]]}


def tf_facts(facts: dict, ap: x.Applied) -> dict:
    out = dict(facts)
    out.update(parity=ap.parity, mirrors=ap.mirrors, normals_unit=ap.normals_unit, default_origin=ap.default_origin, own_origin=ap.own_origin, list_reused=ap.reused, list_mirrors=ap.list_mirrors, ratio=ap.s)
    return out


def guard(g0: x.Geo, s: float, ctx: Ctx) -> bool:
    """True if the case keeps clear of the library's absolute tolerance (1e-7) after scaling"""
    if x.near_tol(g0, s):
        ctx.label("guard:near-library-TOL")
        return False
    return True


# --------------------------------------------------------------------------------------------------
# mesh-observed entities


def mesh_case(ent: x.Ent, tkind: str):
    return st.fixed_dictionaries({"ent": ent.strategy, "tf": x.tf_list(tkind, ent.default_origin_ok), "pre": st.sampled_from(x.PRE)})


BYPASS = "transform-list-bypasses-own-overrides"


def mark_bypass(ent: x.Ent, tf, discs) -> None:
    """ElementBase.transform() works on the receiver's parts, so the receiver's own overrides are skipped (documented
    for Operation.transform([Mirror]): no inversion).  An Angle that is itself given a transformation list has its
    axis moved like a point and its angle not negated by a Mirror; inside a Face or Operation its overrides are used."""
    if ent.name == "edge-angle" and any(t["via"] == "l" for t in tf):
        for d in discs:
            if d.cause is None and d.facts.get("edge_kind") == "angle" and d.kind in ("arc-shape", "axis-direction"):
                d.cause = BYPASS


def make_check_tf(ent: x.Ent, tkind: str):
    def check(case, ctx: Ctx) -> None:
        p, tf = case["ent"], case["tf"]
        facts = base_facts(ent, tkind, case)
        e0 = ent.build(p)
        aux = ent.prep(e0, p)
        add0 = ent.realize(e0, I4, aux)
        shared = x.shared_corners(add0)
        g0 = x.geo_of(add0, facts, "base")
        e1 = ent.build(p)
        # the curves the entity holds may have been evaluated already (evaluation may be cached by the library)
        if x.touch_curves(e1, case.get("pre", "all")):
            ctx.label("curves-evaluated-before=" + case.get("pre", "all"))
        tf, capped = x.cap_scale(tf, g0)
        if capped:
            ctx.label("ratio=capped")
        ap = x.apply_tf(e1, tf, facts, ent.center_covariant)
        facts = tf_facts(facts, ap)
        if not guard(g0, ap.s, ctx):
            return
        try:
            add1 = ent.realize(e1, ap.M, aux)
        except Violation as v:
            raise Violation(v.kind, v.msg, **facts) from None
        g1 = x.geo_of(add1, facts, "transformed")
        discs, labels = x.compare(g0, g1, ap, shared)
        mark_bypass(ent, tf, discs)
        ctx.label(*x.tf_labels(tf), *sorted(set(labels)), *ent.labels(p), *(["list=reused"] if ap.reused else []))
        ctx.nt(x.tf_nontrivial(tf) and ent.curved(p))
        x.raise_first(discs, facts)

    return check


def _norm_names(text: str) -> str:
    return re.sub(r"sphere_\d+", "sphere_N", text)


def _undefined(text: str):
    bmd = lt.parse(text)
    used = set()
    for v in bmd.vertices:
        used.update(v.projected_to or [])
    for e in bmd.edges:
        if e.kind == "project":
            used.update(e.payload)
    for _ids, label in bmd.faces:
        used.add(label)
    return sorted(used - set(bmd.geometry))


def _write(addables):
    for op in x.operations_of(addables):
        for ax in range(3):
            if not op.chops[ax]:
                op.chop(ax, count=2)
    mesh = cb.Mesh()
    for a in addables:
        mesh.add(a)
    return lt.write_text(mesh)[0]


def make_check_copy(ent: x.Ent):
    def check(case, ctx: Ctx) -> None:
        p, tf = case["ent"], case["tf"]
        facts = base_facts(ent, "copy", case)
        e0 = ent.build(p)
        aux = ent.prep(e0, p)
        add0 = ent.realize(e0, I4, aux)
        shared = x.shared_corners(add0)
        g0 = x.geo_of(add0, facts, "base")
        try:
            cp = e0.copy()
        except Exception as ex:
            raise Violation("copy-raised", f"{type(ex).__name__}: {ex}", **facts) from None
        if cp is e0 or type(cp) is not type(e0):
            raise Violation("copy-not-a-new-equivalent-object", f"copy() returned {type(cp).__name__}", **facts)
        discs = []

        def stage(name, ga, gb, ap, tol, len_tol):
            ds, _ = x.compare(ga, gb, ap, shared, pos_tol=tol, len_tol=len_tol)
            for d in ds:
                d.facts["stage"] = name
                d.msg = f"[{name}] {d.msg}"
            if name == "transformed-copy":
                mark_bypass(ent, tf, ds)
            discs.extend(ds)

        gc = x.geo_of(ent.realize(cp, I4, aux), facts, "copied")
        stage("copy-equals-original", g0, gc, _identity(), x.COPY_TOL, x.COPY_TOL)

        # the written dicts (before anything is transformed)
        try:
            t0 = _write(ent.realize(ent.build(p), I4, aux))
        except Exception as ex:
            t0 = None
            ctx.label("write-of-original-raised:" + type(ex).__name__)
        if t0 is not None:
            try:
                fresh = ent.build(p)
                tc = _write(ent.realize(fresh.copy(), I4, aux))
            except Exception as ex:
                raise Violation("copy-write-raised", f"original writes, copy raises {type(ex).__name__}: {ex}", **facts) from None
            if _norm_names(t0) != _norm_names(tc):
                a, b = _norm_names(t0).splitlines(), _norm_names(tc).splitlines()
                k = next((i for i in range(min(len(a), len(b))) if a[i] != b[i]), min(len(a), len(b)))
                discs.append(x.Disc("copy-writes-different-mesh", f"first differing line {k}: {a[k:k + 1]} vs {b[k:k + 1]}",
                                    stage="write"))
            u0, uc = _undefined(t0), _undefined(tc)
            if u0 != uc:
                new = [u for u in uc if u not in u0]
                only_spheres = bool(new) and all(re.fullmatch(r"sphere_\d+", u) for u in new) and len(uc) == len(u0) + len(new)
                discs.append(x.Disc("copy-undefined-geometry", f"geometry referenced but not defined: original {u0}, copy {uc}",
                                    cause="id-based-geometry-name" if only_spheres else None, undefined=new[:3], stage="write"))

        # independence: transform the copy, look at the original again; the transformed copy obeys the law
        x.touch_curves(cp, case.get("pre", "all"))
        tf, capped = x.cap_scale(tf, g0)
        if capped:
            ctx.label("ratio=capped")
        ap = x.apply_tf(cp, tf, facts, ent.center_covariant)
        tfacts = tf_facts(facts, ap)
        g0b = x.geo_of(ent.realize(e0, I4, aux), facts, "base")
        stage("original-after-transforming-copy", g0, g0b, _identity(), 0.0, 0.0)
        if guard(g0, ap.s, ctx):
            gc2 = x.geo_of(ent.realize(cp, ap.M, aux), tfacts, "transformed copy")
            stage("transformed-copy", g0, gc2, ap, x.POS_TOL, x.LEN_TOL)
        ctx.label(*x.tf_labels(tf), *ent.labels(p))
        ctx.nt(x.tf_nontrivial(tf) and ent.curved(p))
        x.raise_first(discs, tfacts)

    return check


# --------------------------------------------------------------------------------------------------
# points


@st.composite
def point_case(draw, tkind):
    return {"pos": draw(x.point3(10)), "vector": draw(st.booleans()), "labels": draw(st.sampled_from([[], ["terrain"], ["a", "b"]])),
            "tf": draw(x.tf_list(tkind, False))}


def check_point(tkind):
    def check(case, ctx: Ctx) -> None:
        facts = {"entity": "point", "family": "point", "tkind": tkind, "steps": [t["k"] for t in case["tf"]],
                 "vias": [t["via"] for t in case["tf"]]}
        given = np.array(case["pos"], dtype=float)
        keep = given.copy()
        cls = Vector if case["vector"] else Point
        pt = cls(given)
        for lb in case["labels"]:
            pt.project(lb)
        target = pt
        if tkind == "copy":
            target = pt.copy()
            if target is pt or not np.array_equal(target.position, keep) or target.projected_to != pt.projected_to:
                raise Violation("copy-differs", f"copy at {target.position} {target.projected_to}", **facts)
        ap = x.apply_tf(target, case["tf"], facts)
        facts = tf_facts(facts, ap)
        want = rm.apply(ap.M, keep)
        tol = x.POS_TOL * (1 + float(np.max(np.abs(want))) + float(np.max(np.abs(keep))))
        if x.nrm(target.position - want) > tol:
            raise Violation("vertex-moved", f"point {keep} -> {target.position}, expected {want}", **facts)
        if target.projected_to != case["labels"]:
            raise Violation("projection-changed", f"{case['labels']} -> {target.projected_to}", **facts)
        if not np.array_equal(given, keep):
            raise Violation("argument-mutated", f"the position array given to the constructor changed: {keep} -> {given}",
                            step="constructor", argument="position", **facts)
        if tkind == "copy" and (not np.array_equal(pt.position, keep) or pt.projected_to != case["labels"]):
            raise Violation("original-changed-with-copy", f"original moved to {pt.position}", **facts)
        ctx.label(*x.tf_labels(case["tf"]))
        ctx.nt(x.tf_nontrivial(case["tf"]))

    return check


# --------------------------------------------------------------------------------------------------
# curves as entities: points at fixed parameters, discretisation, lengths, circle normal


@st.composite
def curve_case(draw, which, tkind):
    return {"frame": draw(x.frames()), "spec": draw(x.curve_spec(which)), "tf": draw(x.tf_list(tkind, False)),
            "pre": draw(st.sampled_from(x.PRE))}


def _curve_geo(curve, which):
    lo, hi = curve.bounds
    if which == "discrete":
        params = list(range(int(lo), int(hi) + 1))
        sub = (params[0], params[-1]) if len(params) < 3 else (params[1], params[-1])
    else:
        params = list(np.linspace(lo, hi, 9))
        sub = (lo + 0.13 * (hi - lo), lo + 0.77 * (hi - lo))
    g = {
        "pts": np.array([curve.get_point(t) for t in params], dtype=float),
        "disc": np.array(curve.discretize(), dtype=float),
        "length": float(curve.length),
        "sub": float(curve.get_length(*sub)),
        # the parameter found for a point of the curve (what OnCurve edges are clipped with)
        "closest": np.array([[float(curve.get_closest_param(curve.get_point(t)))] for t in params[1:-1:2]] or [[0.0]]),
        "span": float(hi - lo),
    }
    if which == "circle":
        g["normal"] = np.array(curve.normal, dtype=float)
    return g


def check_curve(which, tkind):
    def check(case, ctx: Ctx) -> None:
        facts = {"entity": "curve-" + which, "family": "curve", "tkind": tkind, "steps": [t["k"] for t in case["tf"]],
                 "vias": [t["via"] for t in case["tf"]]}
        fr = Frame(case["frame"])
        a, b = fr.p([-0.5, 0, 0]), fr.p([0.5, 0, 0])
        c0 = x.make_curve(case["spec"], a, b)
        g0 = _curve_geo(c0, which)
        target = c0
        if tkind == "copy":
            try:
                target = c0.copy()
            except Exception as ex:
                raise Violation("copy-raised", f"{type(ex).__name__}: {ex}", **facts) from None
            gc = _curve_geo(target, which)
            for k in ("pts", "disc"):
                if gc[k].shape != g0[k].shape or x._maxerr(gc[k], g0[k]) > 0:
                    raise Violation("copy-differs", f"copy differs in {k}", **facts)
        else:
            target = x.make_curve(case["spec"], a, b)
        # a curve that was evaluated before it is transformed (6 of 7 cases; a copy carries what its source cached)
        pre = case.get("pre", "all")
        x.touch_curve(target, pre)
        ap = x.apply_tf(target, case["tf"], facts)
        facts = tf_facts(facts, ap)
        try:
            g1 = _curve_geo(target, which)
        except Exception as ex:
            raise Violation("transform-raised", f"evaluating the transformed curve: {type(ex).__name__}: {ex}",
                            error=type(ex).__name__, **facts) from None
        ext = 1 + float(np.max(np.abs(g0["pts"]))) * max(1.0, ap.s) + float(np.max(np.abs(g1["pts"])))
        tol = x.POS_TOL * ext
        for k in ("pts", "disc"):
            want = rm.apply(ap.M, g0[k])
            if g1[k].shape != want.shape or x._maxerr(g1[k], want) > tol:
                # CircleCurve.mirror flips the normal; a Mirror in a list given to the curve itself reflects its three
                # points only (transform() works on parts), so an odd number of those runs the wrong way round
                cause = None
                # (counted as executed: a list applied twice counts twice; where the origin comes from does not matter)
                if which == "circle" and ap.list_mirrors % 2:
                    cause = BYPASS
                raise Violation("control-points", f"{'get_point' if k == 'pts' else 'discretize'} differs from the image of the "
                                f"original curve by {x._maxerr(g1[k], want) if g1[k].shape == want.shape else 'shape'}",
                                cause=cause, edge_kind="curve", **facts)
        for k in ("length", "sub"):
            if abs(g1[k] - ap.s * g0[k]) > x.LEN_TOL * ap.s * g0[k] + 1e-12:
                raise Violation("edge-length", f"{k}: {g1[k]} != {ap.s} * {g0[k]}", edge_kind="curve", **facts)
        # points of the curve are their own closest points: the parameter found for them does not depend on placement
        # (tolerance: the library's searches stop at about 1e-8 of the span; 1e-5 leaves a margin of 1000)
        if g1["closest"].shape != g0["closest"].shape or np.max(np.abs(g1["closest"] - g0["closest"])) > 1e-5 * g0["span"]:
            raise Violation("closest-parameter", f"get_closest_param of points of the curve: {g0['closest'].ravel().tolist()} before, "
                            f"{g1['closest'].ravel().tolist()} after", edge_kind="curve", **facts)
        if which == "circle":
            want = rm.unit(rm.apply_dir(ap.M, g0["normal"]))
            got = rm.unit(g1["normal"])
            err = min(x.nrm(got - want), x.nrm(got + want)) if ap.parity else x.nrm(got - want)
            if err > x.DIR_TOL:
                raise Violation("axis-direction", f"circle normal {got}, expected {want}", **facts)
        if tkind == "copy":
            g0b = _curve_geo(c0, which)
            if any(not np.array_equal(g0b[k], g0[k]) for k in ("pts", "disc")):
                raise Violation("original-changed-with-copy", "transforming the copy changed the original curve", **facts)
        ctx.label(*x.tf_labels(case["tf"]), "evaluated-before=" + pre)
        ctx.nt(x.tf_nontrivial(case["tf"]))

    return check


# --------------------------------------------------------------------------------------------------
# helpers: functions.rotate / scale / mirror, Array.*  (result and untouched arguments)


@st.composite
def helper_case(draw):
    k = draw(st.sampled_from(["rotate", "scale", "mirror"]))
    t = draw(x.tf_one(k, False))
    if t["origin"] is None or isinstance(t["origin"], dict):
        t["origin"] = [0.0, 0.0, 0.0]
    return {"point": draw(x.point3(10)), "t": t}


def check_functions(case, ctx: Ctx) -> None:
    t = case["t"]
    facts = {"entity": "functions." + t["k"], "family": "helper", "tkind": t["k"], "steps": [t["k"]], "vias": ["f"]}
    args = {"point": np.array(case["point"], dtype=float), "origin": np.array(t["origin"], dtype=float)}
    if t["k"] == "rotate":
        args["axis"] = np.array(t["axis"], dtype=float)
    if t["k"] == "mirror":
        args["normal"] = np.array(t["normal"], dtype=float)
    keep = {k: v.copy() for k, v in args.items()}
    try:
        if t["k"] == "rotate":
            got = f.rotate(args["point"], t["angle"], args["axis"], args["origin"])
        elif t["k"] == "scale":
            got = f.scale(args["point"], t["ratio"], args["origin"])
        else:
            got = f.mirror(args["point"], args["normal"], args["origin"])
    except Exception as ex:
        raise Violation("transform-raised", f"{type(ex).__name__}: {ex}", error=type(ex).__name__, **facts) from None
    for k, v in args.items():
        if not np.array_equal(v, keep[k]):
            raise Violation("argument-mutated", f"functions.{t['k']} changed its '{k}' argument {keep[k]} -> {v}",
                            step=t["k"], argument=k, **facts)
    M, _s, _p = x.tf_matrix(t, None)
    want = rm.apply(M, keep["point"])
    if x.nrm(np.asarray(got, dtype=float) - want) > x.POS_TOL * (1 + float(np.max(np.abs(want))) + float(np.max(np.abs(keep["point"])))):
        raise Violation("vertex-moved", f"functions.{t['k']}({keep['point']}, ...) = {got}, expected {want}", **facts)
    if got is args["point"]:
        raise Violation("argument-mutated", "the result is the argument object itself", step=t["k"], argument="point", **facts)
    ctx.label(*x.tf_labels([dict(t, via="m")]))
    ctx.nt(x.tf_nontrivial([t]))


@st.composite
def array_case(draw, tkind):
    n = draw(st.integers(2, 6))
    return {"points": [draw(x.point3(10)) for _ in range(n)], "tf": draw(x.tf_list(tkind, False))}


def check_array(tkind):
    def check(case, ctx: Ctx) -> None:
        facts = {"entity": "array", "family": "helper", "tkind": tkind, "steps": [t["k"] for t in case["tf"]],
                 "vias": [t["via"] for t in case["tf"]]}
        given = np.array(case["points"], dtype=float)
        keep = given.copy()
        arr = Array(given)
        target = arr.copy() if tkind == "copy" else arr
        ap = x.apply_tf(target, case["tf"], facts)
        facts = tf_facts(facts, ap)
        want = rm.apply(ap.M, keep)
        tol = x.POS_TOL * (1 + float(np.max(np.abs(want))) + float(np.max(np.abs(keep))))
        if target.points.shape != want.shape or x._maxerr(np.asarray(target.points, dtype=float), want) > tol:
            raise Violation("control-points", f"Array points {target.points.tolist()}, expected {want.tolist()}",
                            edge_kind="array", **facts)
        if not np.array_equal(given, keep):
            raise Violation("argument-mutated", "the point list given to the constructor changed", step="constructor",
                            argument="points", **facts)
        if tkind == "copy" and not np.array_equal(arr.points, keep):
            raise Violation("original-changed-with-copy", "transforming the copy changed the original Array", **facts)
        ctx.label(*x.tf_labels(case["tf"]))
        ctx.nt(x.tf_nontrivial(case["tf"]))

    return check


# --------------------------------------------------------------------------------------------------
# cells

ALL_TK = ("translate", "rotate", "scale", "mirror", "compose", "copy")
THOROUGH_X = 50

_ID = {"ang": 0.0, "ax": [1.0, 0.0, 0.0], "o": [0.0, 0.0, 0.0], "size": 1.0}
_LIN = {"curve": "linear", "pts": [[0.25, 0.1, 0.0], [0.5, 0.2, 1.0], [0.75, 0.1, 2.0]], "extend": False, "ext": [0.0, 0.0]}
_SQ = [[-0.5, -0.5, 0.0], [0.5, -0.5, 0.0], [0.5, 0.5, 0.0], [-0.5, 0.5, 0.0]]


def _unit_conversions(make):
    """enumerated: mm <-> m by method and by list, about an origin != 0"""
    return [make({"k": "scale", "via": via, "ratio": r, "origin": [1.0, -2.0, 0.5]}) for r in (1e-3, 1e3) for via in ("m", "l")]


FIXED = {
    "C09/curve-linear/scale": _unit_conversions(lambda t: {"frame": _ID, "spec": _LIN, "tf": [t]}),
    "C09/curve-splinei/scale": _unit_conversions(lambda t: {"frame": _ID, "spec": dict(_LIN, curve="splinei"), "tf": [t]}),
    "C09/face-oncurve/scale": _unit_conversions(lambda t: {"ent": {"frame": _ID, "quad": _SQ, "proj": None, "edges": [
        dict(_LIN, kind="oncurve", n=4, repr="spline"), None, dict(_LIN, kind="oncurve", n=3, repr="polyLine", curve="splinei"), None]},
        "tf": [t]}),
    "C09/face-spline/scale": _unit_conversions(lambda t: {"ent": {"frame": _ID, "quad": _SQ, "proj": None, "edges": [
        {"kind": "spline", "pts": _LIN["pts"]}, None, None, None]}, "tf": [t]}),
}

CELLS = []
for _tk in ALL_TK:
    CELLS.append(Cell(f"C09/point/{_tk}", point_case(_tk), check_point(_tk), 40, 2000,
                      f"Point/Vector with projections, {_tk}: position = M(position), labels kept, constructor array untouched"))
    CELLS.append(Cell(f"C09/array/{_tk}", array_case(_tk), check_array(_tk), 40, 2000,
                      f"Array of 2-6 points, {_tk}: points = M(points), arguments untouched"))
    for _w in x.CURVES:
        CELLS.append(Cell(f"C09/curve-{_w}/{_tk}", curve_case(_w, _tk), check_curve(_w, _tk), 30, 1500,
                          f"{_w} curve, {_tk}: get_point at 9 fixed parameters, discretize(), length, a partial length, "
                          "closest parameter of its own points", FIXED.get(f"C09/curve-{_w}/{_tk}")))
CELLS.append(Cell("C09/helpers/functions", helper_case(), check_functions, 100, 5000,
                  "functions.rotate/scale/mirror: result = R-AFFINE image, argument arrays bit-identical"))

for _name, _ent in ENTS.items():
    for _tk in ALL_TK:
        _check = make_check_copy(_ent) if _tk == "copy" else make_check_tf(_ent, _tk)
        _q = _ent.quick if _tk != "copy" else max(2, _ent.quick // 2)
        CELLS.append(Cell(f"C09/{_name}/{_tk}", mesh_case(_ent, _tk), _check, _q, _q * THOROUGH_X,
                          f"{_ent.family} {_name}, {_tk}: G(T x) = M_T G(x) after Mesh.assemble()", FIXED.get(f"C09/{_name}/{_tk}")))
