"""C14 — the block quality measure depends only on the cell's shape (DESIGN.md section 4, C14)."""

from __future__ import annotations

import math
import warnings

import numpy as np
from hypothesis import strategies as st

from vf.core import Cell, Ctx, Violation
from vf.refmodel import HEX_EDGES, HEX_SIDES, hex_corner_jacobians, hex_rotations, rodrigues

warnings.simplefilter("ignore")

import classy_blocks as cb  # noqa: E402
from classy_blocks.optimize.grid import HexGrid, QuadGrid  # noqa: E402

RULE = (
    "A centre cell (hexahedron: sheared box with edge lengths over one decade plus per-node jitter, kept at scaled "
    "corner Jacobian >= 0.3 by construction; quadrilateral: sheared planar rectangle plus in-plane jitter, optionally "
    "tilted out of the xy plane) with 0-2 face/edge neighbours that share its nodes bit-identically is evaluated through "
    "HexGrid/QuadGrid twice: original against renumbered (each cell by one of its 24 / 4 rotational numberings), "
    "rigidly moved (Rodrigues rotation + translation of the whole assembly), or uniformly scaled (0.1..100). The summed "
    "grid quality and every single cell's quality must agree. Stretch: a cube (side 1..100, any numbering, any "
    "orientation) is stretched x k (1, 50] along each of its three geometric directions. Non-trivial: renumber = some "
    "cell non-identically renumbered and centre-cell direction lengths differing by > 1.5; rigid = rotation angle "
    "> 0.01 or non-zero shift; scale = asserted pair (smallest edge x smaller scale >= 1) with |ln s| > 0.05; stretch = "
    "k >= 1.5. Live: a 2-4 cell grid with 0-2 Translation/Symmetry links is evaluated, then moved 1-3 times through "
    "grid.update(); after each move the live per-cell and grid values must equal those of a fresh grid on the same "
    "coordinates and of its rigidly moved copy; non-trivial = a leader was moved whose follower belongs to a cell that "
    "does not contain the leader. distinct = distinct generated case."
)
ASSUMPTIONS = [
    "renumbering / rigid motion change the value only by rounding: tol = 1e-9*(1+|T|/l_min)*|q| + 1e-5*n_cells*"
    "sqrt(1+|T|/l_min) (arccos near 1 turns a relative rounding error eta ~ 1e-15*(1+|T|/l_min) into sqrt(2 eta) rad; "
    "x 0.0625 per degree x 24 triangles = 8e-6*sqrt(..) per cell if there were no guard; measured worst case over 3000 cases per cell is 1e-2 of this tolerance)",
    "uniform scaling changes the value only through the VSMALL = 1e-6 guards; first-order bound B = "
    "0.0781*(q+19.2n)*deg(sqrt(2V/c_min)) + 0.1014*(q+3.6n)*deg(min(sqrt(4V/l), 2V/l*cot_max)) + 2.7465*(|q|+3n)*"
    "0.4343*V/l with c_min the smallest |cross| of the 24n face-centre triangles, l the shortest edge, cot_max the "
    "largest |cot| of a face corner angle (all computed by the harness from the points), evaluated at both scales; "
    "tol = rounding tol + 2*(B1 + B2); asserted only when shortest edge * scale >= 1 at both scales ('well above the "
    "guard'), otherwise the case is only counted",
    "stretch: q(box) >= q(cube) - (rounding tol + 2*B(cube)); the three stretched boxes agree within the rounding tol",
    "mesh-far: translation through the public blocking path; tolerance 1e-5 n + 2e-12 (1 + distance/l_min) (|q| + 100 n); "
    "the distance is capped at 5e7 so that the spacing of doubles stays an order below the library's TOL = 1e-7",
    "an exception from quality() on a valid convex cell is a violation (the value is then not 'unchanged')",
    "live cells: moves are at most 0.15 of the smallest nominal edge per coordinate, always from the original place; a "
    "step after which a corner Jacobian drops below 0.2 (quad corner sine < 0.35) ends the case unjudged; links are "
    "independent (no follower that is also a leader or a follower of another link); SymmetryLink planes are the "
    "perpendicular bisector of leader-follower so the follower is on a grid point",
]

VSMALL = 1e-6
ROT = hex_rotations()
QROT = [(0, 1, 2, 3), (1, 2, 3, 0), (2, 3, 0, 1), (3, 0, 1, 2)]
CANON = [(0, 0, 0), (1, 0, 0), (1, 1, 0), (0, 1, 0), (0, 0, 1), (1, 0, 1), (1, 1, 1), (0, 1, 1)]
QCANON = [(0, 0), (1, 0), (1, 1), (0, 1)]
SIDES3 = [(0, -1), (0, 1), (1, -1), (1, 1), (2, -1), (2, 1)]  # (direction, sign) of a neighbour
SIDES2 = SIDES3[:4]
QUAD_EDGES = [(0, 1), (1, 2), (2, 3), (3, 0)]

# --------------------------------------------------------------------------------------------------
# generators


def _nodes(dim: int, sides, cells=None):
    """lattice nodes (integer tuples) of the centre cell [1,2]^dim and its neighbours, centre cell's first
    (or of an explicit list of cell origins)"""
    canon = CANON if dim == 3 else QCANON
    if cells is None:
        cells = [tuple([1] * dim)]
        for s in sides:
            d, sg = (SIDES3 if dim == 3 else SIDES2)[s]
            o = [1] * dim
            o[d] += sg
            cells.append(tuple(o))
    cells = [tuple(o) for o in cells]
    nodes: list = []
    for o in cells:
        for c in canon:
            n = tuple(o[a] + c[a] for a in range(dim))
            if n not in nodes:
                nodes.append(n)
    return cells, nodes


_floats11 = st.floats(-1.0, 1.0)


@st.composite
def assembly(draw, dim: int):
    nside = 2 * dim
    sides = draw(st.lists(st.integers(0, nside - 1), min_size=0, max_size=2, unique=True))
    base = 10.0 ** draw(st.floats(0.0, 1.5))
    size = [base * 10.0 ** draw(st.one_of(st.floats(0.0, 1.0), st.sampled_from([0.0, 0.25, 0.6, 1.0]))) for _ in range(dim)]
    if draw(st.integers(0, 4)) == 0:
        size = [base] * dim
    shear = [draw(st.floats(-0.5, 0.5)) for _ in range(3 if dim == 3 else 1)]
    if draw(st.integers(0, 3)) == 0:
        shear = [0.0] * len(shear)
    amp = draw(st.sampled_from([0.0, 0.02, 0.08, 0.12]))
    _, nodes = _nodes(dim, sides)
    jit = [draw(_floats11) for _ in range(dim * len(nodes))] if amp > 0 else []
    rots = [draw(st.integers(0, 23 if dim == 3 else 3)) for _ in range(1 + len(sides))]
    case = {"dim": dim, "sides": sides, "size": size, "shear": shear, "amp": amp, "jit": jit, "rots": rots}
    if dim == 2:
        case["tilt"] = draw(st.one_of(st.none(), _rotation()))
    return case


@st.composite
def _rotation(draw):
    axis = draw(st.sampled_from([[1.0, 0.0, 0.0], [0.0, 1.0, 0.0], [0.0, 0.0, 1.0], None]))
    if axis is None:
        axis = [draw(_floats11) for _ in range(3)]
        if sum(x * x for x in axis) < 0.01:
            axis = [0.3, -0.5, 0.8]
    angle = draw(st.one_of(st.floats(-math.pi, math.pi), st.sampled_from([math.pi / 2, math.pi, -math.pi / 2, 0.3])))
    return {"axis": axis, "angle": angle}


@st.composite
def renumber_case(draw, dim: int):
    case = draw(assembly(dim))
    m = 24 if dim == 3 else 4
    # the centre cell always gets a different numbering, neighbours any
    case["rots2"] = [(r + draw(st.integers(1 if i == 0 else 0, m - 1))) % m for i, r in enumerate(case["rots"])]
    return case


@st.composite
def rigid_case(draw, dim: int):
    case = draw(assembly(dim))
    case["motion"] = draw(_rotation())
    # shift in units of the smallest nominal edge, up to 100
    mag = draw(st.sampled_from([0.0, 1.0, 10.0, 100.0]))
    case["shift"] = [mag * draw(_floats11) for _ in range(3)]
    return case


@st.composite
def scale_case(draw, dim: int):
    case = draw(assembly(dim))
    case["scale"] = 10.0 ** draw(st.floats(-1.0, 2.0))
    return case


FAR_DIRS = [[0.6, -0.5, 0.6245], [-0.48, 0.64, 0.6], [0.7071, 0.7071, 0.0], [0.2, 0.3, -0.9327], [1.0, 0.0, 0.0]]


@st.composite
def mesh_far_case(draw):
    """the assembly as a user blocking (Loft per cell -> Mesh.assemble -> HexGrid.from_mesh), near the origin and far away"""
    case = draw(assembly(3))
    case["far"] = {"ratio": draw(st.sampled_from([1e3, 1e5, 1e6])), "dir": draw(st.integers(0, len(FAR_DIRS) - 1))}
    return case


LAYOUTS = {
    3: [[[0, 0, 0], [1, 0, 0]], [[0, 0, 0], [1, 0, 0], [2, 0, 0]], [[0, 0, 0], [0, 0, 1], [0, 0, 2]],
        [[0, 0, 0], [1, 0, 0], [2, 0, 0], [3, 0, 0]], [[0, 0, 0], [1, 0, 0], [0, 1, 0]],
        [[0, 0, 0], [0, 1, 0], [0, 1, 1]], [[0, 0, 0], [1, 0, 0], [0, 1, 0], [1, 1, 0]]],
    2: [[[0, 0], [1, 0]], [[0, 0], [1, 0], [2, 0]], [[0, 0], [0, 1], [0, 2]], [[0, 0], [1, 0], [2, 0], [3, 0]],
        [[0, 0], [1, 0], [0, 1]], [[0, 0], [1, 0], [0, 1], [1, 1]]],
}


@st.composite
def live_case(draw, dim: int):
    """2-4 cells; 0-2 links (leader, follower by node selector); 1-3 moves through grid.update"""
    cells = draw(st.sampled_from(LAYOUTS[dim]))
    _, nodes = _nodes(dim, [], cells)
    base = 10.0 ** draw(st.floats(0.0, 1.5))
    size = [base * 10.0 ** draw(st.sampled_from([0.0, 0.0, 0.25, 0.6])) for _ in range(dim)]
    amp = draw(st.sampled_from([0.0, 0.04, 0.08]))
    case = {
        "dim": dim, "sides": [], "cells": cells, "size": size,
        "shear": [draw(st.floats(-0.4, 0.4)) for _ in range(3 if dim == 3 else 1)],
        "amp": amp, "jit": [draw(_floats11) for _ in range(dim * len(nodes))] if amp > 0 else [],
        "rots": [draw(st.integers(0, 23 if dim == 3 else 3)) for _ in cells],
        "links": [
            {"type": draw(st.sampled_from(["translation", "symmetry"])), "leader": draw(st.integers(0, 63)),
             "follower": draw(st.integers(0, 63)), "far": draw(st.booleans())}
            for _ in range(draw(st.integers(0, 2)))
        ],
        "motion": draw(_rotation()), "shift": [draw(_floats11) * 3 for _ in range(3)],
    }
    case["moves"] = [
        {"node": draw(st.integers(0, 63)), "leader_of": draw(st.one_of(st.none(), st.integers(0, 1))),
         "offset": [0.15 * draw(_floats11) for _ in range(dim)]}
        for _ in range(draw(st.integers(1, 3)))
    ]
    if dim == 2:
        case["tilt"] = draw(st.one_of(st.none(), _rotation()))
    return case


@st.composite
def stretch_case(draw):
    return {
        "side": 10.0 ** draw(st.floats(0.0, 2.0)),
        "k": draw(st.one_of(st.floats(1.0, 50.0, exclude_min=True), st.sampled_from([1.001, 1.5, 2.0, 5.0, 50.0]))),
        "rot": draw(st.integers(0, 23)),
        "motion": draw(st.one_of(st.none(), _rotation())),
    }


# --------------------------------------------------------------------------------------------------
# building


def build(case):
    """-> (points (n,3), list of cells as node-index lists in canonical numbering)"""
    dim = case["dim"]
    cells, nodes = _nodes(dim, case["sides"], case.get("cells"))
    size = case["size"]
    if dim == 3:
        sxy, sxz, syz = case["shear"]
        A = np.array([[1.0, sxy, sxz], [0.0, 1.0, syz], [0.0, 0.0, 1.0]]) @ np.diag(size)
    else:
        A = np.array([[1.0, case["shear"][0]], [0.0, 1.0]]) @ np.diag(size)
    lattice = np.array(nodes, dtype=float) @ A.T
    canon = CANON if dim == 3 else QCANON
    addr = [[nodes.index(tuple(o[a] + c[a] for a in range(dim))) for c in canon] for o in cells]
    jit = np.array(case["jit"], dtype=float).reshape(-1, dim) if case["jit"] else np.zeros_like(lattice)
    amp = case["amp"] * min(size)
    # validity by construction: the jitter is halved until every corner of every cell is well right-handed
    for _ in range(6):
        pts = lattice + amp * jit
        p3 = pts if dim == 3 else np.column_stack([pts, np.zeros(len(pts))])
        if dim == 3:
            ok = all(hex_corner_jacobians(p3[a]).min() >= 0.3 for a in addr)
        else:
            ok = all(_quad_sines(p3[a]).min() >= 0.5 for a in addr)
        if ok:
            break
        amp *= 0.5
    else:
        p3 = lattice if dim == 3 else np.column_stack([lattice, np.zeros(len(lattice))])
    if dim == 2 and case.get("tilt"):
        p3 = p3 @ rodrigues(case["tilt"]["axis"], case["tilt"]["angle"]).T
    return np.array(p3, dtype=float), addr


def _quad_sines(p) -> np.ndarray:
    out = np.zeros(4)
    for i in range(4):
        a, b = p[(i + 1) % 4] - p[i], p[(i - 1) % 4] - p[i]
        out[i] = np.cross(a, b)[2] / (np.linalg.norm(a) * np.linalg.norm(b))
    return out


def renumbered(addr, rots, dim):
    table = ROT if dim == 3 else QROT
    return [[a[table[r][i]] for i in range(len(a))] for a, r in zip(addr, rots)]


# --------------------------------------------------------------------------------------------------
# evaluation through the library


def evaluate(points, addr, dim, facts):
    """-> (grid quality, [cell qualities]); a raised exception is a violation"""
    grid_class = HexGrid if dim == 3 else QuadGrid
    try:
        grid = grid_class(np.array(points, dtype=float), [list(a) for a in addr])
        total = float(grid.quality)
        each = [float(c.quality) for c in grid.cells]
    except Exception as ex:
        raise Violation("quality-raises", f"quality of a valid cell raised {type(ex).__name__}: {ex}", **facts) from None
    if not all(math.isfinite(x) for x in [total, *each]):
        raise Violation("quality-not-finite", f"quality {total} / {each}", **facts)
    return total, each


# --------------------------------------------------------------------------------------------------
# geometry of the case, computed by the harness (for tolerances, labels and known-finding facts only)


def shape_numbers(points, addr, dim):
    """shortest edge, smallest |cross| of a face-centre triangle (hex), largest |cot| of a face corner angle"""
    l_min = math.inf
    c_min = math.inf
    cot_max = 0.0
    for a in addr:
        p = points[a]
        edges = HEX_EDGES if dim == 3 else QUAD_EDGES
        l_min = min(l_min, min(float(np.linalg.norm(p[j] - p[i])) for i, j in edges))
        faces = list(HEX_SIDES.values()) if dim == 3 else [(0, 1, 2, 3)]
        for f in faces:
            fp = p[list(f)]
            fc = fp.mean(axis=0)
            for k in range(4):
                if dim == 3:
                    c_min = min(c_min, float(np.linalg.norm(np.cross(fp[k] - fc, fp[(k + 1) % 4] - fc))))
                u, v = fp[(k + 1) % 4] - fp[k], fp[(k - 1) % 4] - fp[k]
                cs = float(u @ v)
                sn = float(np.linalg.norm(np.cross(u, v)))
                cot_max = max(cot_max, abs(cs) / max(sn, 1e-300))
    return l_min, c_min, cot_max


def quad_aligned(points, addr) -> bool:
    """True when some side normal of some quadrilateral is parallel (within 1e-6 rad) to the direction the library
    measures non-orthogonality against (cell centre - side centre, or - neighbour centre)"""
    centres = [points[a].mean(axis=0) for a in addr]
    for ci, a in enumerate(addr):
        p = points[a]
        nrm = np.cross(p[1] - p[0], p[3] - p[0])
        for i, j in QUAD_EDGES:
            other = [k for k, b in enumerate(addr) if k != ci and {a[i], a[j]} <= set(b)]
            target = centres[other[0]] if other else 0.5 * (p[i] + p[j])
            c2c = centres[ci] - target
            side_n = np.cross(nrm, p[j] - p[i])
            s = np.linalg.norm(np.cross(side_n, c2c)) / (np.linalg.norm(side_n) * np.linalg.norm(c2c))
            if s < 1e-6:
                return True
    return False


def tol_round(q: float, ncells: int, shift_over_l: float = 0.0) -> float:
    return 1e-9 * (1 + shift_over_l) * abs(q) + 1e-5 * ncells * math.sqrt(1 + shift_over_l)


def guard_bound(q: float, ncells: int, dim: int, l_min: float, c_min: float, cot_max: float) -> float:
    """first-order bound on |q - q(without the VSMALL guards)|, see ASSUMPTIONS"""
    q = abs(q)
    deg = 180.0 / math.pi
    b = 2.7465 * (q + 3 * ncells) * 0.4343 * VSMALL / l_min
    if dim == 3:
        b += 0.0781 * (q + 19.2 * ncells) * deg * math.sqrt(2 * VSMALL / c_min)
        b += 0.1014 * (q + 3.6 * ncells) * deg * min(math.sqrt(4 * VSMALL / l_min), 2 * VSMALL / l_min * cot_max)
    return b


def compare(kind, q1, e1, q2, e2, tol, facts, ctx):
    worst = max([abs(q1 - q2)] + [abs(a - b) for a, b in zip(e1, e2)])
    if worst > tol:
        raise Violation(kind, f"quality {q1!r} -> {q2!r} (cells {e1} -> {e2}), tolerance {tol:.3g}",
                        q1=q1, q2=q2, diff=worst, tol=tol, **facts)
    ctx.info = {"q1": q1, "q2": q2, "tol": tol}


def common_facts(case, points, addr):
    dim = case["dim"]
    facts = {"dim": "hex" if dim == 3 else "quad", "neighbours": len(case["sides"]), "amp": case["amp"]}
    if dim == 2:
        facts["aligned"] = quad_aligned(points, addr)
    return facts


def direction_ratio(points, cell) -> float:
    p = points[cell]
    if len(cell) == 8:
        from vf.refmodel import HEX_EDGES_BY_AXIS

        lens = [np.mean([np.linalg.norm(p[j] - p[i]) for i, j in HEX_EDGES_BY_AXIS[ax]]) for ax in range(3)]
    else:
        lens = [np.mean([np.linalg.norm(p[1] - p[0]), np.linalg.norm(p[2] - p[3])]),
                np.mean([np.linalg.norm(p[3] - p[0]), np.linalg.norm(p[2] - p[1])])]
    return float(max(lens) / min(lens))


def _labels(case, ctx, points, addr):
    ctx.label(f"neighbours={len(case['sides'])}")
    ctx.label("jittered" if case["amp"] > 0 and case["jit"] else "affine")
    ctx.label("elongated" if direction_ratio(points, addr[0]) > 1.5 else "near-equal-sides")


# --------------------------------------------------------------------------------------------------
# checks


def check_renumber(case, ctx: Ctx) -> None:
    dim = case["dim"]
    points, addr = build(case)
    facts = common_facts(case, points, addr)
    a1 = renumbered(addr, case["rots"], dim)
    a2 = renumbered(addr, case["rots2"], dim)
    facts.update(rots=case["rots"], rots2=case["rots2"])
    q1, e1 = evaluate(points, a1, dim, facts)
    q2, e2 = evaluate(points, a2, dim, facts)
    l_min, _, _ = shape_numbers(points, addr, dim)
    reach = float(np.abs(points).max()) / l_min
    compare("renumbering-changes-quality", q1, e1, q2, e2, tol_round(max(abs(q1), abs(q2)), len(addr), reach), facts, ctx)
    _labels(case, ctx, points, addr)
    ctx.nt(case["rots"] != case["rots2"] and direction_ratio(points, addr[0]) > 1.5)


def check_rigid(case, ctx: Ctx) -> None:
    dim = case["dim"]
    points, addr = build(case)
    facts = common_facts(case, points, addr)
    l_min, _, _ = shape_numbers(points, addr, dim)
    shift = np.array(case["shift"]) * min(case["size"])
    R = rodrigues(case["motion"]["axis"], case["motion"]["angle"])
    moved = points @ R.T + shift
    a1 = renumbered(addr, case["rots"], dim)
    facts.update(angle=case["motion"]["angle"], shift=shift.tolist())
    q1, e1 = evaluate(points, a1, dim, facts)
    q2, e2 = evaluate(moved, a1, dim, facts)
    reach = float(np.linalg.norm(shift) + np.abs(points).max()) / l_min
    compare("rigid-motion-changes-quality", q1, e1, q2, e2, tol_round(max(abs(q1), abs(q2)), len(addr), reach), facts, ctx)
    _labels(case, ctx, points, addr)
    ctx.label("shifted" if np.any(shift != 0) else "rotation-only")
    ctx.nt(abs(case["motion"]["angle"]) > 0.01 or bool(np.any(shift != 0)))


def check_scale(case, ctx: Ctx) -> None:
    dim = case["dim"]
    points, addr = build(case)
    facts = common_facts(case, points, addr)
    s = case["scale"]
    l_min, c_min, cot_max = shape_numbers(points, addr, dim)
    a1 = renumbered(addr, case["rots"], dim)
    facts.update(scale=s, l_min=l_min)
    q1, e1 = evaluate(points, a1, dim, facts)
    q2, e2 = evaluate(points * s, a1, dim, facts)
    _labels(case, ctx, points, addr)
    if l_min * min(1.0, s) < 1.0:
        ctx.label("below-guard-margin(not asserted)")
        return
    n = len(addr)
    qm = max(abs(q1), abs(q2))
    tol = tol_round(qm, n, float(np.abs(points).max()) / l_min) + 2 * (
        guard_bound(qm, n, dim, l_min, c_min, cot_max) + guard_bound(qm, n, dim, l_min * s, c_min * s * s, cot_max)
    )
    compare("scaling-changes-quality", q1, e1, q2, e2, tol, facts, ctx)
    ctx.label("asserted")
    ctx.nt(abs(math.log(s)) > 0.05)


def mesh_grid_quality(points, addr, facts):
    """quality through the public blocking path; cells come in the order of the operations"""
    try:
        mesh = cb.Mesh()
        for a in addr:
            mesh.add(cb.Loft(cb.Face(points[a[:4]]), cb.Face(points[a[4:]])))
        mesh.assemble()
        grid = HexGrid.from_mesh(mesh)
        each = [float(c.quality) for c in grid.cells]
        total = float(grid.quality)
    except Exception as ex:
        raise Violation("quality-raises", f"Mesh -> HexGrid.from_mesh -> quality raised {type(ex).__name__}: {ex}",
                        **facts) from None
    if len(each) != len(addr) or not all(math.isfinite(x) for x in [total, *each]):
        raise Violation("quality-not-finite", f"quality {total} / {each} for {len(addr)} blocks", **facts)
    return total, each


def check_mesh_far(case, ctx: Ctx) -> None:
    points, addr = build(case)
    a1 = renumbered(addr, case["rots"], 3)
    l_min, _, _ = shape_numbers(points, addr, 3)
    # placed `ratio` smallest edges away, but never beyond 5e7 (doubles are 7.5e-9 apart there, an order below the
    # library's absolute TOL = 1e-7 for merging vertices)
    distance = min(case["far"]["ratio"] * min(case["size"]), 5e7)
    shift = distance * np.array(FAR_DIRS[case["far"]["dir"]])
    facts = common_facts(case, points, addr)
    facts.update(distance=distance, distance_in_edges=distance / l_min)
    q1, e1 = mesh_grid_quality(points, a1, {**facts, "where": "near"})
    q2, e2 = mesh_grid_quality(points + shift, a1, {**facts, "where": "far"})
    q0, e0 = evaluate(points, a1, 3, facts)  # the same cells as a bare grid
    n = len(addr)
    reach = float(distance + np.abs(points).max()) / l_min
    qm = max(abs(q1), abs(q2))
    # a coordinate rounding of 2.2e-16 * reach (relative to an edge) turns directions by that much; 100 x the first-order
    # effect on the sum (0.08 q per degree) and on the 24 n near-zero angles
    tol = 1e-5 * n + 2e-12 * (1 + reach) * (qm + 100 * n)
    compare("translation-changes-quality", q1, e1, q2, e2, tol, facts, ctx)
    compare("mesh-grid-differs-from-bare-grid", q1, e1, q0, e0, tol_round(qm, n, float(np.abs(points).max()) / l_min), facts, ctx)
    _labels(case, ctx, points, addr)
    ctx.label(f"far-ratio={case['far']['ratio']:g}" + ("(capped at 5e7)" if distance == 5e7 else ""))
    ctx.nt(distance / l_min >= 1e4)


def _cells_valid(points, addr, dim) -> bool:
    if dim == 3:
        return all(hex_corner_jacobians(points[a]).min() >= 0.2 for a in addr)
    for a in addr:
        p = points[a]
        n = np.cross(p[1] - p[0], p[3] - p[0])
        n = n / np.linalg.norm(n)
        for i in range(4):
            u, v = p[(i + 1) % 4] - p[i], p[(i - 1) % 4] - p[i]
            if np.cross(u, v) @ n / (np.linalg.norm(u) * np.linalg.norm(v)) < 0.35:
                return False
    return True


def check_live(case, ctx: Ctx) -> None:
    """a grid that has been evaluated and then moved through grid.update() reports, for every cell, the value a
    freshly built grid gives for the very same coordinates (and for a rigidly moved copy of them)"""
    from classy_blocks.optimize.links import SymmetryLink, TranslationLink

    dim = case["dim"]
    points, addr = build(case)
    addr = renumbered(addr, case["rots"], dim)
    n = len(points)
    facts = {"dim": "hex" if dim == 3 else "quad", "cells": len(addr), "links": [], "step": 0}
    users = [{ci for ci, a in enumerate(addr) if p in a} for p in range(n)]
    tilt = np.eye(3)
    if dim == 2 and case.get("tilt"):
        tilt = rodrigues(case["tilt"]["axis"], case["tilt"]["angle"])
    R = rodrigues(case["motion"]["axis"], case["motion"]["angle"])
    shift = np.array(case["shift"]) * min(case["size"])
    l_min, _, _ = shape_numbers(points, addr, dim)
    reach = float(np.abs(points).max() + np.linalg.norm(shift)) / l_min

    grid_class = HexGrid if dim == 3 else QuadGrid
    leaders = []
    far_link = False
    try:
        grid = grid_class(points.copy(), [list(a) for a in addr])
        for spec in case["links"]:
            lead = spec["leader"] % n
            others = [p for p in range(n) if p != lead]
            far = [p for p in others if users[p] - users[lead]]
            pool = far if (spec["far"] and far) else others
            foll = pool[spec["follower"] % len(pool)]
            if any(foll == f or foll == ld for ld, f in leaders) or any(lead == f for _, f in leaders):
                continue  # keep links independent of each other (no chains, one leader per follower)
            lp, fp = points[lead].copy(), points[foll].copy()
            if spec["type"] == "translation":
                link = TranslationLink(lp, fp)
            else:
                link = SymmetryLink(lp, fp, fp - lp, 0.5 * (lp + fp))
            grid.add_link(link)
            leaders.append((lead, foll))
            facts["links"].append(spec["type"])
            far_link = far_link or bool(users[foll] - users[lead])
    except Exception as ex:
        raise Violation("grid-setup-raises", f"{type(ex).__name__}: {ex}", **facts) from None

    def compare_with_fresh(step):
        facts["step"] = step
        live_q, live_e = None, None
        try:
            live_e = [float(c.quality) for c in grid.cells]
            live_q = float(grid.quality)
        except Exception as ex:
            raise Violation("quality-raises", f"live grid: {type(ex).__name__}: {ex}", **facts) from None
        now = np.array(grid.points, dtype=float)
        q1, e1 = evaluate(now, addr, dim, facts)
        q2, e2 = evaluate(now @ R.T + shift, addr, dim, facts)
        tol = tol_round(max(abs(q1), abs(q2), abs(live_q)), len(addr), reach)
        compare("live-grid-differs-from-fresh", live_q, live_e, q1, e1, tol, {**facts, "against": "fresh"}, ctx)
        compare("live-grid-differs-from-fresh", live_q, live_e, q2, e2, tol, {**facts, "against": "fresh-moved"}, ctx)

    compare_with_fresh(0)  # also fills whatever the library caches
    moved_far_leader = False
    for step, mv in enumerate(case["moves"], start=1):
        node = mv["node"] % n
        if mv["leader_of"] is not None and leaders:
            node = leaders[mv["leader_of"] % len(leaders)][0]
        off = np.zeros(3)
        off[:dim] = np.array(mv["offset"]) * min(case["size"])
        target = points[node] + tilt @ off  # always relative to the original place: moves do not accumulate
        try:
            grid.update(node, target)
        except Exception as ex:
            raise Violation("update-raises", f"grid.update: {type(ex).__name__}: {ex}", **facts) from None
        if not _cells_valid(np.array(grid.points, dtype=float), addr, dim):
            ctx.label("left-the-domain(stopped)")
            break
        compare_with_fresh(step)
        if any(node == ld and users[f] - users[ld] for ld, f in leaders) and np.any(off != 0):
            moved_far_leader = True
    ctx.label(f"links={len(leaders)}", f"cells={len(addr)}", f"moves={len(case['moves'])}")
    ctx.label("far-follower-link" if far_link else "no-far-follower-link")
    ctx.label("moved-leader-of-far-follower" if moved_far_leader else "no-far-leader-move")
    ctx.nt(moved_far_leader)


def check_stretch(case, ctx: Ctx) -> None:
    a, k = case["side"], case["k"]
    cube = np.array(CANON, dtype=float) * a
    addr = renumbered([list(range(8))], [case["rot"]], 3)
    R = np.eye(3) if case["motion"] is None else rodrigues(case["motion"]["axis"], case["motion"]["angle"])
    facts = {"dim": "hex", "side": a, "k": k, "rot": case["rot"]}
    q0, _ = evaluate(cube @ R.T, addr, 3, facts)
    qs = []
    for d in range(3):
        f = np.ones(3)
        f[d] = k
        q, _ = evaluate((cube * f) @ R.T, addr, 3, {**facts, "direction": d})
        qs.append(q)
    facts["q_cube"] = q0
    facts["q_stretched"] = qs
    tr = tol_round(max(qs), 1, math.sqrt(3) * k)
    if max(qs) - min(qs) > tr:
        raise Violation("stretch-direction-dependent",
                        f"cube {a} stretched x{k}: quality {qs} for the three directions (cube {q0})", **facts)
    bound = tr + 2 * guard_bound(q0, 1, 3, a, 0.5 * a * a, 0.0)
    for d in range(3):
        if qs[d] < q0 - bound:
            raise Violation("stretch-lowers-quality", f"cube {q0} -> stretched x{k} along {d}: {qs[d]}",
                            direction=d, **facts)
    ctx.label("rotated" if case["motion"] else "axis-aligned", f"numbering={'identity' if case['rot'] == 0 else 'other'}")
    ctx.nt(k >= 1.5)


# --------------------------------------------------------------------------------------------------

_STRETCH_FIXED = [
    {"side": 1.0, "k": 5.0, "rot": 0, "motion": None},  # ledger F22
    {"side": 10.0, "k": 2.0, "rot": 0, "motion": None},
]

CELLS = [
    Cell("C14/hex/renumber", renumber_case(3), check_renumber, 1500, 60000,
         "two of the 24 numberings per cell, 0-2 neighbours; grid and per-cell quality agree (rounding tolerance)"),
    Cell("C14/hex/rigid", rigid_case(3), check_rigid, 1000, 40000,
         "rotation about a drawn axis + shift up to 100 smallest edges of the whole assembly"),
    Cell("C14/hex/scale", scale_case(3), check_scale, 1000, 40000,
         "uniform scale 0.1..100; asserted when the shortest edge stays >= 1 (1e6 x VSMALL), guard-derived tolerance"),
    Cell("C14/hex/stretch", stretch_case(), check_stretch, 500, 20000,
         "cube x k along each geometric direction: never lower than the cube, equal for the three directions",
         fixed_cases=_STRETCH_FIXED),
    Cell("C14/hex/mesh-far", mesh_far_case(), check_mesh_far, 250, 10000,
         "the assembly as Lofts -> Mesh.assemble() -> HexGrid.from_mesh(), near the origin and 1e3..1e6 smallest edges away "
         "(at most 5e7): same grid and per-cell quality; also equal to the bare grid on the same points"),
    Cell("C14/hex/live", live_case(3), check_live, 300, 12000,
         "2-4 hexahedra, 0-2 Translation/Symmetry links, quality evaluated, then 1-3 grid.update() moves: live values = "
         "fresh grid on the same coordinates = rigidly moved fresh grid"),
    Cell("C14/quad/live", live_case(2), check_live, 300, 12000,
         "the same for 2-4 planar quadrilaterals (moves stay in the plane)"),
    Cell("C14/quad/renumber", renumber_case(2), check_renumber, 800, 30000,
         "two of the 4 cyclic numberings per quadrilateral, 0-2 neighbours, plane optionally tilted"),
    Cell("C14/quad/rigid", rigid_case(2), check_rigid, 800, 30000,
         "rotation + shift of a planar quadrilateral assembly in space"),
    Cell("C14/quad/scale", scale_case(2), check_scale, 600, 25000,
         "uniform scale 0.1..100 of a quadrilateral assembly"),
]
