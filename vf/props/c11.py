"""C11 — predefined shapes give right-handed, conformal, fully choppable blockings (DESIGN.md section 4, C11)."""

from __future__ import annotations

import math
from typing import Any, Dict, List

import numpy as np
from hypothesis import strategies as st

from vf import refmodel as rm
from vf import x_shapes as xs
from vf.core import Cell, Ctx, Violation
from vf.x_shapes import D, W, X, Y, Z, Circle, Spec

import classy_blocks as cb
from classy_blocks.base.exceptions import UndefinedGradingsError

RULE = (
    "One cell per shape class. A case = parameters in the class's canonical frame (radii 0.1..10, lengths, sweep "
    "angles 10..170 deg, 3..12 segments, 3..6 branches) + a rigid placement (general rotation axis and angle, offset "
    "up to 10; 1 in 6 axis-aligned) + a set of chops (counts 1..7, or start sizes) + in half of the cases a second "
    "motion applied to the built entity with the library's rotate / scale (0.3..3, half of them) / translate; in the "
    "chain cells also to the start shape before anything is chained to it. The defining points are mapped "
    "to the world by the harness (Rodrigues) and handed to the constructor, so the expected circles, block and "
    "vertex counts are known independently. Chains: a start shape and up to three chain / expand / contract / fill / "
    "Hemisphere.chain steps drawn from a symbolic model of free ends. Non-trivial: placement not axis-aligned (chains: "
    "and >= 2 shapes); distinct = distinct generated case."
)
ASSUMPTIONS = [
    "right-handed = all eight scaled corner Jacobians (vf.refmodel.hex_corner_jacobians, OpenFOAM numbering) of the "
    "straight-edged block exceed 1e-9; the smallest value on the corners of the generated domain is 0.04 (Elbow swept "
    "170 deg with bend radius 1.3 R), label minJ<0.03 counts anything below",
    "expected vertex counts come from the documented blockings: four-core disk 17 points, half disk 11, quarter 7, "
    "one-core 8, wrapped 12, oval 22, ring 2 per segment, hemisphere 35, joint with k branches 23 k + 5",
    "a point is on an intended circle when its distance from the centre and from the plane differ by <= 1e-6 R + 5e-8 "
    "(8 printed decimals); arcs are read from the written file",
    "normals and rotation axes are direction arguments: callers pass vectors of any length (0.33 .. 3 here, never 1); "
    "the constructors are expected to use their direction only",
    "callers sweep a sketch in the direction of its normal (Extrude amount > 0, Revolve/Elbow turning towards the "
    "normal), give RevolvedRing cross-sections in the documented point order and keep the joint's pipes >= 3 radii long",
    "'chops suffice': with count chops any exception from write is a violation; with size chops only "
    "UndefinedGradingsError is (two size chops in one family may legitimately resolve to different counts: labelled "
    "size-chop-conflict)",
    "Grid sketches, single operations and Shell have no documented shape-level chop set: their write is attempted with "
    "harness-chosen chops and a failure is only labelled",
    "moving and resizing a built entity with rotate(angle, axis, origin) / scale(ratio, origin) / translate is a valid way "
    "to reach a placement and size; the expected circles, radii, axes of revolution and interfaces are mapped with the "
    "same similarity built from vf.refmodel (m_rotate, m_scale, m_translate)",
    "side edges of RevolvedShape / RevolvedStack / Revolve are outer arcs too: a vertex and its image under the "
    "revolution must be joined by an arc about the axis of revolution (same tolerance as the circles)",
    "chained shapes: the interface is the set of source vertices lying on the interface plane / cylinder computed by "
    "the harness from the chain parameters",
]


# --------------------------------------------------------------------------------------------------
# the common oracle


def base_facts(case, spec: Spec) -> Dict[str, Any]:
    return {"shape": spec.name, "aligned": bool(case["place"].get("aligned")), "chop_mode": case["chops"]["mode"],
            "moved": case.get("post") is not None, "mirrored": bool((case.get("post") or {}).get("mirror"))}


def run_spec(case, ctx: Ctx, build) -> None:
    try:
        spec: Spec = build(case)
    except Exception as ex:  # noqa: BLE001
        raise Violation("construction-failed", f"valid parameters rejected: {type(ex).__name__}: {str(ex)[:200]}",
                        cell_case=case.get("cls") or case.get("kind")) from None
    facts = base_facts(case, spec)
    post = case.get("post")
    if post is not None:
        # the built entity is moved with the library's own rotate / translate; the ground truth follows by Rodrigues
        try:
            for e in spec.entities:
                xs.move_entity(e, post)
        except Exception as ex:  # noqa: BLE001
            raise Violation("transform-failed", f"rotate/translate of the built entity raised {type(ex).__name__}: "
                            f"{str(ex)[:200]}", **facts) from None
        spec.transform(xs.post_matrix(post))
    if spec.chop is not None:
        try:
            spec.chop(case["chops"])
        except Exception as ex:  # noqa: BLE001
            raise Violation("chop-call-failed", f"{type(ex).__name__}: {str(ex)[:200]}", **facts) from None
    mesh = cb.Mesh()
    for e in spec.entities:
        mesh.add(e)
    try:
        mesh.assemble()
    except Exception as ex:  # noqa: BLE001
        raise Violation("assemble-failed", f"{type(ex).__name__}: {str(ex)[:200]}", **facts) from None

    # (1) on the assembled model: counts, handedness, conformity
    pos, hexes = xs.live_hexes(mesh)
    xs.check_counts(len(hexes), len(pos), spec.n_blocks, spec.n_vertices, facts)
    worst = xs.check_jacobians(pos, hexes, facts)
    xs.check_connected(hexes, facts)

    # (2) the documented chops suffice
    dec = None
    if spec.chop is not None:
        if spec.chop_claimed and case["chops"]["mode"] == "count":
            dec = xs.must_write(mesh, facts)
        else:
            try:
                dec = xs.must_write(mesh, facts)
            except Violation as v:
                if spec.chop_claimed and v.facts.get("error") == UndefinedGradingsError.__name__:
                    raise
                if v.kind != "write-failed":
                    raise
                ctx.label("size-chop-conflict" if spec.chop_claimed else "unclaimed-write-failed")

    # (3) on the written file: same counts, intended circles, agreeing counts on shared edges
    if dec is not None:
        xs.check_counts(len(dec.hexes), len(dec.pos), spec.n_blocks, spec.n_vertices, facts)
        xs.check_jacobians(dec.pos, dec.hexes, facts)
        arcs = xs.check_circles(dec, spec.circles, facts)
        side = xs.check_revolve_arcs(dec, spec.revolves, spec.size, facts)
        if spec.outlines:
            ctx.label("outline-edges-checked" if xs.check_outlines(dec, spec.outlines, facts) else "outline-edges-none")
        xs.check_shared_edge_counts(dec, facts)
        ctx.label("written", f"arcs-checked={'0' if arcs == 0 else '>0'}")
        if spec.revolves:
            ctx.label("side-arcs-checked" if side else "side-arcs-none", "revolved+moved" if post is not None else "revolved")
        extra = spec.extra.get("file_check")
        if extra is not None:
            extra(dec, facts, spec)
    ctx.nt(xs.is_general(case["place"]))
    ctx.label("general" if xs.is_general(case["place"]) else "aligned", "chops:" + case["chops"]["mode"])
    ctx.label("moved-after-construction" if post is not None else "as-constructed")
    if post is not None:
        ctx.label("post-scaled" if post.get("scale") else "post-rigid")
        if post.get("mirror"):
            ctx.label("post-mirrored")
    ctx.label(f"far-ratio={xs.far_ratio(case):.0e}" if xs.far_ratio(case) else "near-origin")
    ctx.label("minJ<0.03" if worst < 0.03 else "minJ<0.1" if worst < 0.1 else "minJ>=0.1")
    for lb in spec.extra.get("labels", []):
        ctx.label(lb)


def with_common(strategy):
    return st.tuples(strategy, xs.placements(), xs.chop_sets(), xs.post_transforms(), xs.far_offsets(),
                     xs.far_offsets()).map(
        lambda t: xs.settle_far({**t[0], "place": t[1], "chops": t[2], "post": t[3]}, t[4], t[5])
    )


# --------------------------------------------------------------------------------------------------
# round shapes, joints


def build_round(case) -> Spec:
    spec = xs.build_round(case, case["place"])
    if case["cls"] == "Hemisphere":
        def sphere_check(dec, facts, spec):
            c, r = spec.extra["sphere"]
            tol = 1e-6 * r + 5e-8
            outer = [i for i, p in enumerate(dec.pos) if abs(np.linalg.norm(p - c) - r) <= tol]
            if len(outer) != 17:
                raise Violation("sphere-vertices", f"{len(outer)} vertices at the sphere radius, expected 17", **facts)
            geo = list(dec.bmd.geometry.values())
            if len(geo) != 1:
                raise Violation("sphere-geometry", f"{len(geo)} geometry entries, expected one sphere", **facts)
            entry = {row[0]: row[1:] for row in geo[0]}
            centre = np.array([float(x) for x in entry["centre"][0].strip("()").split()])
            if np.linalg.norm(centre - c) > tol or abs(float(entry["radius"][0]) - r) > tol:
                raise Violation("sphere-geometry", f"sphere {entry} is not centre {c.tolist()} radius {r}", **facts)
            on = set(outer)
            if len(dec.bmd.faces) != 12 or any(not set(ids) <= on for ids, _ in dec.bmd.faces):
                raise Violation("sphere-faces", "projected faces are not the 12 outer quads", **facts)

        spec.extra["file_check"] = sphere_check
    if "n" in case:
        spec.extra["labels"] = [f"n={case['n']}"]
    return spec


def build_joint(case) -> Spec:
    spec = xs.build_joint(case, case["place"])
    spec.extra["labels"] = [f"branches={len(spec.circles)}"]
    return spec


# --------------------------------------------------------------------------------------------------
# single operations (canonical frames documented in place)


@st.composite
def op_params(draw, cls: str):
    r = draw(xs.radii)
    p: Dict[str, Any] = {"cls": cls, "r": r}
    if cls == "Box":
        p["a"] = [draw(st.floats(-3.0, 3.0)) for _ in range(3)]
        p["d"] = [draw(st.floats(0.1, 3.0)) * draw(st.sampled_from([1, -1])) for _ in range(3)]
    else:
        p["w"] = draw(st.floats(0.3, 3.0))
        p["h"] = draw(st.floats(0.3, 3.0))
        p["jit"] = [draw(st.floats(-1.0, 1.0)) for _ in range(8)]
    if cls == "Extrude":
        p["amount"] = draw(st.floats(0.2, 3.0))
        p["lean"] = draw(st.one_of(st.none(), st.tuples(st.floats(-0.5, 0.5), st.floats(-0.5, 0.5)).map(list)))
    if cls == "Revolve":
        p["angle"] = math.radians(draw(st.floats(5.0, 170.0))) * draw(st.sampled_from([1, -1]))
        p["rho"] = draw(st.floats(0.2, 3.0))
    if cls == "Wedge":
        p["angle"] = draw(st.one_of(st.none(), st.floats(0.5, 10.0).map(math.radians)))
        p["rho"] = draw(st.floats(0.1, 3.0))
    return p


def quad(p, x0: float, y0: float) -> List[np.ndarray]:
    """jittered rectangle [x0, x0 + w] x [y0, y0 + h], counter-clockwise in its own (x, y)"""
    r = p["r"]
    w, h = p["w"] * r, p["h"] * r
    j = 0.2 * min(w, h)
    base = [(x0, y0), (x0 + w, y0), (x0 + w, y0 + h), (x0, y0 + h)]
    return [np.array([x + j * p["jit"][2 * i], y + j * p["jit"][2 * i + 1]]) for i, (x, y) in enumerate(base)]


def build_op(case) -> Spec:
    cls = case["cls"]
    place = case["place"]
    M = xs.frame(place)
    r = case["r"]
    margin = 0.2 * min(case.get("w", 1.0), case.get("h", 1.0)) * r  # the jitter of quad(): keeps faces off the axis
    s = Spec(cls)
    s.n_blocks, s.n_vertices = 1, 8
    s.chop_claimed = False
    s.size = r
    if cls == "Box":
        a = np.array(case["a"]) * r
        b = a + np.array(case["d"]) * r
        op = cb.Box(a, b)
        xs.place_entity(op, place)
        lo, hi = np.minimum(a, b), np.maximum(a, b)
        s.extra["corners"] = [W(M, [x, y, z]) for z in (lo[2], hi[2]) for y in (lo[1], hi[1]) for x in (lo[0], hi[0])]

        def corners_check(dec, facts, spec):
            for c in spec.extra["corners"]:
                if np.min(np.linalg.norm(dec.pos - c, axis=1)) > 1e-7 * (1 + np.linalg.norm(c)):
                    raise Violation("box-corner-missing", f"no vertex at the box corner {c.tolist()}", **facts)

        s.extra["file_check"] = corners_check
    elif cls == "Extrude":
        face = cb.Face([W(M, [q[0], q[1], 0.0]) for q in quad(case, 0.0, 0.0)])
        if case["lean"] is None:
            op = cb.Extrude(face, float(case["amount"] * r))
        else:
            op = cb.Extrude(face, D(M, [case["lean"][0], case["lean"][1], 1.0]) * case["amount"] * r)
    elif cls == "Revolve":
        # canonical: axis +z through the origin; the face lies in the half-plane y = 0, x > 0 and is ordered so that its
        # normal points along the motion (+y for a positive angle)
        pts = [np.array([q[0], 0.0, q[1]]) for q in quad(case, case["rho"] * r + margin, 0.0)]
        if case["angle"] > 0:
            pts = [pts[0], pts[3], pts[2], pts[1]]
        op = cb.Revolve(cb.Face([W(M, q) for q in pts]), case["angle"], D(M, Z) * xs.dlen(place), W(M, [0, 0, 0]))
        s.circles = [Circle(W(M, [0, 0, q[2]]), D(M, Z), q[0], 1, case["angle"]) for q in pts]
    elif cls == "Wedge":
        # canonical (fixed by the class): axis +x through the origin, face in the xy-plane with y > 0
        pts = [np.array([q[0], q[1], 0.0]) for q in quad(case, 0.0, case["rho"] * r + margin)]
        op = cb.Wedge(cb.Face(pts), case["angle"])
        xs.place_entity(op, place)
        s.circles = [Circle(W(M, [q[0], 0, 0]), D(M, X), q[1], 1, case["angle"] or math.radians(2)) for q in pts]
    else:  # pragma: no cover
        raise ValueError(cls)
    s.entities = [op]

    def chop(ch: dict) -> None:
        for axis in (0, 1, 2):
            if cls == "Wedge" and axis == 2:
                continue  # the class chops its own third direction
            op.chop(axis, **xs.chop_kwargs(ch, axis, r))

    s.chop = chop
    return s


# --------------------------------------------------------------------------------------------------
# Shell on the outside of a hexahedron


@st.composite
def shell_params(draw):
    sides = draw(st.lists(st.sampled_from(sorted(rm.HEX_SIDES)), min_size=1, max_size=6, unique=True))
    if set(sides) in ({"bottom", "top"}, {"left", "right"}, {"front", "back"}):
        sides = sides + [draw(st.sampled_from(sorted(set(rm.HEX_SIDES) - set(sides))))]  # keep the faces connected
    return {
        "cls": "Shell",
        "r": draw(xs.radii),
        "dims": [draw(st.floats(0.5, 2.0)) for _ in range(3)],
        "jit": [draw(st.floats(-1.0, 1.0)) for _ in range(24)],
        "sides": sorted(sides),
        "amount": draw(st.floats(0.1, 0.5)),
        "with_box": draw(st.booleans()),
    }


def build_shell(case) -> Spec:
    M = xs.frame(case["place"])
    r = case["r"]
    dims = np.array(case["dims"]) * r
    j = 0.15 * float(dims.min())
    cube = np.array([[0, 0, 0], [1, 0, 0], [1, 1, 0], [0, 1, 0], [0, 0, 1], [1, 0, 1], [1, 1, 1], [0, 1, 1]], dtype=float)
    pts = [W(M, cube[i] * dims + j * np.array(case["jit"][3 * i:3 * i + 3])) for i in range(8)]
    # faces ordered so that their normals point out of the hexahedron (vf.refmodel.HEX_SIDES)
    faces = [cb.Face([pts[i] for i in rm.HEX_SIDES[side]]) for side in case["sides"]]
    shell = cb.Shell(faces, float(case["amount"] * dims.min()))
    corners = {i for side in case["sides"] for i in rm.HEX_SIDES[side]}
    s = Spec("Shell")
    s.size = float(dims.min())
    s.chop_claimed = False
    s.n_blocks = len(faces)
    s.n_vertices = 2 * len(corners)
    s.entities = [shell]
    s.extra["labels"] = [f"faces={len(faces)}"]
    box = None
    if case["with_box"]:
        box = cb.Loft(cb.Face(pts[:4]), cb.Face(pts[4:]))
        s.entities = [box, shell]
        s.n_blocks += 1
        s.n_vertices = 8 + len(corners)

    def chop(ch: dict) -> None:
        if box is not None:
            for axis in (0, 1, 2):
                box.chop(axis, **xs.chop_kwargs(ch, axis, s.size))
        else:
            for loft in shell.operations:
                for axis in (0, 1):  # neighbouring lofts meet with axes 0 and 1 exchanged: one count for both
                    loft.chop(axis, count=int(ch["n"][0]) if ch["mode"] == "count" else 3)
        if len(faces) == 1:
            shell.operations[0].chop(2, **xs.chop_kwargs(ch, 2, s.size))  # a solitary face is chopped manually (documented)
        else:
            shell.chop(**xs.chop_kwargs(ch, 2, s.size))

    s.chop = chop
    return s


# --------------------------------------------------------------------------------------------------
# sketch-based shapes and stacks

STACK_BASES = ["Grid", "OneCoreDisk", "FourCoreDisk", "HalfDisk", "WrappedDisk", "Oval", "SplineDisk"]


def sketch_shape_cases(kind: str):
    return with_common(
        st.tuples(xs.sketch_params(kind), st.sampled_from(xs.SWEEPS).flatmap(xs.sweep_params)).map(
            lambda t: {"kind": kind, "sketch": t[0], "sweep": t[1]}
        )
    )


def build_sketch_shape(case) -> Spec:
    spec = xs.build_sketch_shape(case["sketch"], case["sweep"], case["place"])
    spec.extra["labels"] = ["sweep:" + case["sweep"]["how"]] + (
        ["spline:" + case["sketch"]["shape"]] if "shape" in case["sketch"] else [])
    return spec


def stack_cases(how: str):
    return with_common(
        st.tuples(st.sampled_from(STACK_BASES).flatmap(xs.sketch_params), xs.sweep_params(how, stack=True)).map(
            lambda t: {"kind": how, "sketch": t[0], "sweep": t[1]}
        )
    )


def build_stack(case) -> Spec:
    spec = xs.build_stack(case["sketch"], case["sweep"], case["place"])
    spec.extra["labels"] = ["base:" + case["sketch"]["kind"], f"repeats={case['sweep']['repeats']}"]
    return spec


# --------------------------------------------------------------------------------------------------
# chains: a symbolic model of free ends decides which steps are possible; the geometry is tracked by the harness

SOLID_BLOCKS, HEMI_BLOCKS = 12, 16


@st.composite
def chain_cases(draw, start_kinds, witness: bool = False):
    r = draw(xs.radii)
    start_cls = draw(st.sampled_from(start_kinds))
    start = {"cls": start_cls, "phi": draw(xs.angles), "l": draw(st.floats(0.5, 3.0))}
    if start_cls in ("Frustum", "Elbow"):
        start["r2"] = draw(st.floats(0.5, 2.0))
    if start_cls == "Elbow":
        start["sweep"] = math.radians(draw(st.floats(10.0, 120.0))) * draw(st.sampled_from([1, -1]))
        start["bend"] = draw(st.floats(1.5, 4.0))
    if start_cls == "ExtrudedRing":
        start["inner"] = draw(st.floats(0.4, 0.8))
        start["n"] = draw(st.sampled_from([8, 3, 8, 5, 8, 6, 8, 7, 8, 9, 12]))
    # symbolic state: kind, free ends, segments, straight (constant radius along a straight axis)
    shapes = [{
        "kind": "ring" if start_cls == "ExtrudedRing" else "solid",
        "free": {"start", "end", "outer"} | ({"inner"} if start_cls == "ExtrudedRing" else set()),
        "n": start.get("n", 8),
        "straight": start_cls in ("Cylinder", "ExtrudedRing"),
    }]
    steps = []
    for _ in range(1 if witness else draw(st.integers(1, 3))):
        options = []
        for i, sh in enumerate(shapes):
            ends = sorted(sh["free"] & {"start", "end"})
            if sh["kind"] == "solid":
                for e in ends:
                    options += [("cyl", i, e), ("fru", i, e), ("elb", i, e), ("hemi", i, e)]
            if sh["kind"] == "ring":
                for e in ends:
                    options.append(("ringchain", i, e))
                if "inner" in sh["free"]:
                    options.append(("contract", i, "inner"))
                    if sh["n"] == 8:
                        options += [("fill", i, "inner")] * 2
            if sh["kind"] in ("solid", "ring") and sh["straight"] and "outer" in sh["free"]:
                options += [("expand", i, "outer")] * 2
        if witness:  # regression witness of the (fixed) Elbow.chain(start_face=True) defect
            options = [o for o in options if o[0] == "elb" and o[2] == "start"]
        if not options:
            break
        op, src, where = draw(st.sampled_from(options))
        step: Dict[str, Any] = {"op": op, "src": src, "where": where}
        shapes[src]["free"].discard(where)
        if op in ("cyl", "fru", "ringchain"):
            step["l"] = draw(st.floats(0.5, 3.0))
        if op in ("fru", "elb"):
            step["r2"] = draw(st.floats(0.5, 2.0))
        if op == "fru":
            step["rmid"] = draw(st.one_of(st.none(), st.floats(0.5, 2.0)))
        if op == "elb":
            step["sweep"] = math.radians(draw(st.floats(10.0, 120.0)))
            step["bend"] = draw(st.floats(1.5, 4.0))
            step["psi"] = draw(xs.angles)
        if op == "expand":
            step["t"] = draw(st.floats(0.2, 1.5))
        if op == "contract":
            step["inner"] = draw(st.floats(0.3, 0.8))
        new = {
            "cyl": {"kind": "solid", "free": {"end", "outer"}, "n": 8, "straight": True},
            "fru": {"kind": "solid", "free": {"end"}, "n": 8, "straight": False},
            "elb": {"kind": "solid", "free": {"end"}, "n": 8, "straight": False},
            "hemi": {"kind": "hemi", "free": set(), "n": 8, "straight": False},
            "ringchain": {"kind": "ring", "free": {"end", "outer", "inner"}, "n": shapes[src]["n"], "straight": True},
            "expand": {"kind": "ring", "free": {"start", "end", "outer"}, "n": shapes[src]["n"], "straight": True},
            "contract": {"kind": "ring", "free": {"start", "end", "inner"}, "n": shapes[src]["n"], "straight": True},
            "fill": {"kind": "solid", "free": {"start", "end"}, "n": 8, "straight": True},
        }[op]
        shapes.append(new)
        steps.append(step)
    return {"cls": "chain", "r": r, "start": start, "steps": steps}


class Tracked:
    """geometry of one shape of a chain as the harness computes it"""

    def __init__(self, lib, kind: str, c1, n1, r1, c2, n2, r2, ri=None, n_seg: int = 8):
        self.lib = lib
        self.kind = kind
        self.c1, self.n1, self.r1 = np.asarray(c1, float), rm.unit(n1), float(r1)  # start plane, direction of travel
        self.c2, self.n2, self.r2 = np.asarray(c2, float), rm.unit(n2), float(r2)
        self.ri = ri
        self.n_seg = n_seg

    @property
    def n_blocks(self) -> int:
        return {"solid": SOLID_BLOCKS, "ring": self.n_seg, "hemi": HEMI_BLOCKS}[self.kind]

    def moved(self, post) -> None:
        """the library shape is rotated / scaled / translated; the tracked geometry follows by the same similarity"""
        xs.move_entity(self.lib, post)
        P, k = xs.post_matrix(post), xs.post_scale(post)
        self.c1, self.n1, self.r1 = rm.apply(P, self.c1), rm.unit(rm.apply_dir(P, self.n1)), self.r1 * k
        self.c2, self.n2, self.r2 = rm.apply(P, self.c2), rm.unit(rm.apply_dir(P, self.n2)), self.r2 * k
        if self.ri is not None:
            self.ri *= k


def in_plane_dir(n: np.ndarray, psi: float) -> np.ndarray:
    a = np.cross(n, X if abs(n[0]) < 0.9 else Y)
    a = a / np.linalg.norm(a)
    b = np.cross(n, a)
    return math.cos(psi) * a + math.sin(psi) * b


def build_chain(case):
    """-> (list of Tracked, list of interface descriptions)"""
    M = xs.frame(case["place"])
    r = case["r"]
    st_ = case["start"]
    c1, n = W(M, [0, 0, 0]), D(M, Z)
    rp = W(M, xs.polar(r, st_["phi"]))
    L = st_["l"] * r
    cls = st_["cls"]
    if cls == "Cylinder":
        c2 = c1 + n * L
        first = Tracked(cb.Cylinder(c1, c2, rp), "solid", c1, n, r, c2, n, r)
    elif cls == "Frustum":
        c2 = c1 + n * L
        first = Tracked(cb.Frustum(c1, c2, rp, st_["r2"] * r), "solid", c1, n, r, c2, n, st_["r2"] * r)
    elif cls == "Elbow":
        r2 = st_["r2"] * r
        sgn = 1.0 if st_["sweep"] > 0 else -1.0
        ac = W(M, [st_["bend"] * max(r, r2), 0, 0])
        axis = D(M, [0, sgn, 0])
        R = rm.m_rotate(st_["sweep"], axis, ac)
        dl = xs.dlen(case["place"])
        first = Tracked(cb.Elbow(c1, rp, n * dl, st_["sweep"], ac, axis * dl, r2), "solid", c1, n, r, rm.apply(R, c1),
                        rm.apply_dir(R, n), r2)
    else:
        c2 = c1 + n * L
        ri = st_["inner"] * r
        first = Tracked(cb.ExtrudedRing(c1, c2, rp, ri, st_["n"]), "ring", c1, n, r, c2, n, r, ri, st_["n"])
    if case.get("pre") is not None:
        # the start shape is moved and resized before anything is chained to it
        first.moved(case["pre"])
    shapes = [first]
    interfaces = []
    for step in case["steps"]:
        src = shapes[step["src"]]
        op = step["op"]
        at_start = step["where"] == "start"
        if op in ("cyl", "fru", "elb", "hemi", "ringchain"):
            # the new shape starts on the chosen end of the source and travels away from it
            c = src.c1 if at_start else src.c2
            m = -src.n1 if at_start else src.n2
            rr = src.r1 if at_start else src.r2
            if op == "cyl":
                L = step["l"] * rr
                new = Tracked(cb.Cylinder.chain(src.lib, L, start_face=at_start), "solid", c, m, rr, c + m * L, m, rr)
            elif op == "fru":
                L = step["l"] * rr
                r2 = step["r2"] * rr
                rmid = None if step["rmid"] is None else step["rmid"] * rr
                new = Tracked(cb.Frustum.chain(src.lib, L, r2, start_face=at_start, radius_mid=rmid), "solid", c, m, rr,
                              c + m * L, m, r2)
            elif op == "ringchain":
                L = step["l"] * rr
                new = Tracked(cb.ExtrudedRing.chain(src.lib, L, start_face=at_start), "ring", c, m, rr, c + m * L, m, rr,
                              src.ri, src.n_seg)
            elif op == "hemi":
                new = Tracked(cb.Hemisphere.chain(src.lib, start_face=at_start), "hemi", c, m, rr, c + m * rr, m, 0.0)
            else:
                r2 = step["r2"] * rr
                e = in_plane_dir(m, step["psi"])
                ac = c + e * step["bend"] * max(rr, r2)
                axis = np.cross(m, e)  # a positive sweep about this axis leaves the source along m
                R = rm.m_rotate(step["sweep"], axis, ac)
                new = Tracked(cb.Elbow.chain(src.lib, step["sweep"], ac, axis * xs.dlen(case["place"]), r2,
                                             start_face=at_start), "solid", c, m, rr,
                              rm.apply(R, c), rm.apply_dir(R, m), r2)
            interfaces.append({"kind": "plane", "c": c, "n": m, "r": rr})
        elif op == "expand":
            t = step["t"] * src.r1
            new = Tracked(cb.ExtrudedRing.expand(src.lib, t), "ring", src.c1, src.n1, src.r1 + t, src.c2, src.n2,
                          src.r1 + t, src.r1, src.n_seg)
            interfaces.append({"kind": "cylinder", "c": src.c1, "n": src.n1, "r": src.r1})
        elif op == "contract":
            ri = step["inner"] * src.ri
            new = Tracked(cb.ExtrudedRing.contract(src.lib, ri), "ring", src.c1, src.n1, src.ri, src.c2, src.n2, src.ri,
                          ri, src.n_seg)
            interfaces.append({"kind": "cylinder", "c": src.c1, "n": src.n1, "r": src.ri})
        else:  # fill
            new = Tracked(cb.Cylinder.fill(src.lib), "solid", src.c1, src.n1, src.ri, src.c2, src.n2, src.ri)
            interfaces.append({"kind": "cylinder", "c": src.c1, "n": src.n1, "r": src.ri})
        shapes.append(new)
    return shapes, interfaces


def check_chain(case, ctx: Ctx) -> None:
    facts = {"shape": "chain", "start": case["start"]["cls"], "ops": [s["op"] for s in case["steps"]],
             "source_mirrored": bool((case.get("pre") or {}).get("mirror"))}
    try:
        shapes, interfaces = build_chain(case)
    except Exception as ex:  # noqa: BLE001
        raise Violation("construction-failed", f"valid chain rejected: {type(ex).__name__}: {str(ex)[:200]}", **facts) from None
    post = case.get("post")
    if post is not None:
        # every shape of the finished chain is moved by the same rigid motion; interfaces follow by Rodrigues
        P = xs.post_matrix(post)
        try:
            for sh in shapes:
                xs.move_entity(sh.lib, post)
        except Exception as ex:  # noqa: BLE001
            raise Violation("transform-failed", f"{type(ex).__name__}: {str(ex)[:200]}", **facts) from None
        for itf in interfaces:
            itf["c"], itf["n"] = rm.apply(P, itf["c"]), rm.unit(rm.apply_dir(P, itf["n"]))
            itf["r"] *= xs.post_scale(post)
    mesh = cb.Mesh()
    for sh in shapes:
        mesh.add(sh.lib)
    try:
        mesh.assemble()
    except Exception as ex:  # noqa: BLE001
        raise Violation("assemble-failed", f"{type(ex).__name__}: {str(ex)[:200]}", **facts) from None
    pos, hexes = xs.live_hexes(mesh)
    offsets = [0]
    for sh in shapes:
        offsets.append(offsets[-1] + sh.n_blocks)
    if len(hexes) != offsets[-1]:
        raise Violation("block-count", f"{len(hexes)} blocks, expected {offsets[-1]}", **facts)

    def owner(b: int) -> dict:
        k = max(i for i in range(len(shapes)) if offsets[i] <= b)
        if k == 0:
            return {"owner": case["start"]["cls"], "owner_where": None}
        return {"owner": case["steps"][k - 1]["op"], "owner_where": case["steps"][k - 1]["where"]}

    xs.check_jacobians(pos, hexes, facts, owner)
    xs.check_connected(hexes, facts)

    ids = [set(i for h in hexes[offsets[k]:offsets[k + 1]] for i in h) for k in range(len(shapes))]
    for k, (step, itf) in enumerate(zip(case["steps"], interfaces), start=1):
        src = step["src"]
        shared = ids[k] & ids[src]
        tol = 1e-6 * itf["r"] + 1e-9
        expected = set()
        for i in ids[src]:
            d = pos[i] - itf["c"]
            ax = float(d @ itf["n"])
            rad = float(np.linalg.norm(d - ax * itf["n"]))
            if itf["kind"] == "plane":
                on = abs(ax) <= tol and rad <= itf["r"] + tol
            else:
                on = abs(rad - itf["r"]) <= tol
            if on:
                expected.add(i)
        want = {"plane": 2 * shapes[src].n_seg if shapes[src].kind == "ring" else 17,
                "cylinder": 2 * shapes[src].n_seg}[itf["kind"]]
        f2 = dict(facts, step=step["op"], where=step["where"], shared=len(shared), want=want)
        if len(expected) != want:
            raise Violation("interface-size", f"step {k} ({step['op']}): the source has {len(expected)} vertices on the "
                            f"interface, expected {want}", **f2)
        if itf["kind"] == "plane":
            # the chained shape continues away from its source (documented for start_face=True: "backwards")
            behind = [i for i in ids[k] - shared if float((pos[i] - itf["c"]) @ itf["n"]) <= tol]
            if behind and shared == expected:
                raise Violation("chain-direction", f"step {k} ({step['op']} on {step['where']}): {len(behind)} vertices of the "
                                "new shape lie on the source's side of the interface", **f2)
        if shared != expected:
            raise Violation(
                "interface-mismatch",
                f"step {k} ({step['op']} on {step['where']}): shares {len(shared)} vertices with its source, "
                f"{len(shared - expected)} outside and {len(expected - shared)} missing from the {want} interface vertices",
                **f2,
            )
    general = xs.is_general(case["place"])
    ctx.nt(general and len(shapes) >= 2)
    for key in ("pre", "post"):
        if case.get(key) is not None:
            ctx.label(f"{key}-moved", f"{key}-scaled" if case[key].get("scale") else f"{key}-rigid")
            if case[key].get("mirror"):
                ctx.label(f"{key}-mirrored")
    ctx.label(f"shapes={len(shapes)}", "general" if general else "aligned",
              "moved-after-construction" if post is not None else "as-constructed",
              f"far-ratio={xs.far_ratio(case):.0e}" if xs.far_ratio(case) else "near-origin")
    for s in case["steps"]:
        ctx.label("step:" + s["op"] + ("@start" if s["where"] == "start" else ""))


def chain_strategy(start_kinds, witness=False, mirrored_source=False):
    # chaining onto a mirrored source is a confirmed finding (known/C11.json, C11-N3): it has its own witness cell and is
    # excluded here by construction; mirroring the finished chain (post) stays in
    pre = xs.post_transforms(resize_mostly=True, mirror="always" if mirrored_source else "never")
    return st.tuples(chain_cases(start_kinds, witness), xs.placements(), xs.post_transforms(), xs.far_offsets(),
                     xs.far_offsets(), pre).map(
        lambda t: xs.settle_far({**t[0], "place": t[1], "post": t[2], "pre": t[5]}, t[3], t[4]))


# --------------------------------------------------------------------------------------------------

CELLS: List[Cell] = []

for _cls in xs.ROUND_CLASSES:
    CELLS.append(Cell(f"C11/round/{_cls}", with_common(xs.round_params(_cls)),
                      lambda case, ctx: run_spec(case, ctx, build_round), 12, 400,
                      f"{_cls} in random placement: counts, Jacobians, face-connectivity, outer arcs on the intended "
                      "circles, chop_axial/radial/tangential suffice, shared-edge counts agree"))
for _k, _q, _t in (("L", 5, 100), ("T", 5, 100), ("N", 6, 120)):
    CELLS.append(Cell(f"C11/joint/{_k}", with_common(xs.joint_params(_k)),
                      lambda case, ctx: run_spec(case, ctx, build_joint), _q, _t,
                      f"{_k}Joint (N: 3..6 branches): 12 blocks and 23 vertices per branch + 5, arcs on the hole circles, "
                      "axial/radial/tangential chops suffice"))
for _cls in ("Box", "Extrude", "Revolve", "Wedge"):
    CELLS.append(Cell(f"C11/op/{_cls}", with_common(op_params(_cls)),
                      lambda case, ctx: run_spec(case, ctx, build_op), 20, 600,
                      f"{_cls}: one right-handed block; side arcs of Revolve/Wedge on circles about the axis"))
CELLS.append(Cell("C11/shell", with_common(shell_params()), lambda case, ctx: run_spec(case, ctx, build_shell), 20, 600,
                  "Shell over 1..6 connected outward faces of a jittered hexahedron (with or without the hexahedron): "
                  "one block per face, shared offset points, right-handed"))
for _kind in xs.DISK_SKETCHES + xs.SPLINE_DISKS + xs.SPLINE_RINGS + ["Grid"]:
    CELLS.append(Cell(f"C11/sketch/{_kind}", sketch_shape_cases(_kind),
                      lambda case, ctx: run_spec(case, ctx, build_sketch_shape), 30, 600,
                      f"Extruded / Revolved / Lofted(+mid) shape on {_kind}: counts from the sketch topology, Jacobians, "
                      "arcs, shape.chop(0|1|2) suffice"))
for _how in xs.STACKS:
    CELLS.append(Cell(f"C11/stack/{_how}", stack_cases(_how), lambda case, ctx: run_spec(case, ctx, build_stack), 10, 300,
                      f"{_how} stack of 1..4 tiers on a grid / disk / oval / spline base: counts per layer, Jacobians, "
                      "arcs on every layer, shapes[0].chop(0|1) + stack.chop suffice"))
CELLS.append(Cell("C11/chain/solid", chain_strategy(["Cylinder", "Frustum", "Elbow"]), check_chain, 30, 1000,
                  "Cylinder/Frustum/Elbow followed by <= 3 chain / expand / fill / Hemisphere.chain steps (either end): "
                  "Jacobians, connectivity, each new shape shares exactly the interface vertices with its source"))
CELLS.append(Cell("C11/chain/ring", chain_strategy(["ExtrudedRing"]), check_chain, 30, 1000,
                  "ExtrudedRing followed by <= 3 chain / expand / contract / fill steps: as above with 2 n interface vertices"))
CELLS.append(Cell("C11/chain/witness-mirrored-source",
                  chain_strategy(["Cylinder", "Frustum", "Elbow", "ExtrudedRing"], mirrored_source=True), check_chain, 8, 150,
                  "a shape that was mirrored (shape.mirror) and then used as the source of chain / expand / contract / fill"))
CELLS.append(Cell("C11/chain/witness-elbow-start", chain_strategy(["Cylinder", "Frustum", "Elbow"], witness=True),
                  check_chain, 6, 100, "Elbow.chain(start_face=True) continuing away from the source (regression witness)"))
