"""C17 — clamps stay on their manifold and links keep their relation (DESIGN.md section 4, C17)."""

from __future__ import annotations

import math
import warnings

import numpy as np
from hypothesis import strategies as st

from vf import x_manifold as xm
from vf.core import Cell, Ctx, Violation
from vf.refmodel import apply, m_rotate, unit

warnings.simplefilter("ignore")

RULE = (
    "Clamps: a constraint manifold written for the check (line, circle about an axis, plane, parabola / circle / "
    "polyline curve, saddle surface; directions, normals and axes non-unit and in general position, scale 10^U(-1,2), "
    "origin != 0) is anchored at a drawn point; the library clamp that declares it is created at the anchor (on) or at "
    "an offset of <= 0.4 scale (off), then driven to 1-4 parameter vectors inside the bounds. Links: a link is built "
    "from a drawn leader / follower, then the leader is assigned 1-3 new positions of any size. Non-trivial: no "
    "direction / normal / axis parallel to a coordinate axis; for links additionally a leader displacement > 1e-3 "
    "scale. distinct = distinct generated case."
)
ASSUMPTIONS = [
    "declared manifolds are those of the class docstrings: LineClamp p1 + t*unit(p2-p1) with t in bounds (default "
    "(0, |p2-p1|)); RadialClamp creation position turned about (center, normal) by t/r; CurveClamp curve.get_point(t), "
    "t in curve.bounds; ParametricSurfaceClamp function(u, v) inside bounds; PlaneClamp any point of the plane",
    "creation accuracy: the library finds the parameters with scipy.optimize.minimize(distance, tol=TOL=1e-7); L-BFGS-B "
    "stops when the distance decreases by less than 1e-7*max(distance, 1). Created ON the manifold: line, plane and "
    "curve clamps (the latter start from curve.get_closest_param, accurate to 1e-12 since its fix) were never worse "
    "than 1e-7*scale in 25 000 creations at scale 0.1..100: tolerance 1e-5*(1 + scale). Surface clamps (two bounded "
    "parameters, distance is a cone) occasionally stall: worst 1.2e-5 (scale < 1), 8.1e-5 (scale 1-10), 5e-4 (scale "
    "10-100) in 20 000 creations: tolerance 1e-3 + 1e-2*scale. Created OFF the manifold at distance h the stopping "
    "rule allows sqrt(2e-7*h*max(h, 1)) along the manifold (measured worst 52 % of that): 10x that is added",
    "placement: clamp set-ups sit 0, 1e3, 1e4 or 1e5 scales from the origin in a general direction (comparisons get "
    "100*eps*|coordinate| on top). The library finds parameters with finite differences (step 1.5e-8) of a distance "
    "whose float resolution is eps*|coordinate|: measured on the unchanged tree, creation ON the manifold stays "
    "within 8e-8*scale up to 1e5 and degrades to 5e-2*scale at 1e6 (so 1e5 is the largest ratio used); creation OFF "
    "the manifold loses accuracy in proportion to the ratio (1.9e-5 / 2e-4 / 1.8e-3 * scale at 1e3 / 1e4 / 1e5) and is "
    "therefore exercised up to 1e3 only",
    "creation near the initial guess: line, plane and surface clamps are also created ON the manifold 1e-6..1e-2 "
    "scale from the point their initial guess yields (p1, the plane's point, f(0, 0))",
    "a polyline can have two equally close points next to a corner: a reported point on the curve that is as close as "
    "the reference closest point (within the same tolerance) is accepted and labelled closest-point-tie",
    "position for given parameters: 1e-9*(scale + |position|) from the declared point (float noise only)",
    "off-manifold offsets stay below the reach of the curved manifolds (|c| <= 0.5, radius >= 0.6 scale, offset <= "
    "0.4 scale) so the closest point is unique",
    "RotationLink: 'the angle the leader turned' is the change of the leader's azimuth about the axis, in [-pi, pi] "
    "(at exactly half a turn both senses give the same follower; next to it the sense is that of the azimuth change); "
    "asserted whenever the leader stays off the axis. The library measures the angle with arccos, whose resolution "
    "next to 0 and next to pi is sqrt(2*k*1.1e-16) <= 3e-8 rad (k <= 4 rounding errors in the cosine), i.e. a follower "
    "error <= 3e-8*|follower - origin|; a wrongly resolved sense within that distance of pi costs twice as much: "
    "tolerance 1e-6*(scale + |follower - origin|)",
    "a link's leader is a public numpy array: 'the leader moves' covers assigning a new array (what the optimizer "
    "does) and changing the array in place (slice assignment, +=, item assignment); an optional initial_param of a "
    "CurveClamp is, as documented, only a starting point (drawn 1-10 % of the parameter range off; not used for "
    "polylines, where a start on another segment legitimately stalls a smooth minimiser at a corner)",
    "links are given float arrays (as the optimizer does), never integer arrays",
]

TOL_CREATE_ABS, TOL_CREATE_REL = 1e-3, 1e-2  # surface clamps: two bounded parameters, the minimiser can stall
TOL_CREATE_1D = 1e-5  # (abs, and rel to scale) line / plane / curve clamps: measured worst 1e-7*scale in 25 000 creations
TOL_PARAM = 1e-9
TOL_LINK = 1e-9
TOL_ROT = 1e-6
PLACE_RATIOS = [0.0, 0.0, 1e3, 1e4, 1e5]  # x scale; 1e6 and beyond: the library's own minimiser loses its footing
PLACE_RATIO_OFF = 1e3  # creation OFF the manifold is only exercised up to here
EPS = 2.220446049250313e-16
HALF_TURN_OFFSETS = [0.0, 1e-9, 1e-6, 1e-4, 1e-3]

# --------------------------------------------------------------------------------------------------
# clamps

_frac = st.one_of(st.sampled_from([0.0, 1.0]), st.floats(0.0, 1.0))


def clamp_case(spec, allow_off=True):
    off = st.fixed_dictionaries({"dir": xm.vec3, "mag": st.floats(0.01, 0.4)})
    return st.fixed_dictionaries(
        {
            "logs": st.floats(-1.0, 2.0),
            "anchor": xm.vec3,
            # the whole set-up sits this many scales from the origin, in a general direction
            "place": st.fixed_dictionaries({"dir": xm.vec3, "ratio": st.sampled_from(PLACE_RATIOS)}),
            "m": spec,
            "off": st.one_of(st.none(), off) if allow_off else st.none(),
            "params": st.lists(st.lists(_frac, min_size=3, max_size=3), min_size=1, max_size=4),
        }
    )


UNBOUNDED_RANGE = {"free": 10.0, "plane": 10.0, "radial": 3 * math.pi, "surface": 2.0}


def _params(man: xm.Manifold, fracs, s: float):
    """parameter vector inside the bounds (any value within a wide range where there are none)"""
    box = man.param_box()
    out = []
    for i in range(man.nparams):
        f = fracs[i]
        if box is not None:
            lo, hi = box[i]
            out.append(lo + f * (hi - lo) if f < 1.0 else hi)
        elif man.kind == "radial":
            out.append((2 * f - 1) * UNBOUNDED_RANGE["radial"] * man.r)
        elif man.kind == "surface":
            out.append((2 * f - 1) * UNBOUNDED_RANGE["surface"])
        else:
            out.append((2 * f - 1) * UNBOUNDED_RANGE[man.kind] * s)
    return out


def check_clamp(case, ctx: Ctx) -> None:
    s = 10.0 ** case["logs"]
    anchor = 3.0 * s * np.asarray(case["anchor"], float)
    place = dict(case.get("place") or {"ratio": 0.0})
    if case["off"] is not None:
        place["ratio"] = min(place["ratio"], PLACE_RATIO_OFF)
    if place["ratio"]:
        anchor = anchor + place["ratio"] * s * unit(xm.fix_vec(place["dir"]))
    coord_noise = 100 * EPS * float(np.max(np.abs(anchor)) + s)  # float64 resolution of the coordinates themselves
    spec = case["m"]
    man = xm.build(spec, anchor, s)
    off = case["off"]
    p = anchor if off is None else anchor + off["mag"] * s * unit(xm.fix_vec(off["dir"]))
    kind = spec["type"]
    facts = {"type": kind, "scale": s, "created": "on" if off is None else "off", "bounded": bool(man.bounded)}

    given = np.array(p)
    try:
        clamp = man.make_clamp(given)
    except Exception as ex:
        raise Violation("clamp-creation-raised", f"{type(ex).__name__}: {ex}", **facts) from None
    pos = np.array(clamp.position, dtype=float)

    # a freshly created clamp reports its creation position / the closest point of the constraint
    if kind == "surface":
        tol = TOL_CREATE_ABS + TOL_CREATE_REL * s
    else:
        tol = TOL_CREATE_1D * (1.0 + s)
    tol += coord_noise
    want = p if off is None else man.closest(p)
    if want is not None:
        if off is not None:
            h = float(np.linalg.norm(np.asarray(want) - p))
            tol += 10 * math.sqrt(2e-7 * h * max(h, 1.0))
        err = float(np.linalg.norm(pos - want))
        tie = False
        if not err <= tol and kind == "polyline" and off is not None:
            # next to a corner two points of a polyline can be equally close: accept another point of the curve that
            # is as close as the reference one (distance compared tightly: it is second-order in the position)
            tie = man.residual(pos) <= tol and float(np.linalg.norm(pos - p)) <= float(np.linalg.norm(want - p)) + tol
        if not err <= tol and not tie:
            if kind == "polyline":
                facts["other_local_minimum"] = bool(man.is_local_foot(p, pos, tol))
            raise Violation(
                "creation-position" if off is None else "creation-not-closest",
                f"{kind} clamp created at {p.tolist()} reports {pos.tolist()}, expected {np.asarray(want).tolist()} "
                f"(error {err:.3g} > {tol:.3g})",
                error_rel=err / s, **facts,
            )
        ctx.label("closest-point-tie" if tie else
                  "creation-error<=1e%+03d" % max(-16, math.ceil(math.log10(max(err / s, 1e-16)))))
    if not np.array_equal(given, p):
        raise Violation("creation-mutates-argument", "the position passed to the clamp was modified", **facts)

    # for any parameter values inside the bounds the position lies on the declared manifold
    for fr in case["params"]:
        q = _params(man, fr, s)
        try:
            clamp.update_params(list(q))
        except Exception as ex:
            raise Violation("update-raised", f"update_params({q}) raised {type(ex).__name__}: {ex}", params=q, **facts) from None
        x = np.array(clamp.position, dtype=float)
        if x.shape != (3,) or not np.all(np.isfinite(x)):
            raise Violation("position-not-a-point", f"position {x!r} for params {q}", params=q, **facts)
        tolp = TOL_PARAM * (s + float(np.linalg.norm(x)) + float(np.linalg.norm(anchor)))
        res = man.residual(x)
        if not res <= tolp:
            raise Violation("off-manifold", f"{kind} clamp at params {q}: position {x.tolist()} is {res:.3g} off the "
                            f"declared manifold (tol {tolp:.3g})", params=q, residual_rel=res / s, **facts)
        exc = man.bounds_excess(x)
        if not exc <= tolp:
            raise Violation("outside-bounds", f"{kind} clamp at params {q} (inside the bounds): position {x.tolist()} "
                            f"lies {exc:.3g} outside the bounded manifold", params=q, **facts)
        ref = man.point(q)
        if ref is not None and not float(np.linalg.norm(x - ref)) <= tolp:
            raise Violation("wrong-point-of-manifold", f"{kind} clamp at params {q}: position {x.tolist()}, the "
                            f"declared parametrisation gives {ref.tolist()}", params=q, **facts)

    dirs = [v for k, v in spec.items() if k in ("dir", "normal", "a")]
    ctx.nt(not any(xm.aligned(d) for d in dirs) and float(np.linalg.norm(anchor)) > 0)
    ctx.label("created-on" if off is None else "created-off", "bounded" if man.bounded else "unbounded")
    ctx.label("placed-at=%g" % place["ratio"])
    if spec.get("near_guess") is not None:
        ctx.label("created-near-initial-guess")
    if kind in ("curve", "circle") and spec.get("hint") is not None:
        ctx.label("initial-param-given")
    if kind in ("curve", "circle", "polyline"):
        ctx.label("curve=" + kind)


# --------------------------------------------------------------------------------------------------
# links

# the leader is a public array: it is moved by assigning a new one (as the optimizer does) or in place
_how = st.sampled_from(["assign", "assign", "slice", "iadd", "item"])
_move_size = st.floats(-4.0, 1.5)  # displacement 10^x scale: from far below TOL-like sizes to 30 x scale


def link_case(kind: str):
    common = {
        "logs": st.floats(-1.0, 2.0),
        "leader": xm.vec3,
        "follower": xm.vec3,
    }
    if kind == "translation":
        move = st.fixed_dictionaries({"dir": xm.vec3, "mag": _move_size, "how": _how})
        return st.fixed_dictionaries({**common, "moves": st.lists(move, min_size=1, max_size=3)})
    if kind == "symmetry":
        move = st.fixed_dictionaries({"dir": xm.vec3, "mag": _move_size, "how": _how})
        return st.fixed_dictionaries(
            {**common, "normal": xm.vec3, "nlen": xm.nlen, "origin": xm.vec3, "moves": st.lists(move, min_size=1, max_size=3)}
        )
    angle = st.one_of(
        st.floats(-math.pi, math.pi),
        st.tuples(st.floats(-7.0, 0.0), st.sampled_from([1, -1])).map(lambda t: t[1] * 10.0 ** t[0]),
        # at and around half a turn (past it = a turn the other way round)
        st.tuples(st.sampled_from(HALF_TURN_OFFSETS), st.sampled_from([1, -1]), st.sampled_from([1, -1])).map(
            lambda t: t[1] * (math.pi + t[2] * t[0])
        ),
    )
    move = st.fixed_dictionaries(
        {
            "angle": angle,
            "how": _how,
            "on_circle": st.booleans(),
            "opposite": st.sampled_from([False, False, False, True]),  # leader reflected through the axis
            "dr": st.floats(-0.5, 0.5).map(lambda x: 10.0**x),
            "dh": st.floats(-2.0, 2.0),
        }
    )
    return st.fixed_dictionaries(
        {
            **common,
            "axis": xm.vec3,
            "cdir": xm.vec3,
            "nlen": xm.nlen,
            "r": st.floats(0.3, 3.0),
            "h": st.floats(-2.0, 2.0),
            "moves": st.lists(move, min_size=1, max_size=3),
        }
    )


def _assign_and_update(link, new_leader: np.ndarray, facts, how: str = "assign") -> None:
    keep = new_leader.copy()
    if how == "slice":
        link.leader[:] = new_leader
    elif how == "iadd":
        link.leader += new_leader - link.leader
        link.leader[:] = new_leader  # the sum above is only accurate to rounding: land exactly on the target
    elif how == "item":
        for i in range(3):
            link.leader[i] = new_leader[i]
    else:
        link.leader = new_leader
    try:
        link.update()
    except Exception as ex:
        raise Violation("update-raised", f"link.update() raised {type(ex).__name__}: {ex}", **facts) from None
    if not np.array_equal(np.asarray(link.leader), keep) or not np.array_equal(new_leader, keep):
        raise Violation(
            "leader-altered",
            f"leader assigned {keep.tolist()}, after update() it is {np.asarray(link.leader).tolist()}",
            **facts,
        )


def check_link(kind: str):
    def check(case, ctx: Ctx) -> None:
        s = 10.0 ** case["logs"]
        leader0 = 3.0 * s * np.asarray(case["leader"], float)
        follower0 = 3.0 * s * xm.fix_vec(case["follower"], (0.9, 0.3, -0.6))
        if np.linalg.norm(follower0 - leader0) < 0.1 * s:
            follower0 = leader0 + s * np.array([0.4, -0.7, 0.2])
        facts = {"type": kind, "scale": s}
        spec = {"type": kind}
        if kind == "symmetry":
            spec["normal"] = (unit(xm.fix_vec(case["normal"])) * case["nlen"]).tolist()
            spec["origin"] = (3.0 * s * xm.fix_vec(case["origin"], (0.3, 0.2, -0.4))).tolist()
        elif kind == "rotation":
            e1, e2, _ = xm.frame(case["axis"], case["cdir"])
            spec["axis"] = (e1 * case["nlen"]).tolist()
            # origin on the axis, at distance r from the leader
            spec["origin"] = (leader0 - case["r"] * s * e2 - case["h"] * s * e1).tolist()
        l_in, f_in = leader0.copy(), follower0.copy()
        try:
            link = xm.make_link(spec, l_in, f_in)
        except Exception as ex:
            raise Violation("link-creation-raised", f"{type(ex).__name__}: {ex}", **facts) from None
        if not np.array_equal(np.asarray(link.leader), leader0) or not np.array_equal(l_in, leader0):
            raise Violation("leader-altered", f"leader {leader0.tolist()} became {np.asarray(link.leader).tolist()} "
                            "on construction", stage="init", **facts)

        moved = 0.0
        for i, mv in enumerate(case["moves"]):
            if kind == "rotation":
                o = np.asarray(spec["origin"], float)
                n = unit(spec["axis"])
                target = apply(m_rotate(mv["angle"], n, o), leader0)
                if mv.get("opposite"):
                    d0 = leader0 - o
                    target = o + 2 * (d0 @ n) * n - d0  # diametrically opposite point, without any trigonometry
                if not mv["on_circle"]:
                    d = target - o
                    hgt = (d @ n) * n
                    target = o + hgt + mv["dr"] * (d - hgt) + mv["dh"] * s * n
            else:
                target = leader0 + 10.0 ** mv["mag"] * s * unit(xm.fix_vec(mv["dir"]))
            target = np.array(target, dtype=float)
            f = dict(facts, move=i, leader=target.tolist())
            _assign_and_update(link, target, f, mv.get("how", "assign"))
            ctx.label("leader-moved-in-place" if mv.get("how", "assign") != "assign" else "leader-assigned")
            want = xm.expected_follower(spec, leader0, follower0, target)
            got = np.asarray(link.follower, dtype=float)
            if want is None:
                ctx.label("relation-undefined")
                continue
            if kind == "rotation":
                tol = TOL_ROT * (s + float(np.linalg.norm(follower0 - np.asarray(spec["origin"]))))
            else:
                tol = TOL_LINK * (s + float(np.linalg.norm(target)) + float(np.linalg.norm(follower0)))
            err = float(np.linalg.norm(got - want))
            if not err <= tol:
                raise Violation(
                    "follower-relation",
                    f"{kind} link, leader {leader0.tolist()} -> {target.tolist()}: follower {got.tolist()}, "
                    f"expected {want.tolist()} (error {err:.3g} > {tol:.3g})",
                    error_rel=err / s, **f,
                )
            moved = max(moved, float(np.linalg.norm(target - leader0)) / s)
            if kind == "rotation":
                ctx.label("on-circle" if mv["on_circle"] else "off-circle", "turn<0" if mv["angle"] < 0 else "turn>0")
                phi = xm.azimuth_change(spec["axis"], spec["origin"], leader0, target)[0]
                if math.pi - abs(phi) < 2e-3:
                    ctx.label("half-turn" if math.pi - abs(phi) < 1e-9 else "near-half-turn")
        dirs = [spec[k] for k in ("axis", "normal") if k in spec]
        ctx.nt(moved > 1e-3 and not any(xm.aligned(d) for d in dirs))
        ctx.label(f"moves={len(case['moves'])}")
        if "nlen" in case and abs(case["nlen"] - 1) < 1e-5:
            ctx.label("nearly-unit-normal")

    return check


CELLS = [
    Cell("C17/clamp/free", clamp_case(xm.spec_free(), allow_off=False), check_clamp, 60, 1500,
         "FreeClamp reports its creation position"),
    Cell("C17/clamp/line", clamp_case(xm.spec_line(1.5, near_guess=True)), check_clamp, 250, 3000,
         "LineClamp with and without bounds: creation on / off the segment, positions p1 + t*unit(p2 - p1)"),
    Cell("C17/clamp/radial", clamp_case(xm.spec_radial(1.5), allow_off=False), check_clamp, 200, 2500,
         "RadialClamp with and without bounds: same radius and height about the axis, arc-length parameter"),
    Cell("C17/clamp/plane", clamp_case(xm.spec_plane(near_guess=True)), check_clamp, 200, 2500,
         "PlaneClamp: creation on / off the plane (orthogonal projection), n.(x - p) = 0 for any parameters"),
    Cell("C17/clamp/curve", clamp_case(st.one_of(xm.spec_curve(1.0, hinted=True), xm.spec_circle(1.5, hinted=True), xm.spec_polyline())),
         check_clamp, 300, 3000, "CurveClamp on an analytic parabola, a CircleCurve arc, a LinearInterpolatedCurve"),
    Cell("C17/clamp/surface", clamp_case(xm.spec_surface(1.0, near_guess=True)), check_clamp, 200, 2000,
         "ParametricSurfaceClamp on a saddle patch with / without bounds and initial parameters"),
    Cell("C17/link/translation", link_case("translation"), check_link("translation"), 200, 2000,
         "follower = leader + original offset; leader bit-identical after update()"),
    Cell("C17/link/rotation", link_case("rotation"), check_link("rotation"), 200, 2500,
         "follower = original follower turned about the axis by the leader's azimuth change (on and off the circle)"),
    Cell("C17/link/symmetry", link_case("symmetry"), check_link("symmetry"), 200, 2000,
         "follower = mirror image of the leader (reference 4x4 reflection); leader bit-identical after __init__ / update()"),
]
