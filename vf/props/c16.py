"""C16 — curve points, lengths and closest-parameter queries are mutually consistent (DESIGN.md section 4, C16)."""

from __future__ import annotations

import math
import warnings

import numpy as np
from hypothesis import strategies as st

from vf import lattice as lt
from vf.core import Cell, Ctx, Violation
from vf.foamdict import FoamParseError
from vf.refmodel import apply, m_mirror, m_rotate, m_scale, rodrigues

warnings.simplefilter("ignore")

import classy_blocks as cb  # noqa: E402
from classy_blocks.base import transforms as cbtr  # noqa: E402
from classy_blocks.construct.curves.analytic import AnalyticCurve, CircleCurve, LineCurve  # noqa: E402
from classy_blocks.construct.curves.discrete import DiscreteCurve  # noqa: E402
from classy_blocks.construct.curves.interpolated import LinearInterpolatedCurve, SplineInterpolatedCurve  # noqa: E402

RULE = (
    "Point sets are random walks (3-12 points, 4-12 for splines; step lengths spread over a factor of up to 20, three "
    "levels of turning) at scales 0.1-100 or small in absolute units (1e-2, 1e-3, 3e-4, 1e-4; shortest spacing 1 x "
    "scale >= 1000 TOL); discrete curves may sit up to 1e8 spacings from the origin; plus (closest / edge cells) unit-size piecewise-linear curves with a fine detail: a fillet of "
    "radius 0.005-0.02 through 20-120 points (segments down to 6e-5). Three in five point curves are built from source "
    "points and then moved by the library's own translate / rotate / scale / shear / mirror (shear twice as likely; plane below "
    "all points, non-unit normal and direction), either by one method call per step or through the transformation-list "
    "interface curve.transform([...]), optionally followed by a translation as a second step, while the harness maps the points itself (R-AFFINE; shear = p + d "
    "(p-o).n / tan(angle)); the first library call after that is drawn: the cell's own query, get_point, get_length or "
    "get_closest_param. Line / Circle (rim perpendicular to a non-unit normal, full or clipped "
    "bounds) / helix / twisted-cubic analytic curves in random frames, the user function of the last two written in one of "
    "three styles (numpy component expressions that also accept parameter arrays, math.* scalars only, row of a vectorised "
    "function); discretisation counts and edge point numbers favour small values (2-5, 1-3). Parameters are drawn uniformly, at the bounds, at the "
    "parameters of defining points and - where the bounds start below zero, which is common for analytic curves - as an "
    "explicit 0 (int) or 0.0 (float), in either order; an enumerated grid (4 analytic kinds x 3 bounds around zero x 0 / "
    "0.0 as from / to) is always run. Queries are a curve point plus an offset of <= 5 % of the "
    "local point spacing (near) or 0.5-3 curve lengths (far, counted only). References are written in the harness: "
    "chord-length / uniform break parameters, linear interpolation, closed-form analytic curves, dense sampling (>= 801 "
    "parameters, refined until neighbouring samples are <= 1/1500 of the curve length apart) with golden-section "
    "refinement of local minima. Edge cell: one Loft with one OnCurve edge in any of the 12 edge positions, written and "
    "parsed by vf.foamdict; then 0-2 times the two vertices are moved (vertex.move_to) to other points of the curve, the "
    "other six corners are jiggled, and the same mesh is written and judged again. Non-trivial: spacing ratio > 2 "
    "(point curves) and the two parameters not both at the bounds; distinct = distinct generated case."
)
ASSUMPTIONS = [
    "spline-interpolated curves need >= 4 points (scipy's cubic make_interp_spline); discrete-curve parameters are "
    "integer indexes and the two parameters of a length query differ",
    "same-function evaluations (discretize ends vs get_point) are compared to 1e-12 of the curve size; interpolation "
    "through points and piecewise-linear lengths to 1e-9 of the curve length",
    "spline / analytic lengths are inscribed-polyline approximations in the library: asserted two-sided "
    "len(a,b) <= len(a,m)+len(m,b) <= dense arc length (1e-5 relative slack; the harness' dense vertex set contains "
    "every parameter the library can use); analytic curves with total turning <= 4 pi must be additive to 2e-3",
    "closest parameter: |P(t*)-q| <= minimum over the dense samples + 3e-6 of the curve length, asserted for near "
    "queries only; converged answers of the library are within 2.7e-8 L (sqrt(eps) accuracy of scipy's bounded scalar "
    "search; measured over 18 000 near queries), so the margin is 100x",
    "a curve obtained by transforming another one is judged like any other curve (the statement quantifies over curves, "
    "not over how they were made); the expected image of the defining points is computed by the harness; shear planes "
    "keep every point further than TOL on one side (the library leaves points on the plane alone)",
    "LineCurve / CircleCurve follow their documented parametrisation (p1 + t (p2 - p1); the rim point rotated by t about "
    "the normal, right-handed): the harness' closed forms stand for them when sampling densely",
    "edge cell: vertices are placed on the curve at points it passes exactly once (else the edge is not judged: "
    "counted); the library's closest-parameter query must find them (same oracle as the closest cells); written "
    "coordinates carry 8 decimals: tolerance 1e-6 L + 2e-8; Edge.length of piecewise-linear curves to 1e-7 L",
]

TWO_PI = 2 * math.pi

# --------------------------------------------------------------------------------------------------
# generators

_unit = st.floats(-1.0, 1.0)
_vec = st.tuples(_unit, _unit, _unit).map(list)
# model size: 0.1 ... 100, or small in absolute units (mm-scale geometry given in metres); the shortest point spacing is
# 1 x scale, i.e. >= 1e-4 = 1000 TOL
_scale = st.one_of(st.floats(-1.0, 2.0).map(lambda u: 10.0**u), st.sampled_from([1.0, 1e-2, 1e-3, 3e-4, 1e-4]))


def _normalised(v, fallback):
    v = np.asarray(v, dtype=float)
    n = np.linalg.norm(v)
    return np.asarray(fallback, dtype=float) if n < 0.05 else v / n


@st.composite
def point_set(draw, nmin=3, nmax=12):
    n = draw(st.integers(nmin, nmax))
    scale = draw(_scale)
    turn = draw(st.sampled_from([0.1, 0.3, 1.0]))
    p = np.array(draw(_vec)) * 3 * scale
    d = _normalised(draw(_vec), [1, 0, 0])
    pts = [p]
    for _ in range(n - 1):
        step = scale * 20.0 ** draw(st.floats(0.0, 1.0))
        d = _normalised(d + np.array(draw(_vec)) * turn, d)
        pts.append(pts[-1] + d * step)
    return [[float(x) for x in q] for q in pts]


@st.composite
def frame(draw):
    return {"axis": draw(_vec), "angle": draw(st.floats(-math.pi, math.pi)), "origin": draw(_vec)}


def transformed_points(points, tr):
    """the harness' own image of the points under the drawn transform"""
    P = np.array(points, dtype=float)
    kind = tr["kind"]
    if kind == "translate":
        return P + np.array(tr["displacement"])
    if kind == "rotate":
        return apply(m_rotate(tr["angle"], tr["axis"], tr["origin"]), P)
    if kind == "scale":
        return apply(m_scale(tr["ratio"], tr["origin"]), P)
    if kind == "mirror":
        return apply(m_mirror(tr["normal"], tr["origin"]), P)
    # shear: every point lies on the positive side of the plane (origin, normal) by construction
    n = np.array(tr["normal"]) / np.linalg.norm(tr["normal"])
    d = np.array(tr["direction"]) / np.linalg.norm(tr["direction"])
    return P + np.outer(((P - np.array(tr["origin"])) @ n) / math.tan(tr["angle"]), d)


def image_points(points, tr):
    """image under the drawn transform, followed by the optional second step (a translation)"""
    P = transformed_points(points, tr)
    return P + np.array(tr["then"]) if tr.get("then") else P


def apply_transform(curve, tr):
    """the same through the library: one method call per step, or one transform([...]) call with the list of steps"""
    kind = tr["kind"]
    if tr.get("via") == "list":
        step = {"translate": lambda: cbtr.Translation(tr["displacement"]),
                "rotate": lambda: cbtr.Rotation(tr["axis"], tr["angle"], tr["origin"]),
                "scale": lambda: cbtr.Scaling(tr["ratio"], tr["origin"]),
                "mirror": lambda: cbtr.Mirror(tr["normal"], tr["origin"]),
                "shear": lambda: cbtr.Shear(tr["normal"], tr["origin"], tr["direction"], tr["angle"])}[kind]()
        curve.transform([step, *([cbtr.Translation(tr["then"])] if tr.get("then") else [])])
        return
    if kind == "translate":
        curve.translate(tr["displacement"])
    elif kind == "rotate":
        curve.rotate(tr["angle"], tr["axis"], tr["origin"])
    elif kind == "scale":
        curve.scale(tr["ratio"], tr["origin"])
    elif kind == "mirror":
        curve.mirror(tr["normal"], tr["origin"])
    else:
        curve.shear(tr["normal"], tr["origin"], tr["direction"], tr["angle"])
    if tr.get("then"):
        curve.translate(tr["then"])


@st.composite
def transform_of(draw, points):
    P = np.array(points)
    centre = P.mean(axis=0)
    size = float(np.linalg.norm(P - centre, axis=1).max())
    kind = draw(st.sampled_from(["shear", "shear", "translate", "rotate", "scale", "mirror"]))
    origin = [float(x) for x in centre + size * np.array(draw(_vec))]
    # one method call per step (curve.rotate(...)) or the transformation-list interface (curve.transform([...]))
    common = {"kind": kind, "via": draw(st.sampled_from(["method", "list"]))}
    if draw(st.sampled_from([False, False, True])):
        common["then"] = [float(x) for x in size * np.array(draw(_vec))]
    if kind == "translate":
        return {**common, "displacement": [float(x) for x in 2 * size * np.array(draw(_vec))]}
    if kind == "rotate":
        return {**common, "angle": draw(st.floats(-3.0, 3.0)), "axis": [float(x) for x in _normalised(draw(_vec), [0, 0, 1])],
                "origin": origin}
    if kind == "scale":
        return {**common, "ratio": draw(st.floats(0.3, 3.0)), "origin": origin}
    if kind == "mirror":
        return {**common, "normal": [float(x) for x in _normalised(draw(_vec), [0, 0, 1]) * draw(st.sampled_from([1.0, 0.3, 4.0]))],
                "origin": origin}
    n = _normalised(draw(_vec), [0, 0, 1])
    d = np.array(draw(_vec))
    d = _normalised(d - (d @ n) * n, np.cross(n, [1, 0, 0]) if abs(n[0]) < 0.9 else np.cross(n, [0, 1, 0]))
    d = d - (d @ n) * n
    below = centre - n * (float(((P - centre) @ n).max() - ((P - centre) @ n).min()) + 0.5 * size)
    angle = draw(st.sampled_from([1.0, -1.0])) * draw(st.floats(0.5, 1.3))
    return {**common, "normal": [float(x) for x in n * draw(st.sampled_from([1.0, 0.3, 4.0]))],
            "direction": [float(x) for x in d / np.linalg.norm(d) * draw(st.sampled_from([1.0, 0.3, 4.0]))],
            "origin": [float(x) for x in below], "angle": angle if angle > 0 else math.pi + angle}


@st.composite
def point_curve(draw, kinds=("linear", "spline")):
    kind = draw(st.sampled_from(list(kinds)))
    spec = {"type": kind}
    if kind != "discrete":
        spec["equalize"] = draw(st.sampled_from([True, False]))
    # the first library call after construction / transformation (None: the cell's own first query)
    spec["first"] = draw(st.sampled_from([None, None, "point", "length", "closest"]))
    points = draw(point_set(4 if kind == "spline" else 3))
    if kind == "discrete":
        # a point list far from the origin compared with its resolution (surveyed / UTM-like coordinates): the shortest
        # spacing is 1 x scale, the offset up to 1e8 x scale in each coordinate (one ulp there is 2e-8 of the spacing)
        ratio = draw(st.sampled_from([0.0, 0.0, 1e5, 3e7, 1e8]))
        if ratio:
            seg = np.linalg.norm(np.diff(np.array(points), axis=0), axis=1).min()
            shift = ratio * seg * np.array([draw(st.floats(0.3, 1.0)) * draw(st.sampled_from([1.0, -1.0])) for _ in range(3)])
            points = [[float(x) for x in q] for q in np.array(points) + shift]
        spec["offset_ratio"] = ratio
    if draw(st.sampled_from([False, False, True, True, True])):
        # the curve is built from source_points and transformed by the library; "points" is where the harness expects it
        spec["source_points"] = points
        spec["transform"] = draw(transform_of(points))
        points = [[float(x) for x in q] for q in image_points(points, spec["transform"])]
    spec["points"] = points
    return spec


@st.composite
def detail_curve(draw):
    """A piecewise-linear curve of size ~1 with a finely resolved detail: two straight legs joined by a fillet of radius
    0.005-0.02 through 20-120 points (segments of 6e-5 ... 1.6e-3, i.e. >= 600 TOL), in a random frame."""
    r = draw(st.floats(0.005, 0.02))
    m = draw(st.integers(20, 120))
    legs = [draw(st.floats(0.3, 1.0)), draw(st.floats(0.3, 1.0))]
    n_leg = [draw(st.integers(1, 3)), draw(st.integers(1, 3))]
    fr = draw(frame())
    rot = rodrigues(_normalised(fr["axis"], [0, 0, 1]), fr["angle"])
    pts = [[-legs[0] * (1 - i / n_leg[0]), 0.0, 0.0] for i in range(n_leg[0])]
    pts += [[r * math.sin(a), r * (1 - math.cos(a)), 0.0] for a in np.linspace(0, math.pi / 2, m + 1)]
    pts += [[r, r + legs[1] * (i + 1) / n_leg[1], 0.0] for i in range(n_leg[1])]
    pts = np.array(pts) @ rot.T + np.array(fr["origin"])
    return {"type": "linear", "equalize": draw(st.sampled_from([True, False])), "detail": {"r": r, "m": m},
            "points": [[float(x) for x in q] for q in pts]}


@st.composite
def analytic_curve(draw, kinds=("line", "circle", "helix", "cubic")):
    kind = draw(st.sampled_from(list(kinds)))
    spec = {"type": kind, "frame": draw(frame()), "scale": draw(_scale)}
    if kind == "line":
        lo = draw(st.sampled_from([0.0, -0.5, -0.5, 0.25, -1.0]))
        spec["bounds"] = [lo, lo + draw(st.sampled_from([1.0, 1.0, 0.5, 2.5]))]
    elif kind == "circle":
        if draw(st.booleans()):
            spec["bounds"] = [0.0, TWO_PI]
        else:
            lo = draw(st.floats(-math.pi, math.pi))
            spec["bounds"] = [lo, lo + draw(st.floats(0.5, TWO_PI))]
        spec["normal_length"] = draw(st.sampled_from([1.0, 0.2, 7.0]))
    elif kind == "helix":
        lo = draw(st.sampled_from([0.0, 0.0, -2.0, -0.5]))
        spec["bounds"] = [lo, lo + draw(st.floats(1.0, 2 * TWO_PI))]
        # more than one turn must not overlap itself: the pitch stays away from 0
        spec["pitch"] = draw(st.floats(0.05, 1.0)) * draw(st.sampled_from([1.0, -1.0]))
    else:
        spec["bounds"] = [draw(st.floats(-1.0, -0.2)), draw(st.floats(0.2, 1.0))]
        spec["coef"] = [draw(st.floats(0.5, 2.0)), draw(st.floats(-2.0, 2.0)), draw(st.floats(-2.0, 2.0))]
    if kind in ("helix", "cubic"):
        # how the user wrote the function: "components" = np.array([x(t), y(t), z(t)]) with numpy ufuncs (takes a scalar or an
        # array of parameters, then of shape (3, n)); "scalar" = math.* functions, scalars only; "rows" = a wrapper around a
        # vectorised function that returns the first row
        spec["style"] = draw(st.sampled_from(["components", "scalar", "rows"]))
    return spec


def break_params(spec):
    """parameters of the defining points, computed by the harness (None for analytic curves)"""
    if spec["type"] == "discrete":
        return [float(i) for i in range(len(spec["points"]))]
    if spec["type"] in ("linear", "spline"):
        p = np.array(spec["points"])
        if spec["equalize"]:
            c = np.concatenate(([0.0], np.cumsum(np.linalg.norm(np.diff(p, axis=0), axis=1))))
            return [min(1.0, float(x)) for x in c / c[-1]]
        return [i / (len(p) - 1) for i in range(len(p))]
    return None


def bounds_of(spec):
    if spec["type"] == "discrete":
        return 0.0, float(len(spec["points"]) - 1)
    if spec["type"] in ("linear", "spline"):
        return 0.0, 1.0
    return float(spec["bounds"][0]), float(spec["bounds"][1])


@st.composite
def param(draw, spec):
    b0, b1 = bounds_of(spec)
    if spec["type"] == "discrete":
        return draw(st.integers(0, int(b1)))
    brk = break_params(spec)
    options = [st.floats(0.0, 1.0).map(lambda f: min(b1, max(b0, b0 + f * (b1 - b0)))), st.sampled_from([b0, b1])]
    if brk:
        options.append(st.sampled_from(brk))
    if b0 < 0 <= b1:
        # an explicit parameter of exactly zero (int and float) is a value like any other, not "use the bound"
        options.append(st.sampled_from([0, 0.0]))
    return draw(st.one_of(options))


@st.composite
def curve_and_params(draw, curve_strategy, k=2):
    spec = draw(curve_strategy)
    ps = [draw(param(spec)) for _ in range(k)]
    if ps[0] == ps[1] and draw(st.sampled_from([True] * 7 + [False])):
        # equal parameters are legitimate but trivial: keep only a few
        b0, b1 = bounds_of(spec)
        ps[1] = (b1 if ps[0] != b1 else b0) if spec["type"] != "discrete" else (int(b1) if ps[0] != int(b1) else 0)
    return {"curve": spec, "params": ps}


# --------------------------------------------------------------------------------------------------
# building the library object and the harness' own model of the same curve


def _frame(spec):
    fr = spec["frame"]
    rot = rodrigues(_normalised(fr["axis"], [0, 0, 1]), fr["angle"])
    return rot, np.array(fr["origin"]) * 3 * spec["scale"]


def build(spec):
    """-> (library curve, ref(ts) -> (N, 3) array or None when only the library defines the curve)"""
    kind = spec["type"]
    if kind in ("discrete", "linear", "spline"):
        source = spec.get("source_points", spec["points"])
        if kind == "discrete":
            curve = DiscreteCurve(source)
        else:
            curve = (LinearInterpolatedCurve if kind == "linear" else SplineInterpolatedCurve)(source, equalize=spec["equalize"])
        try:
            if "transform" in spec:
                apply_transform(curve, spec["transform"])
            first = spec.get("first")
            if first == "point":
                curve.get_point(curve.bounds[0])
            elif first == "length":
                curve.get_length(curve.bounds[0], curve.bounds[1])
            elif first == "closest":
                curve.get_closest_param(spec["points"][0])
        except Exception as ex:  # noqa: BLE001
            raise Violation("curve-setup-raised", f"transform / first query raised {type(ex).__name__}: {ex}",
                            type=kind, transform=(spec.get("transform") or {}).get("kind"), first=spec.get("first")) from None
        if kind != "linear":
            return curve, None
        prm = np.array(break_params(spec))
        pts = np.array(spec["points"])

        def ref_linear(ts):
            ts = np.atleast_1d(np.asarray(ts, dtype=float))
            return np.stack([np.interp(ts, prm, pts[:, k]) for k in range(3)], axis=1)

        return curve, ref_linear
    rot, org = _frame(spec)
    s = spec["scale"]
    e1, e2, e3 = rot[:, 0], rot[:, 1], rot[:, 2]
    bounds = (spec["bounds"][0], spec["bounds"][1])
    if kind == "line":
        p1, p2 = org, org + e1 * s

        def ref_line(ts):
            ts = np.atleast_1d(np.asarray(ts, dtype=float))
            return p1 + np.outer(ts, p2 - p1)

        return LineCurve(p1, p2, bounds), ref_line
    if kind == "circle":

        def ref_circle(ts):
            ts = np.atleast_1d(np.asarray(ts, dtype=float))
            return org + s * (np.outer(np.cos(ts), e1) + np.outer(np.sin(ts), e2))

        return CircleCurve(org, org + s * e1, e3 * spec["normal_length"], bounds), ref_circle
    if kind == "helix":
        pitch = spec["pitch"] * s

        def ref_helix(ts):
            ts = np.atleast_1d(np.asarray(ts, dtype=float))
            return org + s * (np.outer(np.cos(ts), e1) + np.outer(np.sin(ts), e2)) + np.outer(pitch * ts, e3)

        fx, fy, fz = (np.cos, np.sin, lambda t: t) if spec.get("style") != "scalar" else (math.cos, math.sin, lambda t: t)
        coef = [(s * e1[k], s * e2[k], pitch * e3[k]) for k in range(3)]
        return AnalyticCurve(user_function(spec, ref_helix, org, coef, (fx, fy, fz)), bounds), ref_helix
    a, b, c = (x * s for x in spec["coef"])

    def ref_cubic(ts):
        ts = np.atleast_1d(np.asarray(ts, dtype=float))
        return org + np.outer(a * ts, e1) + np.outer(b * ts**2, e2) + np.outer(c * ts**3, e3)

    coef = [(a * e1[k], b * e2[k], c * e3[k]) for k in range(3)]
    powers = (lambda t: t, lambda t: t**2, lambda t: t**3)
    return AnalyticCurve(user_function(spec, ref_cubic, org, coef, powers), bounds), ref_cubic


def user_function(spec, ref, org, coef, basis):
    """P(t) = org + sum_j coef[.][j] basis[j](t), written the way users write curve functions"""
    style = spec.get("style", "rows")
    if style == "rows":
        return lambda t: ref(t)[0]
    f0, f1, f2 = basis

    def component(k, t):
        return org[k] + coef[k][0] * f0(t) + coef[k][1] * f1(t) + coef[k][2] * f2(t)

    if style == "scalar":
        return lambda t: np.array([component(0, float(t)), component(1, float(t)), component(2, float(t))])
    return lambda t: np.array([component(0, t), component(1, t), component(2, t)])


def sampler(curve, ref):
    """points of the curve at an array of parameters: the harness' closed form where there is one, else get_point"""
    if ref is not None:
        return ref
    return lambda ts: np.array([np.asarray(curve.get_point(float(t)), dtype=float) for t in np.atleast_1d(ts)])


def polyline(points) -> float:
    points = np.asarray(points, dtype=float)
    return float(np.sum(np.linalg.norm(np.diff(points, axis=0), axis=1)))


def size_of(spec) -> float:
    """a length scale of the curve (its extent), for absolute tolerances"""
    if "points" in spec:
        return polyline(spec["points"])
    b0, b1 = bounds_of(spec)
    return spec["scale"] * max(1.0, abs(b1 - b0))


def size_labels(spec):
    """absolute size classes (the library's tolerances are absolute: TOL = 1e-7); how the curve was obtained"""
    size = size_of(spec)
    out = ["size<1e-2" if size < 1e-2 else ("size<1" if size < 1 else "size>=1")]
    if "points" in spec:
        out += ["transform=" + str((spec.get("transform") or {}).get("kind")), "first=" + str(spec.get("first") or "own")]
        if spec.get("transform"):
            out.append("transform-via=" + spec["transform"].get("via", "method") + ("+then" if spec["transform"].get("then") else ""))
    if "points" in spec:
        seg = np.linalg.norm(np.diff(np.array(spec["points"]), axis=0), axis=1)
        out.append("shortest-segment<3e-4" if seg.min() < 3e-4 else "shortest-segment>=3e-4")
    if "detail" in spec:
        out.append("fine-detail")
    return out


def rounding_noise(spec) -> float:
    """what float64 rounding of the coordinates themselves can contribute to a distance"""
    return 16 * np.finfo(float).eps * float(np.abs(np.array(spec["points"])).max()) if "points" in spec else 0.0


def spacing_ratio(spec) -> float:
    if "points" not in spec:
        return math.inf
    seg = np.linalg.norm(np.diff(np.array(spec["points"]), axis=0), axis=1)
    return float(seg.max() / seg.min())


def facts_of(case, **more):
    spec = case["curve"]
    out = {"type": spec["type"], "equalize": spec.get("equalize"), "n": len(spec.get("points", [])),
           "transform": (spec.get("transform") or {}).get("kind"), "first": spec.get("first"), **more}
    if "params" in case:
        out["params"] = case["params"]
    return out


def call(kind, case, fn, *args):
    """a library call the property says must work for valid parameters"""
    try:
        return fn(*args)
    except Exception as ex:  # noqa: BLE001
        raise Violation(kind, f"{fn.__name__}{args} raised {type(ex).__name__}: {ex}", **facts_of(case)) from None


def nontrivial(case, ctx: Ctx) -> None:
    spec = case["curve"]
    b0, b1 = bounds_of(spec)
    at_bounds = all(p in (b0, b1) for p in case.get("params", [])[:2])
    ratio = spacing_ratio(spec)
    ctx.nt(ratio > 2 and not at_bounds)
    ctx.label("type=" + spec["type"] + ("/eq" if spec.get("equalize") else ""))
    if "style" in spec:
        ctx.label("function-style=" + spec["style"])
    if "points" in spec:
        ctx.label("ratio>2" if ratio > 2 else "ratio<=2", "ratio>10" if ratio > 10 else "ratio<=10", *size_labels(spec)[1:])
    if "params" in case and len(case["params"]) >= 2:
        a, b = case["params"][:2]
        ctx.label("a<b" if a < b else ("a>b" if a > b else "a=b"))


# --------------------------------------------------------------------------------------------------
# discretize ends


def check_ends(case, ctx: Ctx) -> None:
    spec = case["curve"]
    curve, _ = build(spec)
    a, b = case["params"]
    b0, b1 = bounds_of(spec)
    use_none = case.get("none", [False, False])
    args = [None if use_none[0] else a, None if use_none[1] else b]
    a_eff = b0 if use_none[0] else a
    b_eff = b1 if use_none[1] else b
    if spec["type"] == "discrete":
        a_eff, b_eff = int(a_eff), int(b_eff)
        pts = call("discretize-raised", case, curve.discretize, *args)
    else:
        pts = call("discretize-raised", case, curve.discretize, *args, case["count"])
    pts = np.asarray(pts, dtype=float)
    pa = np.asarray(call("get-point-raised", case, curve.get_point, a_eff), dtype=float)
    pb = np.asarray(call("get-point-raised", case, curve.get_point, b_eff), dtype=float)
    tol = 1e-12 * size_of(spec) + rounding_noise(spec)
    if pts.ndim != 2 or pts.shape[1] != 3 or len(pts) < 1:
        raise Violation("discretize-shape", f"discretize returned shape {pts.shape}", **facts_of(case))
    if np.linalg.norm(pts[0] - pa) > tol:
        raise Violation("discretize-start", f"first point {pts[0].tolist()} != get_point({a_eff}) = {pa.tolist()}",
                        **facts_of(case, end="start"))
    if np.linalg.norm(pts[-1] - pb) > tol:
        raise Violation("discretize-end", f"last point {pts[-1].tolist()} != get_point({b_eff}) = {pb.tolist()}",
                        **facts_of(case, end="end"))
    nontrivial(case, ctx)
    if any(use_none):
        ctx.label("default-bound")
    if spec["type"] != "discrete":
        ctx.label("count=%d" % case["count"] if case["count"] <= 5 else "count>5")


@st.composite
def ends_case(draw):
    case = draw(curve_and_params(st.one_of(point_curve(("discrete", "linear", "spline")), analytic_curve())))
    case["count"] = draw(st.one_of(st.sampled_from([2, 3, 4, 5]), st.integers(2, 30)))
    _sometimes = st.sampled_from([False] * 5 + [True])
    case["none"] = [draw(_sometimes), draw(_sometimes)]
    return case


# --------------------------------------------------------------------------------------------------
# interpolation through the defining points


def check_through(case, ctx: Ctx) -> None:
    spec = case["curve"]
    curve, _ = build(spec)
    tol = 1e-9 * size_of(spec)
    for i, (t, p) in enumerate(zip(break_params(spec), spec["points"])):
        got = np.asarray(call("get-point-raised", case, curve.get_point, t), dtype=float)
        if np.linalg.norm(got - np.array(p)) > tol:
            raise Violation("not-through-point", f"point {i} {p} at parameter {t}: curve gives {got.tolist()}",
                            **facts_of(case, index=i))
    ctx.nt(spacing_ratio(spec) > 2)
    ctx.label("type=" + spec["type"] + ("/eq" if spec["equalize"] else ""))


# --------------------------------------------------------------------------------------------------
# lengths


def _mid(case):
    a, b, m = case["params"]
    lo, hi = min(a, b), max(a, b)
    return min(hi, max(lo, m))


def _len(case, curve, a, b) -> float:
    v = float(call("get-length-raised", case, curve.get_length, a, b))
    if not math.isfinite(v) or v < 0:
        raise Violation("length-invalid", f"get_length({a}, {b}) = {v}", **facts_of(case))
    return v


def check_length_discrete(case, ctx: Ctx) -> None:
    spec = case["curve"]
    curve, _ = build(spec)
    a, b, m = case["params"]
    pts = np.array(spec["points"])
    lo, hi = min(a, b), max(a, b)
    L = polyline(pts)
    tol = 1e-12 * L + len(pts) * rounding_noise(spec)
    lab = _len(case, curve, a, b)
    want = polyline(pts[lo : hi + 1])
    if abs(lab - want) > tol:
        raise Violation("length-not-polyline", f"get_length({a}, {b}) = {lab}, polyline of points {lo}..{hi} = {want}",
                        **facts_of(case))
    lba = _len(case, curve, b, a)
    if abs(lab - lba) > tol:
        raise Violation("length-asymmetric", f"get_length({a}, {b}) = {lab} but get_length({b}, {a}) = {lba}", **facts_of(case))
    if lo < m < hi:
        parts = _len(case, curve, a, m) + _len(case, curve, m, b)
        if abs(parts - lab) > tol:
            raise Violation("length-not-additive", f"len({a},{b}) = {lab}, len({a},{m}) + len({m},{b}) = {parts}", **facts_of(case))
        ctx.label("split")
    nontrivial(case, ctx)


@st.composite
def length_discrete_case(draw):
    spec = draw(point_curve(("discrete",)))
    n = len(spec["points"])
    a = draw(st.integers(0, n - 1))
    b = draw(st.integers(0, n - 2))
    b = b if b < a else b + 1
    m = draw(st.integers(min(a, b), max(a, b)))
    return {"curve": spec, "params": [a, b, m]}


def ref_linear_length(ref, brk, a, b) -> float:
    lo, hi = min(a, b), max(a, b)
    ts = [lo, *[t for t in brk if lo < t < hi], hi]
    return polyline(ref(ts))


def check_length_linear(case, ctx: Ctx) -> None:
    spec = case["curve"]
    curve, ref = build(spec)
    a, b, _ = case["params"]
    m = _mid(case)
    brk = break_params(spec)
    L = polyline(spec["points"])
    tol = 1e-9 * L
    lab = _len(case, curve, a, b)
    want = ref_linear_length(ref, brk, a, b)
    if abs(lab - want) > tol:
        raise Violation("length-not-polyline", f"get_length({a}, {b}) = {lab}, polyline length = {want}",
                        **facts_of(case, reversed=a > b))
    lba = _len(case, curve, b, a)
    if abs(lab - lba) > tol:
        raise Violation("length-asymmetric", f"get_length({a}, {b}) = {lab} but get_length({b}, {a}) = {lba}",
                        **facts_of(case, reversed=a > b))
    parts = _len(case, curve, a, m) + _len(case, curve, m, b)
    if abs(parts - lab) > tol:
        raise Violation("length-not-additive", f"len({a},{b}) = {lab}, len({a},{m}) + len({m},{b}) = {parts}",
                        **facts_of(case, reversed=a > b))
    full = float(call("get-length-raised", case, lambda: curve.length))
    if abs(full - L) > tol:
        raise Violation("length-not-polyline", f"curve.length = {full}, polyline through the points = {L}",
                        **facts_of(case, reversed=False))
    nontrivial(case, ctx)
    inner = sum(1 for t in brk if min(a, b) < t < max(a, b))
    ctx.label("breaks-between=0" if inner == 0 else ("breaks-between=1" if inner == 1 else "breaks-between>=2"))


def dense_params(a, b, extra=(), n=2001):
    lo, hi = min(a, b), max(a, b)
    ts = np.concatenate((np.linspace(lo, hi, n), [t for t in extra if lo <= t <= hi]))
    return np.unique(ts)


def check_length_spline(case, ctx: Ctx) -> None:
    spec = case["curve"]
    curve, _ = build(spec)
    a, b, _ = case["params"]
    m = _mid(case)
    brk = break_params(spec)
    L = polyline(spec["points"])
    lab = _len(case, curve, a, b)
    lba = _len(case, curve, b, a)
    if abs(lab - lba) > 1e-9 * L:
        raise Violation("length-asymmetric", f"get_length({a}, {b}) = {lab} but get_length({b}, {a}) = {lba}",
                        **facts_of(case, reversed=a > b))
    parts = _len(case, curve, a, m) + _len(case, curve, m, b)
    ts = dense_params(a, b, [*brk, m])
    dense = polyline(sampler(curve, None)(ts))
    chord = float(np.linalg.norm(np.asarray(curve.get_point(a)) - np.asarray(curve.get_point(b))))
    facts = facts_of(case, reversed=a > b, len_ab=lab, parts=parts, dense=dense)
    if lab > parts + 1e-9 * L:
        raise Violation("length-superadditive", f"len({a},{b}) = {lab} > len({a},{m}) + len({m},{b}) = {parts}", **facts)
    if parts > dense * (1 + 1e-5) + 1e-9 * L:
        raise Violation("length-exceeds-arc", f"len({a},{m}) + len({m},{b}) = {parts} > dense arc length {dense}", **facts)
    if lab < chord - 1e-9 * L:
        raise Violation("length-below-chord", f"len({a},{b}) = {lab} < chord {chord}", **facts)
    nontrivial(case, ctx)
    inner = sum(1 for t in brk if min(a, b) < t < max(a, b))
    ctx.label("breaks-between=0" if inner == 0 else ("breaks-between=1" if inner == 1 else "breaks-between>=2"))


def check_length_analytic(case, ctx: Ctx) -> None:
    spec = case["curve"]
    curve, ref = build(spec)
    a, b, _ = case["params"]
    m = _mid(case)
    lab = _len(case, curve, a, b)
    lba = _len(case, curve, b, a)
    S = size_of(spec)
    if abs(lab - lba) > 1e-9 * S:
        raise Violation("length-asymmetric", f"get_length({a}, {b}) = {lab} but get_length({b}, {a}) = {lba}",
                        **facts_of(case, reversed=a > b))
    parts = _len(case, curve, a, m) + _len(case, curve, m, b)
    facts = facts_of(case, reversed=a > b, len_ab=lab, parts=parts)
    if spec["type"] == "line":
        want = abs(b - a) * spec["scale"]
        if abs(lab - want) > 1e-9 * S:
            raise Violation("length-not-polyline", f"line: get_length({a}, {b}) = {lab}, expected {want}", **facts)
        if abs(parts - lab) > 1e-9 * S:
            raise Violation("length-not-additive", f"line: len({a},{b}) = {lab}, split sum {parts}", **facts)
    else:
        # every parameter the library's 100-point polylines can use is a vertex of the dense polyline
        extra = np.concatenate((np.linspace(a, b, 100), np.linspace(a, m, 100), np.linspace(m, b, 100)))
        dense = polyline(ref(dense_params(a, b, extra, n=4001)))
        facts["dense"] = dense
        if lab > parts * (1 + 1e-9) + 1e-9 * S:
            raise Violation("length-superadditive", f"len({a},{b}) = {lab} > split sum {parts}", **facts)
        if parts > dense * (1 + 1e-5) + 1e-9 * S:
            raise Violation("length-exceeds-arc", f"split sum {parts} > dense arc length {dense}", **facts)
        if parts - lab > 2e-3 * dense + 1e-9 * S:
            raise Violation("length-not-additive", f"len({a},{b}) = {lab}, split sum {parts} (dense {dense})", **facts)
    b0, b1 = bounds_of(spec)
    ctx.nt(not all(p in (b0, b1) for p in (a, b)) and a != b)
    ctx.label("type=" + spec["type"], "a<b" if a < b else ("a>b" if a > b else "a=b"))


# --------------------------------------------------------------------------------------------------
# closest parameter


def golden(fn, lo, hi, iters=70):
    g = (math.sqrt(5) - 1) / 2
    c, d = hi - g * (hi - lo), lo + g * (hi - lo)
    fc, fd = fn(c), fn(d)
    for _ in range(iters):
        if fc < fd:
            hi, d, fd = d, c, fc
            c = hi - g * (hi - lo)
            fc = fn(c)
        else:
            lo, c, fc = c, d, fd
            d = lo + g * (hi - lo)
            fd = fn(d)
    return (c, fc) if fc < fd else (d, fd)


class CurveSamples:
    """The curve sampled once, refined until neighbouring samples are no further apart than 1/1500 of its length (the
    parametrisation of an interpolated curve can be 100x faster in one place than in another)."""

    def __init__(self, sample, b0, b1, extra=()):
        self.sample = sample
        ts = dense_params(b0, b1, extra, n=801)
        pts = sample(ts)
        for _ in range(12):
            seg = np.linalg.norm(np.diff(pts, axis=0), axis=1)
            long = np.nonzero(seg > seg.sum() / 1500)[0]
            if len(long) == 0 or len(ts) > 12000:
                break
            mid = 0.5 * (ts[long] + ts[long + 1])
            ts = np.concatenate((ts, mid))
            pts = np.concatenate((pts, sample(mid)))
            order = np.argsort(ts, kind="stable")
            ts, pts = ts[order], pts[order]
        self.ts, self.pts = ts, pts
        self.length = polyline(pts)

    def minima(self, q, lo, hi, keep=6):
        """refined local minima [(distance, t)] of |P(t) - q| over [lo, hi], best first"""
        sel = np.nonzero((self.ts >= lo) & (self.ts <= hi))[0]
        if len(sel) == 0:
            t = 0.5 * (lo + hi)
            return [(float(np.linalg.norm(self.sample([t])[0] - q)), t)]
        ts = self.ts[sel]
        prof = np.linalg.norm(self.pts[sel] - q, axis=1)
        cand = [i for i in range(len(prof))
                if prof[i] <= (prof[i - 1] if i > 0 else math.inf) and prof[i] <= (prof[i + 1] if i < len(prof) - 1 else math.inf)]
        cand = sorted(cand, key=lambda i: prof[i])[:keep]
        out = []
        for i in cand:
            a, b = max(lo, ts[max(i - 1, 0)]), min(hi, ts[min(i + 1, len(ts) - 1)])
            t, d = golden(lambda t: float(np.linalg.norm(self.sample([t])[0] - q)), a, b, iters=45) if b > a else (a, prof[i])
            out.append((min(d, float(prof[i])), float(t) if d <= prof[i] else float(ts[i])))
        return sorted(out)

    def nearest(self, q, lo, hi):
        d, t = self.minima(q, lo, hi)[0]
        return t, d


TOL_CLOSEST = 3e-6  # of the curve length; converged answers of the fixed tree are within 2.7e-8 L (sqrt(eps) of the bounded search)


def judge_closest(curve, cs, q, b0, b1, facts):
    """get_closest_param(q) must give a point at least as close to q as every dense sample (cs.pts).  The fact
    returned_is_local_minimiser tells a refinement that worked in the wrong neighbourhood from one that did not work.
    Returns (t, excess / L)."""
    try:
        t = float(curve.get_closest_param(q))
    except Exception as ex:  # noqa: BLE001
        raise Violation("closest-raised", f"get_closest_param raised {type(ex).__name__}: {ex}", **facts) from None
    span = b1 - b0
    if not (b0 - 1e-9 * span <= t <= b1 + 1e-9 * span):
        raise Violation("closest-out-of-bounds", f"get_closest_param returned {t}, bounds are ({b0}, {b1})", **facts, t=t)
    d = float(np.linalg.norm(cs.sample([min(b1, max(b0, t))])[0] - q))
    prof = np.linalg.norm(cs.pts - q, axis=1)
    i_min = int(np.argmin(prof))
    L = cs.length
    if d <= prof[i_min] + TOL_CLOSEST * L:
        return t, (d - float(prof[i_min])) / L
    mins = cs.minima(q, b0, b1, keep=40)
    local = any(abs(tm - t) <= 2e-3 * span and abs(dm - d) <= 1e-7 * L for dm, tm in mins)
    facts = dict(facts, t=t, distance=d, dense_min=float(prof[i_min]), t_dense=float(cs.ts[i_min]), length=L,
                 local_minima=len(mins), returned_is_local_minimiser=bool(local))
    raise Violation("closest-not-minimal",
                    f"returned t = {t} at distance {d}; the dense sample at t = {facts['t_dense']} is at {facts['dense_min']} "
                    f"(curve length {L})", **facts)


def query_point(case, sample):
    spec = case["curve"]
    qs = case["query"]
    t0 = case["params"][0]
    p0 = sample([t0])[0]
    u = _normalised(qs["dir"], [0, 0, 1])
    if qs["mode"] == "far":
        return p0 + u * qs["frac"] * size_of(spec), None
    if "points" in spec:
        pts = np.array(spec["points"])
        seg = np.linalg.norm(np.diff(pts, axis=0), axis=1)
        brk = break_params(spec)
        i = min(len(seg) - 1, max(0, int(np.searchsorted(brk, t0, side="right")) - 1))
        local = float(min(seg[i], seg[max(i - 1, 0)])) if spec["type"] == "discrete" else float(seg[i])
    else:
        local = size_of(spec) / 14
    return p0 + u * qs["frac"] * local, local


@st.composite
def closest_case(draw, curve_strategy):
    spec = draw(curve_strategy)
    b0, b1 = bounds_of(spec)
    t0 = draw(param(spec))
    if spec["type"] == "circle" and b1 - b0 > TWO_PI - 0.3:
        # closed (or nearly closed) curve: keep the query away from the seam
        f = draw(st.floats(0.08, 0.92))
        t0 = b0 + f * (b1 - b0)
    mode = draw(st.sampled_from(["near", "near", "near", "far"]))
    frac = draw(st.sampled_from([0.0, 1e-6, 1e-3, 0.01, 0.05]) if mode == "near" else st.floats(0.5, 3.0))
    return {"curve": spec, "params": [t0], "query": {"mode": mode, "frac": frac, "dir": draw(_vec)}}


def check_closest_discrete(case, ctx: Ctx) -> None:
    spec = case["curve"]
    curve, _ = build(spec)
    pts = np.array(spec["points"])
    q, _local = query_point(case, lambda ts: pts[[int(t) for t in ts]])
    mode = case["query"]["mode"]
    try:
        t = curve.get_closest_param(q)
    except Exception as ex:  # noqa: BLE001
        if mode == "far":
            ctx.label("far:raised")
            return
        raise Violation("closest-raised", f"get_closest_param raised {type(ex).__name__}: {ex}", **facts_of(case)) from None
    dist = np.linalg.norm(pts - q, axis=1)
    ok = float(t) == int(t) and 0 <= int(t) < len(pts) and dist[int(t)] <= dist.min() + 1e-12 * polyline(pts) + rounding_noise(spec)
    if mode == "far":
        ctx.label("far:as-good" if ok else "far:worse")
        return
    if not (float(t) == int(t) and 0 <= int(t) < len(pts)):
        raise Violation("closest-out-of-bounds", f"get_closest_param returned {t!r} for {len(pts)} points", **facts_of(case))
    if not ok:
        raise Violation("closest-not-minimal", f"returned index {t} at distance {dist[int(t)]}, point {int(np.argmin(dist))} "
                        f"is at {dist.min()}", **facts_of(case))
    ctx.nt(spacing_ratio(spec) > 2)
    ctx.label("near", "frac=%g" % case["query"]["frac"], "offset/spacing=%g" % spec.get("offset_ratio", 0.0))


def check_closest_function(case, ctx: Ctx) -> None:
    spec = case["curve"]
    curve, ref = build(spec)
    sample = sampler(curve, ref)
    b0, b1 = bounds_of(spec)
    q, _local = query_point(case, sample)
    mode = case["query"]["mode"]
    cs = CurveSamples(sample, b0, b1, break_params(spec) or ())
    facts = facts_of(case, frac=case["query"]["frac"], mode=mode)
    if mode == "far":
        # outside the statement ("for queries near the curve"): counted only
        try:
            judge_closest(curve, cs, q, b0, b1, facts)
            ctx.label("far:as-good")
        except Violation as v:
            ctx.label("far:" + v.kind)
        return
    _t, excess = judge_closest(curve, cs, q, b0, b1, facts)
    n_min = len(cs.minima(q, b0, b1, keep=40))
    ctx.nt(spacing_ratio(spec) > 2)
    ctx.label("near", "type=" + spec["type"] + ("/eq" if spec.get("equalize") else ""),
              "unimodal" if n_min == 1 else "multimodal", "frac=%g" % case["query"]["frac"], *size_labels(spec),
              "excess<=0" if excess <= 0 else ("excess<=1e-9" if excess <= 1e-9 else "excess<=3e-6"))


# --------------------------------------------------------------------------------------------------
# OnCurve edges, written

# (vertex 1, vertex 2) of the 12 edge positions in the direction the data is defined: face corners i -> i+1, sides
EDGE_POSITIONS = {
    **{f"bottom{i}": (i, (i + 1) % 4) for i in range(4)},
    **{f"top{i}": (4 + i, 4 + (i + 1) % 4) for i in range(4)},
    **{f"side{i}": (i, i + 4) for i in range(4)},
}


@st.composite
def edge_params(draw, spec):
    """parameters of the two vertices: either order, away from the seam of a closed curve, >= 10 % of the range apart"""
    b0, b1 = bounds_of(spec)
    closed = spec["type"] == "circle" and b1 - b0 > TWO_PI - 0.3
    margin = 0.08 if closed else 0.0
    t1 = draw(param(spec))
    t2 = draw(param(spec))
    lo, hi = b0 + margin * (b1 - b0), b1 - margin * (b1 - b0)
    t1, t2 = min(hi, max(lo, t1)), min(hi, max(lo, t2))
    if abs(t1 - t2) < 0.1 * (b1 - b0):
        t1, t2 = (lo, hi) if draw(st.booleans()) else (hi, lo)
    return [t1, t2]


@st.composite
def edge_case(draw):
    spec = draw(st.one_of(point_curve(("linear", "spline")), analytic_curve(), detail_curve()))
    case = {
        "curve": spec,
        "params": draw(edge_params(spec)),
        "position": draw(st.sampled_from(sorted(EDGE_POSITIONS))),
        "n_points": draw(st.one_of(st.sampled_from([1, 2, 3]), st.integers(1, 12))),
        "representation": draw(st.sampled_from(["spline", "polyLine"])),
        "dirs": [draw(_vec), draw(_vec)],
    }
    # history after the first write: the two vertices are moved to other points of the curve (as an optimiser or the
    # user does with vertex.move_to), the six other corners are jiggled, and the mesh is written again
    steps = draw(st.sampled_from([0, 1, 1, 1, 2]))
    case["history"] = [{"params": draw(edge_params(spec)), "jiggle": [draw(_vec) for _ in range(6)]} for _ in range(steps)]
    return case


def build_edge_mesh(case, curve, v1, v2):
    """a Loft whose edge at `position` runs from v1 to v2; the other points are placed off the chord"""
    chord = v2 - v1
    ln = float(np.linalg.norm(chord))
    u = chord / ln
    w = np.asarray(case["dirs"][0], dtype=float)
    w = w - (w @ u) * u
    w = _normalised(w, np.cross(u, [1, 0, 0]) if abs(u[0]) < 0.9 else np.cross(u, [0, 1, 0]))
    w = w - (w @ u) * u
    w /= np.linalg.norm(w)
    h = np.cross(u, w)
    skew = 0.2 * np.asarray(case["dirs"][1], dtype=float)
    e_w, e_h = ln * (w + skew[0] * u), ln * (h + skew[1] * u + skew[2] * w)
    pos = case["position"]
    k = int(pos[-1])
    if pos.startswith("side"):
        # corner k at v1, corner k+4 at v2: the face lies in the plane spanned by w and h
        quad = [v1, v1 + e_w, v1 + e_w + e_h, v1 + e_h]
        quad = quad[-k:] + quad[:-k] if k else quad
        bottom = np.array(quad)
        top = bottom + (v2 - v1)
    else:
        quad = [v1, v2, v2 + e_w, v1 + e_w]
        quad = quad[-k:] + quad[:-k] if k else quad
        face = np.array(quad)
        if pos.startswith("bottom"):
            bottom, top = face, face + e_h
        else:
            bottom, top = face - e_h, face
    loft = cb.Loft(cb.Face(bottom), cb.Face(top))
    data = cb.OnCurve(curve, n_points=case["n_points"], representation=case["representation"])
    if pos.startswith("bottom"):
        loft.bottom_face.add_edge(k, data)
    elif pos.startswith("top"):
        loft.top_face.add_edge(k, data)
    else:
        loft.add_side_edge(k, data)
    for ax in range(3):
        loft.chop(ax, count=2)
    mesh = cb.Mesh()
    mesh.add(loft)
    return mesh, np.concatenate((bottom, top))


def vertex_on_curve_once(cs, v, t, b0, b1) -> bool:
    """the vertex' own parameter is well defined: the curve passes there exactly once, at t"""
    mins = cs.minima(v, b0, b1)
    return abs(mins[0][1] - t) <= 1e-4 * (b1 - b0) and sum(1 for d, _ in mins if d <= 1e-4 * cs.length) == 1


def judge_written_edge(case, ctx, ctxt, mesh, text, t1, t2, facts):
    """one written file + live edge against the curve and the current vertex parameters t1 -> t2"""
    spec, ref, sample, cs = ctxt["spec"], ctxt["ref"], ctxt["sample"], ctxt["cs"]
    b0, b1 = bounds_of(spec)
    L = cs.length
    tol = 1e-6 * L + 2e-8
    v1, v2 = sample([t1])[0], sample([t2])[0]
    try:
        bmd = lt.parse(text)
    except FoamParseError as ex:
        raise Violation("unparsable", f"written file does not parse: {ex}", **facts) from None
    if len(bmd.edges) != 1:
        raise Violation("edge-entries", f"{len(bmd.edges)} edge entries written for one curved edge", **facts)
    entry = bmd.edges[0]
    c1, c2 = EDGE_POSITIONS[case["position"]]
    ids = bmd.blocks[0].ids
    vpos = [np.array(v.pos) for v in bmd.vertices]
    if np.linalg.norm(vpos[ids[c1]] - v1) > tol or np.linalg.norm(vpos[ids[c2]] - v2) > tol:
        raise Violation("edge-vertices-moved", "block corners are not at the positions given", **facts)
    if entry.kind != case["representation"]:
        raise Violation("edge-kind", f"edge written as {entry.kind!r}, representation {case['representation']!r} requested", **facts)
    if {entry.a, entry.b} != {ids[c1], ids[c2]}:
        raise Violation("edge-wrong-vertices", f"edge between vertices {entry.a} {entry.b}, expected {ids[c1]} {ids[c2]}", **facts)
    pts = [np.array(p, dtype=float) for p in entry.payload]
    if entry.a != ids[c1]:
        pts = pts[::-1]  # listed from the other vertex: legitimate as long as the entry is self-consistent
        ctx.label("written-reversed")
    if len(pts) != case["n_points"]:
        raise Violation("edge-point-count", f"{len(pts)} points written, n_points = {case['n_points']}", **facts)
    lo, hi = min(t1, t2), max(t1, t2)
    slack = 1e-6 * (b1 - b0)
    prev = t1
    sign = 1.0 if t2 >= t1 else -1.0
    for i, p in enumerate(pts):
        if min(np.linalg.norm(p - v1), np.linalg.norm(p - v2)) <= tol:
            raise Violation("edge-point-at-vertex", f"point {i} {p.tolist()} repeats the position of an end vertex",
                            **facts, index=i)
        mins = cs.minima(p, lo, hi)
        on_curve = [t for d, t in mins if d <= tol]
        if not on_curve:
            _, d_any = cs.nearest(p, b0, b1)
            kind = "edge-point-off-curve" if d_any > tol else "edge-point-outside-range"
            raise Violation(kind, f"point {i} {p.tolist()} is {mins[0][0]} from the curve between parameters {lo} and {hi} "
                            f"({d_any} from the whole curve)", **facts, index=i)
        # a curve may pass a point more than once: the points are in order if parameters can be chosen monotonically
        ahead = [t for t in on_curve if (t - prev) * sign >= -slack]
        if not ahead:
            raise Violation("edge-points-not-ordered", f"point {i} has parameter {on_curve[0]}, the previous one {prev} (edge "
                            f"runs {t1} -> {t2})", **facts, index=i)
        prev = min(ahead, key=lambda t: (t - prev) * sign)
    # Edge.length
    curved = [e for e in mesh.edge_list.edges if e.kind == "curve"]
    if len(curved) != 1:
        raise Violation("edge-entries", f"{len(curved)} curve edges in the edge list", **facts)
    try:
        length = float(curved[0].length)
    except Exception as ex:  # noqa: BLE001
        raise Violation("edge-length-raised", f"Edge.length raised {type(ex).__name__}: {ex}", **facts) from None
    brk = break_params(spec) or []
    dense = polyline(sample(dense_params(t1, t2, brk, n=4001)))
    facts = dict(facts, length=length, dense=dense)
    if spec["type"] in ("linear", "line"):
        want = ref_linear_length(ref, brk, t1, t2)
        if abs(length - want) > 1e-7 * L:
            raise Violation("edge-length", f"Edge.length = {length}, polyline length between the vertices = {want}", **facts)
    elif spec["type"] == "spline":
        inscribed = polyline(sample([lo, *[t for t in brk if lo < t < hi], hi]))
        if not (inscribed - 1e-7 * L <= length <= dense * (1 + 1e-5) + 1e-7 * L):
            raise Violation("edge-length", f"Edge.length = {length} outside [{inscribed} (polyline through the defining "
                            f"points), {dense} (dense arc length)]", **facts)
    else:
        if abs(length - dense) > 2e-3 * dense:
            raise Violation("edge-length", f"Edge.length = {length}, dense arc length between the vertices = {dense}", **facts)


def check_edge(case, ctx: Ctx) -> None:
    spec = case["curve"]
    curve, ref = build(spec)
    sample = sampler(curve, ref)
    b0, b1 = bounds_of(spec)
    cs = CurveSamples(sample, b0, b1, break_params(spec) or ())
    L = cs.length
    ctxt = {"spec": spec, "ref": ref, "sample": sample, "cs": cs}
    base = facts_of(case, position=case["position"], representation=case["representation"], n_points=case["n_points"])

    def usable(t1, t2, facts) -> bool:
        """vertices distinct and each at a point the curve passes once; the library must then find their parameters"""
        v1, v2 = sample([t1])[0], sample([t2])[0]
        if np.linalg.norm(v1 - v2) < 1e-3 * L:
            ctx.label("excluded:coincident-ends")
            return False
        for v, t in ((v1, t1), (v2, t2)):
            if not vertex_on_curve_once(cs, v, t, b0, b1):
                ctx.label("excluded:self-intersection")
                return False
            judge_closest(curve, cs, v, b0, b1, dict(facts, vertex_parameter=t))
        return True

    t1, t2 = case["params"]
    facts = dict(base, step=0, reversed=t1 > t2)
    if not usable(t1, t2, facts):
        return
    v1, v2 = sample([t1])[0], sample([t2])[0]
    try:
        mesh, _corners = build_edge_mesh(case, curve, v1, v2)
        text, _ = lt.write_text(mesh)
    except Exception as ex:  # noqa: BLE001
        raise Violation("edge-write-failed", f"{type(ex).__name__}: {ex}", **facts) from None
    judge_written_edge(case, ctx, ctxt, mesh, text, t1, t2, facts)
    c1, c2 = EDGE_POSITIONS[case["position"]]
    done = 0
    for k, step in enumerate(case.get("history", []), start=1):
        t1, t2 = step["params"]
        facts = dict(base, step=k, reversed=t1 > t2)
        if not usable(t1, t2, facts):
            break
        v1, v2 = sample([t1])[0], sample([t2])[0]
        corners = mesh.blocks[0].vertices
        size = float(np.linalg.norm(v2 - v1))
        others = [i for i in range(8) if i not in (c1, c2)]
        try:
            corners[c1].move_to(v1)
            corners[c2].move_to(v2)
            for i, j in zip(others, step["jiggle"]):
                corners[i].translate(0.1 * size * np.array(j))
            text, _ = lt.write_text(mesh)
        except Exception as ex:  # noqa: BLE001
            raise Violation("edge-write-failed", f"after moving vertices: {type(ex).__name__}: {ex}", **facts) from None
        judge_written_edge(case, ctx, ctxt, mesh, text, t1, t2, facts)
        done += 1
    t1, t2 = case["params"]
    ctx.nt(spacing_ratio(spec) > 2 and not (min(t1, t2) == b0 and max(t1, t2) == b1))
    ctx.label("type=" + spec["type"] + ("/eq" if spec.get("equalize") else ""), "reversed" if t1 > t2 else "forward",
              "pos=" + case["position"][:-1], case["representation"], "rewrites=%d" % done, *size_labels(spec),
              "n_points=%d" % case["n_points"] if case["n_points"] <= 3 else "n_points>3",
              *(["function-style=" + spec["style"]] if "style" in spec else []))


# --------------------------------------------------------------------------------------------------

def _zero_grid():
    """curve kind x bounds around zero x an explicit parameter of exactly 0 (int) / 0.0 (float) as `from` and as `to`"""
    fr = {"axis": [1.0, 2.0, 3.0], "angle": 0.7, "origin": [0.3, -0.2, 0.1]}
    curves = []
    for bounds in ([-0.5, 0.5], [-1.0, 0.0], [-0.75, 1.75]):
        curves += [
            {"type": "line", "frame": fr, "scale": 2.0, "bounds": bounds},
            {"type": "circle", "frame": fr, "scale": 2.0, "bounds": bounds, "normal_length": 0.2},
            {"type": "helix", "frame": fr, "scale": 2.0, "bounds": bounds, "pitch": 0.4, "style": "components"},
            {"type": "cubic", "frame": fr, "scale": 2.0, "bounds": bounds, "coef": [1.0, -1.5, 0.7], "style": "scalar"},
        ]
    ends, lengths = [], []
    for spec in curves:
        b0, b1 = spec["bounds"]
        other = b1 if b1 != 0 else b0
        for zero in (0, 0.0):
            for pair in ([zero, other], [other, zero], [zero, b0], [b0, zero]):
                if pair[0] == pair[1]:
                    continue
                ends.append({"curve": spec, "params": pair, "count": 4, "none": [False, False]})
                lengths.append({"curve": spec, "params": [*pair, 0.5 * (pair[0] + pair[1])]})
    return ends, lengths


_ZERO_ENDS, _ZERO_LENGTHS = _zero_grid()

CELLS = [
    Cell("C16/ends", ends_case(), check_ends, 1500, 25000,
         "all six curve types: discretize(a, b[, count]) starts at get_point(a) and ends at get_point(b), either order, "
         "None = bound; fixed grid: analytic kinds x bounds around 0 x explicit parameter 0 / 0.0 as from / to", _ZERO_ENDS),
    Cell("C16/through-points", point_curve(("linear", "spline")).map(lambda s: {"curve": s}), check_through, 800, 12000,
         "interpolated curves reproduce every defining point at the harness' own chord-length / uniform parameter"),
    Cell("C16/length/discrete", length_discrete_case(), check_length_discrete, 800, 12000,
         "DiscreteCurve: length = polyline of the points between the indexes, symmetric, additive at an index"),
    Cell("C16/length/linear", curve_and_params(point_curve(("linear",)), k=3), check_length_linear, 1500, 25000,
         "LinearInterpolatedCurve: length = polyline P(a), break points between, P(b) from the harness' model; symmetric; "
         "additive"),
    Cell("C16/length/spline", curve_and_params(point_curve(("spline",)), k=3), check_length_spline, 750, 12000,
         "SplineInterpolatedCurve: symmetric; len(a,b) <= len(a,m)+len(m,b) <= dense arc length; >= chord"),
    Cell("C16/length/analytic", curve_and_params(analytic_curve(), k=3), check_length_analytic, 900, 15000,
         "Line: exact and additive; circle / helix / cubic: symmetric, two-sided bound, additive to 2e-3; fixed grid as in "
         "C16/ends", _ZERO_LENGTHS),
    Cell("C16/closest/discrete", closest_case(point_curve(("discrete",))), check_closest_discrete, 800, 12000,
         "DiscreteCurve: returned index is a nearest point (near queries; far counted)"),
    Cell("C16/closest/interpolated", closest_case(st.one_of(point_curve(("linear", "spline")), point_curve(("linear", "spline")), detail_curve())),
         check_closest_function, 1000, 20000,
         "interpolated curves: point at the returned parameter is as close as the dense minimum (near queries)"),
    Cell("C16/closest/analytic", closest_case(analytic_curve()), check_closest_function, 900, 15000,
         "analytic curves, seam of closed circles avoided: as close as the dense minimum (near queries)"),
    Cell("C16/edge/oncurve", edge_case(), check_edge, 500, 10000,
         "one OnCurve edge in any of 12 positions, either direction, spline / polyLine: written points on the curve "
         "between and ordered from vertex 1 to vertex 2; Edge.length = curve length between the vertices; then 0-2 times: "
         "both vertices moved to other points of the curve, other corners jiggled, written again and judged again"),
]
